(* C11: an independent reference for text conversion — a single left-to-right tokenizer of the INPUT text
   into reader-level events — and the event view of an emitted run. *)
From Coq Require Import Ascii String.
From Coq Require Import List NArith ZArith Bool Arith.
From V Require Import Str Tok Tables Items Read Decode TextConv.
Import ListNotations.
Local Open Scope string_scope.
Local Open Scope list_scope.

Inductive ev :=
| EChar (c : N)
| ESuper | ESub | ELine | EPageNum | ETotalPage | EPageField
| ECtrl (n : str) (p : option Z) | ESym (c : N) | EOpen | EClose.

Definition ev_eqb (a b : ev) : bool :=
  match a, b with
  | EChar x, EChar y => N.eqb x y
  | ESuper, ESuper | ESub, ESub | ELine, ELine | EPageNum, EPageNum | ETotalPage, ETotalPage
  | EPageField, EPageField | EOpen, EOpen | EClose, EClose => true
  | ECtrl n p, ECtrl m q => str_eqb n m && optZ_eqb p q
  | ESym x, ESym y => N.eqb x y
  | _, _ => false
  end.

(* ---- events a reader derives from the tokens of a run ---- *)
Definition field_tokens : list tok :=
  [TOpen; ctrl "field"; TOpen; TSym 42; ctrl "fldinst"; TText (s2l "NUMPAGES "); TClose; TClose].

Fixpoint strip_prefix (p ts : list tok) : option (list tok) :=
  match p, ts with
  | [], _ => Some ts
  | x :: p', y :: ts' => if tok_eqb x y then strip_prefix p' ts' else None
  | _ :: _, [] => None
  end.

Fixpoint events_fuel (fuel : nat) (ts : list tok) (uc skip : nat) : list ev :=
  match fuel with
  | O => []
  | S f =>
    match strip_prefix field_tokens ts with
    | Some rest => EPageField :: events_fuel f rest uc 0
    | None =>
      match ts with
      | [] => []
      | TText s :: r => map EChar (drop skip s) ++ events_fuel f r uc (skip - length s)
      | TCtrl n p :: r =>
        if str_eqb n (s2l "u") then
          match p with
          | Some z => EChar (Z.to_N (Z.modulo z 65536)) :: events_fuel f r uc uc
          | None => ECtrl n p :: events_fuel f r uc 0
          end
        else if str_eqb n (s2l "uc") then
          events_fuel f r (match p with Some z => Z.to_nat z | None => uc end) 0
        else if str_eqb n (s2l "super") then ESuper :: events_fuel f r uc 0
        else if str_eqb n (s2l "sub") then ESub :: events_fuel f r uc 0
        else if str_eqb n (s2l "line") then ELine :: events_fuel f r uc 0
        else if str_eqb n (s2l "chpgn") then EPageNum :: events_fuel f r uc 0
        else if str_eqb n (s2l "totalpage") then ETotalPage :: events_fuel f r uc 0
        else ECtrl n p :: events_fuel f r uc 0
      | TSym c :: r => ESym c :: events_fuel f r uc 0
      | TOpen :: r => EOpen :: events_fuel f r uc 0
      | TClose :: r => EClose :: events_fuel f r uc 0
      end
    end
  end.

(* recombine surrogate pairs at the event level *)
Fixpoint join_sur (es : list ev) (pending : option N) : list ev :=
  match es with
  | [] => match pending with Some h => [EChar h] | None => [] end
  | EChar u :: r =>
    match pending with
    | Some h =>
      if is_low u then EChar (pair_value h u) :: join_sur r None
      else if is_high u then EChar h :: join_sur r (Some u)
      else EChar h :: EChar u :: join_sur r None
    | None => if is_high u then join_sur r (Some u) else EChar u :: join_sur r None
    end
  | e :: r =>
    match pending with
    | Some h => EChar h :: e :: join_sur r None
    | None => e :: join_sur r None
    end
  end.

Definition events_of_tokens (ts : list tok) : list ev :=
  join_sur (events_fuel (S (length ts)) ts 1 0) None.

(* ---- the reference converter: events of the INPUT text ---- *)
Definition keyword_events : list (str * ev) :=
  [(s2l "\pagenumber", EPageNum); (s2l "\totalpage", ETotalPage); (s2l "\pagefield", EPageField)].

Fixpoint match_keyword (kws : list (str * ev)) (s : str) : option (ev * str) :=
  match kws with
  | [] => None
  | (k, e) :: r => if starts_with k s then Some (e, drop (length k) s) else match_keyword r s
  end.

Definition other_keys : list (str * str) := special_keys.

(* an unknown command stays verbatim: the reader sees a control word (with the parameter / delimiter
   the following characters give it) *)
Definition raw_command (name rest : str) : ev * str :=
  let '(param, rest') := parse_param rest in
  (ECtrl name param, match rest' with 32%N :: q => q | _ => rest' end).

(* strict = true: the property as stated (every table key converts; signs and fields insert nothing);
   strict = false: with the documented deviation of the implementation (the known findings):
     - ">=", "<=" and "\pagefield" leave the delimiter space of their replacement behind. *)
Fixpoint spec_fuel (strict : bool) (fuel : nat) (s : str) : list ev :=
  match fuel with
  | O => []
  | S f =>
    match s with
    | [] => []
    | c :: r =>
      let extra := if strict then [] else [EChar 32%N] in
      if N.eqb c 94 then ESuper :: spec_fuel strict f r
      else if N.eqb c 95 then ESub :: spec_fuel strict f r
      else if N.eqb c 10 then ELine :: spec_fuel strict f r
      else if N.eqb c 123 then EOpen :: spec_fuel strict f r
      else if N.eqb c 125 then EClose :: spec_fuel strict f r
      else if starts_with (s2l ">=") s then EChar 8805%N :: extra ++ spec_fuel strict f (drop 2 s)
      else if starts_with (s2l "<=") s then EChar 8804%N :: extra ++ spec_fuel strict f (drop 2 s)
      else if N.eqb c 92 then
        match match_keyword keyword_events s with
        | Some (e, rest) =>
          e :: (match e with EPageField => extra | _ => [] end) ++ spec_fuel strict f rest
        | None =>
          match longest_key other_keys s None with
          | Some (k, v) => map EChar v ++ spec_fuel strict f (drop (length k) s)
          | None =>
            let '(name, rest) := span is_alpha r [] in
            match name with
            | [] =>
              match r with
              | d :: r' => ESym d :: spec_fuel strict f r'
              | [] => [ESym 0%N]
              end
            | _ =>
              let cmd := 92%N :: name in
              let simple :=
                  match assoc cmd latex_table with
                  | Some v => map EChar v ++ spec_fuel strict f rest
                  | None => let '(e, rest') := raw_command name rest in e :: spec_fuel strict f rest'
                  end in
              match rest with
              | 123%N :: r2 =>
                let '(inner, rest2) := span (fun x => negb (N.eqb x 125)) r2 [] in
                match rest2 with
                | 125%N :: r3 =>
                  match assoc (cmd ++ 123%N :: inner ++ [125%N]) latex_table with
                  | Some v => map EChar v ++ spec_fuel strict f r3
                  | None => ECtrl name None :: spec_fuel strict f rest     (* the whole match stays verbatim *)
                  end
                | _ => simple
                end
              | _ => simple
              end
            end
          end
        end
      else EChar c :: spec_fuel strict f r
    end
  end.

Definition spec_events (strict : bool) (s : str) : list ev := spec_fuel strict (S (length s)) s.

Definition ev_list_eqb := list_eqb ev_eqb.
