(* C07: what the page processor writes into the top / bottom border matrices of a page. *)
From Coq Require Import Ascii String.
From Coq Require Import List NArith ZArith QArith Bool Arith Lia.
From V Require Import Str Num Tok Items Doc Broadcast Encode Paginate Pipeline BroadcastProofs.
Import ListNotations.
Local Open Scope nat_scope.

(* ---- set_nth ---- *)
Lemma set_nth_length {A} (l : list A) n x : length (set_nth l n x) = length l.
Proof. revert n; induction l as [|y l IH]; intros [|n]; cbn; try reflexivity. f_equal. apply IH. Qed.

Lemma set_nth_same {A} (l : list A) n x : n < length l -> nth_error (set_nth l n x) n = Some x.
Proof.
  revert n; induction l as [|y l IH]; intros n H; [cbn in H; lia|].
  destruct n; [reflexivity|]. cbn. apply IH. cbn in H. lia.
Qed.

Lemma set_nth_other {A} (l : list A) n m x : n <> m -> nth_error (set_nth l n x) m = nth_error l m.
Proof.
  revert n m; induction l as [|y l IH]; intros n m H; [destruct n; reflexivity|].
  destruct n, m; cbn; try reflexivity; try congruence. apply IH. congruence.
Qed.

(* ---- a matrix of exactly h rows of w entries ---- *)
Definition dims {A} (m : mat A) (h w : nat) : Prop := length m = h /\ Forall (fun row => length row = w) m.

Lemma to_list_dims {A} (v : mat A) h w C : v <> [] -> 0 < C -> rect v C -> dims (to_list v h w) h w.
Proof.
  intros Hv HC Hr. split; [apply to_list_rows; exact Hv|].
  apply Forall_forall. intros row Hin. eapply to_list_row_length; eassumption.
Qed.

Lemma iloc_dims {A} (m : mat A) h w r c :
  dims m h w -> r < h -> c < w ->
  iloc m r c = match nth_error m r with Some row => nth_error row c | None => None end.
Proof.
  intros [Hh Hw] Hr Hc. unfold iloc. destruct m as [|row0 m']; [cbn in Hh; lia|].
  assert (H0 : length row0 = w) by (inversion Hw; assumption).
  rewrite H0. destruct w as [|w']; [lia|]. rewrite Hh.
  rewrite Nat.mod_small by exact Hr. rewrite Nat.mod_small by exact Hc. reflexivity.
Qed.

Lemma update_cell_dims {A} (v : mat A) h w C r c x :
  v <> [] -> 0 < C -> rect v C -> dims (update_cell v h w r c x) h w.
Proof.
  intros Hv HC Hr. pose proof (to_list_dims v h w C Hv HC Hr) as [Hh Hw].
  unfold update_cell. destruct (nth_error (to_list v h w) r) as [row|] eqn:E; [|split; assumption].
  split; [rewrite set_nth_length; exact Hh|].
  apply Forall_forall. intros row' Hin.
  apply In_nth_error in Hin as (k & Hk).
  destruct (Nat.eq_dec r k) as [->|Hne].
  - rewrite set_nth_same in Hk by (apply nth_error_Some; congruence). inversion Hk; subst.
    rewrite set_nth_length. rewrite Forall_forall in Hw. apply Hw. eapply nth_error_In; exact E.
  - rewrite set_nth_other in Hk by exact Hne. rewrite Forall_forall in Hw. apply Hw. eapply nth_error_In; exact Hk.
Qed.

(* the updated cell holds the new style; every other cell keeps the (broadcast) value it had *)
Theorem update_cell_same {A} (v : mat A) h w C r c x :
  v <> [] -> 0 < C -> rect v C -> r < h -> c < w ->
  iloc (update_cell v h w r c x) r c = Some x.
Proof.
  intros Hv HC Hr Hrh Hcw.
  rewrite (iloc_dims _ h w r c (update_cell_dims v h w C r c x Hv HC Hr) Hrh Hcw).
  pose proof (to_list_dims v h w C Hv HC Hr) as [Hh Hw].
  unfold update_cell. destruct (nth_error (to_list v h w) r) as [row|] eqn:E.
  - rewrite set_nth_same by (rewrite Hh; exact Hrh).
    apply set_nth_same. rewrite Forall_forall in Hw. rewrite (Hw row (nth_error_In _ _ E)). exact Hcw.
  - apply nth_error_None in E. lia.
Qed.

Theorem update_cell_other {A} (v : mat A) h w C r c x r' c' :
  v <> [] -> 0 < C -> rect v C -> r' < h -> c' < w -> (r', c') <> (r, c) ->
  iloc (update_cell v h w r c x) r' c' = iloc v r' c'.
Proof.
  intros Hv HC Hr Hrh Hcw Hne.
  rewrite (iloc_dims _ h w r' c' (update_cell_dims v h w C r c x Hv HC Hr) Hrh Hcw).
  rewrite <- (to_list_entry v h w r' c' C Hv HC Hr Hrh Hcw).
  unfold update_cell. destruct (nth_error (to_list v h w) r) as [row|] eqn:E; [|reflexivity].
  destruct (Nat.eq_dec r r') as [->|Hr'].
  - rewrite set_nth_same by (apply nth_error_Some; congruence). rewrite E.
    apply set_nth_other. intro; subst. apply Hne. reflexivity.
  - rewrite set_nth_other by exact Hr'. reflexivity.
Qed.

(* ---- fill_row: one style for every column of a row ---- *)
Definition wellshaped {A} (m : mat A) : Prop := exists C, m <> [] /\ 0 < C /\ rect m C.

Lemma dims_wellshaped {A} (m : mat A) h w : dims m h w -> 0 < h -> 0 < w -> wellshaped m.
Proof.
  intros [Hh Hw] H0 W0. exists w. split; [destruct m; [cbn in Hh; lia|congruence]|]. split; [exact W0|exact Hw].
Qed.

Lemma fold_update_row (v : mat str) h w r (f : nat -> str) cs r' c' :
  wellshaped v -> r < h -> r' < h -> c' < w -> Forall (fun c => c < w) cs ->
  iloc (fold_left (fun m c => update_cell m h w r c (f c)) cs v) r' c'
  = if Nat.eqb r' r && existsb (Nat.eqb c') cs then Some (f c') else iloc v r' c'.
Proof.
  intros Hv Hr Hr' Hc' Hcs. revert v Hv. induction Hcs as [|c cs Hc _ IH]; intros v Hv; cbn [fold_left existsb].
  - rewrite andb_false_r. reflexivity.
  - destruct Hv as (C & Hne & HC & Hrect).
    assert (Hws : wellshaped (update_cell v h w r c (f c))).
    { eapply dims_wellshaped; [eapply update_cell_dims; eassumption|lia|lia]. }
    rewrite (IH _ Hws).
    destruct (Nat.eqb r' r) eqn:Er; cbn [andb].
    + apply Nat.eqb_eq in Er; subst r'.
      destruct (existsb (Nat.eqb c') cs); [rewrite orb_true_r; reflexivity|]. rewrite orb_false_r.
      destruct (Nat.eqb c' c) eqn:Ec.
      * apply Nat.eqb_eq in Ec; subst c'. eapply update_cell_same; eassumption.
      * eapply update_cell_other; try eassumption. apply Nat.eqb_neq in Ec. congruence.
    + eapply update_cell_other; try eassumption. apply Nat.eqb_neq in Er. congruence.
Qed.

Theorem fill_row_spec (v : mat str) h w r f r' c' :
  wellshaped v -> r < h -> r' < h -> c' < w ->
  iloc (fill_row v h w r f) r' c' = if Nat.eqb r' r then Some (f c') else iloc v r' c'.
Proof.
  intros Hv Hr Hr' Hc'. unfold fill_row.
  rewrite (fold_update_row v h w r f (seq 0 w) r' c' Hv Hr Hr' Hc').
  - replace (existsb (Nat.eqb c') (seq 0 w)) with true; [rewrite andb_true_r; reflexivity|].
    symmetry. apply existsb_exists. exists c'. split; [apply in_seq; lia|apply Nat.eqb_refl].
  - apply Forall_forall. intros c Hc. apply in_seq in Hc. lia.
Qed.

Lemma blank_wellshaped h w : 0 < h -> 0 < w -> wellshaped (blank_mat h w).
Proof.
  intros Hh Hw. exists w. unfold blank_mat. split; [destruct h; [lia|discriminate]|]. split; [exact Hw|].
  apply Forall_forall. intros row Hin. apply repeat_spec in Hin. subst. apply repeat_length.
Qed.

(* ---- the decisions of process_page, stated on the resulting matrices ---- *)
Section Process.
  Variables (s : secdoc) (pattrs : attrs) (p : pagectx) (w : nat).
  Let pb := process_page s pattrs p w.
  Let h := pc_len p.
  Let a0 := rebase_attrs (pc_slice_start p) h pattrs.

  (* the bottom edge: which style, and whether it goes to the last data row or to a table component *)
  Definition closing_style : option str :=
    if negb (pc_last p)
    then match a_blast (b_attrs (s_body s)) with Some ((st :: _) :: _) => Some st | _ => None end
    else if truthy_s (p_border_last (s_page s)) then p_border_last (s_page s) else None.

  Definition closed_by_component : bool :=
    (tt_shown (s_footnote s) (p_footnote (s_page s)) p && tt_is_table (s_footnote s))
    || (tt_shown (s_source s) (p_source (s_page s)) p && tt_is_table (s_source s)).

  (* not closed by a component: every cell of the page's last data row gets the closing style *)
  Theorem last_row_closed st c :
    0 < h -> c < w -> closing_style = Some st -> closed_by_component = false ->
    wellshaped (or_blank (a_bb a0) h w) ->
    match a_bb (pb_attrs pb) with Some m => iloc m (h - 1) c | None => None end = Some st.
  Proof.
    intros Hh Hc Hs Hcl Hws. unfold pb, process_page. fold h. destruct h as [|h'] eqn:Eh; [lia|].
    cbn [pb_attrs with_bb with_bt a_bb]. unfold closing_style in Hs. unfold closed_by_component in Hcl.
    fold a0. rewrite Hs, Hcl.
    rewrite fill_row_spec by (try exact Hws; lia). rewrite Nat.eqb_refl. reflexivity.
  Qed.

  (* closed by a table-rendered footnote / source: the style goes to that component (source first) *)
  Theorem component_closed st :
    0 < h -> closing_style = Some st -> closed_by_component = true ->
    (tt_shown (s_source s) (p_source (s_page s)) p && tt_is_table (s_source s) = true -> pb_source pb = Some st)
    /\ (tt_shown (s_source s) (p_source (s_page s)) p && tt_is_table (s_source s) = false -> pb_footnote pb = Some st).
  Proof.
    intros Hh Hs Hcl. unfold pb, process_page. fold h. destruct h as [|h'] eqn:Eh; [lia|].
    cbn [pb_source pb_footnote]. unfold closing_style in Hs. unfold closed_by_component in Hcl.
    rewrite Hs, Hcl. split; intro Hsrc; rewrite Hsrc.
    - reflexivity.
    - rewrite Hsrc in Hcl. rewrite orb_false_r in Hcl. rewrite Hcl. reflexivity.
  Qed.
  (* the top edge of the page's first data row *)
  Let has_hdr := renders_column_header (s_headers s) (b_as_colheader (s_body s)).
  Let body_bf := match a_bfirst (b_attrs (s_body s)) with Some (_ :: _) => true | _ => false end.

  (* first page without a rendered column header: rtf_page.border_first (when body.border_first does not
     apply on top of it, i.e. on the first page without header the body rule is not used) *)
  Theorem top_row_page_first st c :
    0 < h -> c < w -> pc_first p = true -> has_hdr = false -> p_border_first (s_page s) = Some st -> st <> [] ->
    wellshaped (or_blank (a_bt a0) h w) ->
    match a_bt (pb_attrs pb) with Some m => iloc m 0 c | None => None end = Some st.
  Proof.
    intros Hh Hc Hf Hhd Hst Hne Hws. unfold pb, process_page. fold h. destruct h as [|h'] eqn:Eh; [lia|].
    cbn [pb_attrs with_bb with_bt a_bt]. fold a0. fold has_hdr. rewrite Hf, Hhd, Hst.
    cbn [negb andb orb]. assert (Ht : truthy_s (Some st) = true) by (destruct st; [congruence|reflexivity]).
    rewrite Ht. rewrite fill_row_spec by (try exact Hws; lia). reflexivity.
  Qed.

  (* every other page start (later pages, or the first page under a header): rtf_body.border_first *)
  Theorem top_row_body_first c :
    0 < h -> c < w -> (pc_first p = false \/ has_hdr = true) -> body_bf = true ->
    wellshaped (or_blank (a_bt a0) h w) ->
    match a_bt (pb_attrs pb) with Some m => iloc m 0 c | None => None end
    = Some (match body_border_first_style (b_attrs (s_body s)) c with Some x => x | None => [] end).
  Proof.
    intros Hh Hc Hcase Hbf Hws. unfold pb, process_page. fold h. destruct h as [|h'] eqn:Eh; [lia|].
    cbn [pb_attrs with_bb with_bt a_bt]. fold a0. fold has_hdr. fold body_bf. rewrite Hbf.
    assert (E1 : (pc_first p && has_hdr || negb (pc_first p)) && true = true).
    { destruct Hcase as [-> | ->]; [reflexivity|]. destruct (pc_first p); reflexivity. }
    rewrite E1.
    set (bt1 := if pc_first p && negb has_hdr && truthy_s (p_border_first (s_page s)) then _ else _).
    assert (Hbt1 : wellshaped bt1).
    { unfold bt1. destruct (pc_first p && negb has_hdr && truthy_s (p_border_first (s_page s))); [|exact Hws].
      destruct Hws as (C & Hne & HC & Hrect).
      assert (G : forall cs m, wellshaped m ->
                wellshaped (fold_left (fun m0 c0 => update_cell m0 (S h') w 0 c0
                   (match p_border_first (s_page s) with Some x => x | None => [] end)) cs m)).
      { induction cs as [|c0 cs IHc]; intros m Hm; [exact Hm|]. cbn [fold_left]. apply IHc.
        destruct Hm as (C' & Hne' & HC' & Hrect').
        eapply dims_wellshaped; [eapply update_cell_dims; eassumption|lia|lia]. }
      unfold fill_row. apply G. exists C. auto. }
    rewrite fill_row_spec by (try exact Hbt1; lia). reflexivity.
  Qed.
End Process.
