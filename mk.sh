#!/bin/bash
# (re)generate coq/Makefile from the files present and build the given targets (default: all .vo)
set -o pipefail
cd "$(dirname "$0")"
# the generated tables always reflect /repo's current working tree
PYTHONHASHSEED=0 PYTHONPATH=/repo/src /venv/bin/python harness/gen_tables.py | grep -v unchanged
PYTHONHASHSEED=0 PYTHONPATH=/repo/src /venv/bin/python harness/gen_advances.py
PYTHONHASHSEED=0 PYTHONPATH=/repo/src /venv/bin/python harness/gen_example.py
mkdir -p ocaml/gen coq/Top
cd coq
{
  echo "-Q Base V"; echo "-Q Rtf V"; echo "-Q Gen V"; echo "-Q Model V"; echo "-Q Proofs V"; echo "-Q Properties V"; echo "-Q Top V"
  ls Base/*.v Rtf/*.v Gen/*.v Model/*.v Proofs/*.v Properties/*.v Top/*.v 2>/dev/null
} > _CoqProject.new
if ! cmp -s _CoqProject.new _CoqProject; then mv _CoqProject.new _CoqProject; coq_makefile -f _CoqProject -o Makefile >/dev/null; else rm _CoqProject.new; fi
[ -f Makefile ] || coq_makefile -f _CoqProject -o Makefile >/dev/null
timeout ${MK_TIMEOUT:-1500} make -j${MK_JOBS:-12} "$@" 2>&1 | grep -v '^COQDEP\|^make\[' | tail -${MK_TAIL:-25}
exit ${PIPESTATUS[0]}
