(* C10 at character level: the lexer reads the escaper's output back as the tokens the round-trip theorem is about.
   lex (escape s) = lt s []  for every string of scalar values without \ { } CR LF, and decode_tokens (lt s []) = s. *)
From Coq Require Import Ascii String.
From Coq Require Import List NArith ZArith Bool Arith Lia.
Local Open Scope string_scope.
Local Open Scope list_scope.
From V Require Import Str Tok Items Read Bytes Decode WellFormed TextConv EscapeProofs.
Import ListNotations.
Local Open Scope N_scope.

(* ---- the decimal parameter of every unit is parsed back (finite: 65536 units) ---- *)
Definition all_digits (l : str) : bool := match l with [] => false | _ => all_b is_digit l end.
Definition dec_ok (ds : str) (z : Z) : bool :=
  match ds with
  | 45 :: r => all_digits r && Z.eqb z (Z.opp (Z.of_N (digits_to_N r 0)))
  | _ => all_digits ds && Z.eqb z (Z.of_N (digits_to_N ds 0))
  end.

Lemma all_units_dec : all_below 65536 (fun u => dec_ok (dec_of_Z (signed16 u)) (signed16 u)) = true.
Proof. vm_compute. reflexivity. Qed.

Lemma unit_dec u : u < 65536 -> dec_ok (dec_of_Z (signed16 u)) (signed16 u) = true.
Proof. apply (all_below_spec 65536 (fun u => dec_ok (dec_of_Z (signed16 u)) (signed16 u)) all_units_dec). Qed.

(* ---- span over a known prefix ---- *)
Lemma span_app p l x tl acc :
  all_b p l = true -> p x = false -> span p (l ++ x :: tl) acc = (rev' (rev_append l acc), x :: tl).
Proof.
  revert acc; induction l as [|c l IH]; intros acc Hl Hx; cbn [app span all_b rev_append] in *.
  - rewrite Hx. reflexivity.
  - apply andb_prop in Hl as [H1 H2]. rewrite H1. apply IH; assumption.
Qed.

Lemma rev'_rev_append {A} (l : list A) : rev' (rev_append l []) = l.
Proof. unfold rev'. rewrite !rev_append_rev, !app_nil_r. apply rev_involutive. Qed.

Lemma digit_not_alpha c : is_digit c = true -> is_alpha c = false.
Proof.
  unfold is_digit, is_alpha. intro H. apply andb_prop in H as [H1 H2]. apply N.leb_le in H1, H2.
  replace (65 <=? c) with false by (symmetry; apply N.leb_gt; lia).
  replace (97 <=? c) with false by (symmetry; apply N.leb_gt; lia). reflexivity.
Qed.

(* parsing the parameter the escaper wrote, followed by the fallback character *)
Lemma parse_param_dec ds z rest :
  dec_ok ds z = true -> parse_param (ds ++ 42 :: rest) = (Some z, 42 :: rest) /\
  (exists d r, ds = d :: r /\ is_alpha d = false).
Proof.
  unfold dec_ok. destruct ds as [|d r]; [discriminate|].
  destruct (N.eqb d 45) eqn:E45.
  - apply N.eqb_eq in E45; subst d. intro H. apply andb_prop in H as [Hd Hz]. apply Z.eqb_eq in Hz.
    unfold all_digits in Hd. destruct r as [|d1 r1]; [discriminate|].
    split; [|exists 45, (d1 :: r1); split; reflexivity].
    change ((45 :: d1 :: r1) ++ 42 :: rest) with (45 :: ((d1 :: r1) ++ 42 :: rest)).
    unfold parse_param. rewrite (span_app is_digit (d1 :: r1) 42 rest [] Hd eq_refl).
    rewrite rev'_rev_append. rewrite Hz. reflexivity.
  - assert (Hne : d <> 45) by (apply N.eqb_neq; exact E45).
    replace (match d :: r with 45 :: r0 => all_digits r0 && Z.eqb z (Z.opp (Z.of_N (digits_to_N r0 0)))
                             | _ => all_digits (d :: r) && Z.eqb z (Z.of_N (digits_to_N (d :: r) 0)) end)
      with (all_digits (d :: r) && Z.eqb z (Z.of_N (digits_to_N (d :: r) 0)))
      by (destruct d as [|p]; [reflexivity|]; do 6 (destruct p as [p|p|]; try reflexivity); congruence).
    intro H. apply andb_prop in H as [Hd Hz]. apply Z.eqb_eq in Hz. unfold all_digits in Hd.
    split.
    + assert (P : parse_param ((d :: r) ++ 42 :: rest) =
                  (let '(ds, rest0) := span is_digit ((d :: r) ++ 42 :: rest) [] in
                   match ds with [] => (None, (d :: r) ++ 42 :: rest) | _ => (Some (Z.of_N (digits_to_N ds 0)), rest0) end)).
      { cbn [app]. unfold parse_param. destruct d as [|p]; [reflexivity|]; do 6 (destruct p as [p|p|]; try reflexivity); congruence. }
      rewrite P. rewrite (span_app is_digit (d :: r) 42 rest [] Hd eq_refl). rewrite rev'_rev_append. rewrite Hz. reflexivity.
    + exists d, r. split; [reflexivity|]. cbn [all_b] in Hd. apply andb_prop in Hd as [Hd _]. apply digit_not_alpha. exact Hd.
Qed.

(* ---- one escaped UTF-16 unit is lexed as \uc1, \uN and leaves the fallback character pending ---- *)
Definition uc_tok : tok := TCtrl (s2l "uc") (Some 1%Z).
Definition u_tok (u : N) : tok := TCtrl (s2l "u") (Some (signed16 u)).

Lemma lex_unit f u rest txt out :
  u < 65536 ->
  lex_fuel (S (S (S f))) (esc_unit u ++ rest) txt out
  = lex_fuel f rest [42] (u_tok u :: uc_tok :: flush txt out).
Proof.
  intro Hu. unfold esc_unit.
  destruct (parse_param_dec (dec_of_Z (signed16 u)) (signed16 u) rest (unit_dec u Hu)) as [Hp (d & r & Hd & Hna)].
  change (s2l "\uc1\u") with [92; 117; 99; 49; 92; 117].
  rewrite <- !app_assoc. cbn [app].
  (* \uc1 *)
  cbn [lex_fuel N.eqb Pos.eqb orb is_alpha N.leb N.compare Pos.compare Pos.compare_cont andb].
  change (is_alpha 117) with true. cbn iota.
  change (span is_alpha (117 :: 99 :: 49 :: 92 :: 117 :: dec_of_Z (signed16 u) ++ 42 :: rest) [])
    with ([117; 99], 49 :: 92 :: 117 :: dec_of_Z (signed16 u) ++ 42 :: rest).
  cbn iota beta.
  change (parse_param (49 :: 92 :: 117 :: dec_of_Z (signed16 u) ++ 42 :: rest))
    with (Some 1%Z, 92 :: 117 :: dec_of_Z (signed16 u) ++ 42 :: rest).
  cbn iota beta.
  (* \u<param> *)
  cbn [lex_fuel N.eqb Pos.eqb orb].
  change (is_alpha 117) with true. cbn iota.
  assert (Hs : span is_alpha (117 :: dec_of_Z (signed16 u) ++ 42 :: rest) [] = ([117], dec_of_Z (signed16 u) ++ 42 :: rest)).
  { rewrite Hd. cbn [app span]. change (is_alpha 117) with true. cbn iota. rewrite Hna. reflexivity. }
  rewrite Hs. cbn iota beta. rewrite Hp. cbn iota beta.
  (* the fallback character *)
  cbn [lex_fuel N.eqb Pos.eqb orb flush]. reflexivity.
Qed.

(* ---- the token list the lexer produces for an escaped string ---- *)
Definition flushf (p : str) : list tok := match p with [] => [] | _ => [TText p] end.

Fixpoint units_toks (us : list N) (p : str) : list tok * str :=
  match us with
  | [] => ([], p)
  | u :: r => let '(ts, p') := units_toks r [42] in (flushf p ++ uc_tok :: u_tok u :: ts, p')
  end.

Fixpoint lt (s : str) (p : str) : list tok :=
  match s with
  | [] => flushf p
  | c :: r =>
    if c <? 128 then lt r (p ++ [c])
    else let '(ts, p') := units_toks (utf16_units c) p in ts ++ lt r p'
  end.

(* characters the escaper passes through as plain text: 7-bit, not special to the lexer *)
Definition plain (c : N) : bool :=
  negb (N.eqb c 123) && negb (N.eqb c 125) && negb (N.eqb c 10) && negb (N.eqb c 13) && negb (N.eqb c 92).
Definition clean (s : str) : Prop :=
  Forall (fun c => (c <? 128 = true -> plain c = true) /\ c < 1114112) s.

Lemma flush_rev txt out : rev' (flush txt out) = rev' out ++ flushf (rev' txt).
Proof.
  unfold flush, flushf, rev'. destruct txt as [|c t]; cbn [rev_append]; [rewrite app_nil_r; reflexivity|].
  rewrite !rev_append_rev. cbn [rev app]. rewrite app_nil_r.
  destruct (rev t ++ [c]) eqn:E; [destruct (rev t); discriminate|]. rewrite <- E. reflexivity.
Qed.

Lemma lex_plain f c rest txt out :
  plain c = true -> lex_fuel (S f) (c :: rest) txt out = lex_fuel f rest (c :: txt) out.
Proof.
  unfold plain. intro H. repeat (apply andb_prop in H as [H ?]).
  cbn [lex_fuel].
  repeat match goal with Hx : negb (N.eqb c ?k) = true |- _ => apply negb_true_iff in Hx; rewrite Hx; clear Hx end.
  reflexivity.
Qed.

Lemma rev'_cons2 {A} (a b : A) l : rev' (a :: b :: l) = rev' l ++ [b; a].
Proof. unfold rev'. cbn [rev_append]. rewrite !rev_append_rev. cbn [rev app]. rewrite !app_nil_r. reflexivity. Qed.

Lemma rev'_cons1 {A} (a : A) l : rev' (a :: l) = rev' l ++ [a].
Proof. unfold rev'. cbn [rev_append]. rewrite !rev_append_rev. cbn [rev app]. rewrite !app_nil_r. reflexivity. Qed.

(* lexing the escaped units of one character, in final form: K describes what the rest of the input produces *)
Lemma lex_units_final us f rest (K : str -> list tok) :
  (forall txt' out', lex_fuel f rest txt' out' = rev' out' ++ K (rev' txt')) ->
  Forall (fun u => u < 65536) us -> us <> [] ->
  forall txt out,
  lex_fuel (3 * length us + f) (concat_str (map esc_unit us) ++ rest) txt out
  = rev' out ++ fst (units_toks us (rev' txt)) ++ K (snd (units_toks us (rev' txt))).
Proof.
  intros HK H. induction H as [|u us Hu Hus IH]; intros Hne txt out; [congruence|].
  cbn [map concat_str length units_toks]. rewrite <- app_assoc.
  replace (3 * S (length us) + f)%nat with (S (S (S (3 * length us + f)))) by lia.
  rewrite lex_unit by exact Hu.
  destruct us as [|u2 us2].
  - cbn [map concat_str length app units_toks fst snd Nat.mul Nat.add]. rewrite HK.
    rewrite rev'_cons2, flush_rev. change (rev' [42]) with [42]. rewrite <- !app_assoc. reflexivity.
  - rewrite (IH ltac:(discriminate)). change (rev' [42]) with [42].
    destruct (units_toks (u2 :: us2) [42]) as [ts p'] eqn:E. cbn [fst snd].
    rewrite rev'_cons2, flush_rev. rewrite <- !app_assoc. reflexivity.
Qed.

(* fuel: one step per plain character, three per escaped unit *)
Fixpoint need (s : str) : nat :=
  match s with
  | [] => 0%nat
  | c :: r => Nat.add (if (c <? 128)%N then 1%nat else Nat.mul 3 (length (utf16_units c))) (need r)
  end.

Theorem lex_escape_acc s : clean s ->
  forall f txt out, (need s <= f)%nat -> lex_fuel f (escape s) txt out = rev' out ++ lt s (rev' txt).
Proof.
  induction 1 as [|c r [Hp Hc] _ IH]; intros f txt out Hf.
  - cbn [escape lt]. destruct f; cbn [lex_fuel]; apply flush_rev.
  - cbn [escape lt need] in *. unfold esc_char. destruct (c <? 128) eqn:E.
    + destruct f as [|f']; [lia|]. cbn [app]. rewrite lex_plain by (apply Hp; reflexivity).
      rewrite IH by lia. rewrite rev'_cons1. reflexivity.
    + replace f with (3 * length (utf16_units c) + (f - 3 * length (utf16_units c)))%nat by lia.
      rewrite (lex_units_final (utf16_units c) _ (escape r) (lt r)).
      * destruct (units_toks (utf16_units c) (rev' txt)) as [ts p']. reflexivity.
      * intros txt' out'. apply IH. lia.
      * apply units_range. exact Hc.
      * unfold utf16_units. destruct (65535 <? c); discriminate.
Qed.

Lemma esc_unit_length u : (3 <= length (esc_unit u))%nat.
Proof. unfold esc_unit. rewrite !app_length. cbn. lia. Qed.

Lemma need_le_length s : (need s <= length (escape s))%nat.
Proof.
  induction s as [|c r IH]; [reflexivity|]. cbn [need escape]. rewrite app_length. unfold esc_char.
  destruct (c <? 128); [cbn; lia|].
  assert (H : (3 * length (utf16_units c) <= length (concat_str (map esc_unit (utf16_units c))))%nat).
  { induction (utf16_units c) as [|u us IHu]; [reflexivity|]. cbn [map concat_str length]. rewrite app_length.
    pose proof (esc_unit_length u). lia. }
  lia.
Qed.

(* the lexer reads the escaped text as exactly the tokens lt describes *)
Theorem lex_escape s : clean s -> lex (escape s) = lt s [].
Proof.
  intro H. unfold lex. rewrite (lex_escape_acc s H) by (pose proof (need_le_length s); lia). reflexivity.
Qed.

(* ---- decoding what the lexer produced ---- *)
Lemma units_of_text p r k acc :
  units_of (TText p :: r) 1 k false acc = units_of r 1 (k - length p) false (rev_append (drop k p) acc).
Proof. reflexivity. Qed.

Lemma drop_all {A} k (p : list A) : (length p <= k)%nat -> drop k p = [].
Proof. revert p; induction k as [|k IH]; intros [|x p] H; cbn in *; try reflexivity; [lia|apply IH; lia]. Qed.

Lemma drop_app_le {A} k (p q : list A) : (k <= length p)%nat -> drop k (p ++ q) = drop k p ++ q.
Proof. revert p; induction k as [|k IH]; intros [|x p] H; cbn in *; try reflexivity; [lia|apply IH; lia]. Qed.

(* pending text p of which the first k characters are fallback characters still to be skipped *)
Lemma units_of_flushf p r k acc :
  (k <= length p)%nat ->
  units_of (flushf p ++ r) 1 k false acc = units_of r 1 0 false (rev_append (drop k p) acc) \/
  (p = [] /\ units_of (flushf p ++ r) 1 k false acc = units_of r 1 k false acc).
Proof.
  intro H. destruct p as [|c p]; [right; split; reflexivity|]. left.
  cbn [flushf app]. rewrite units_of_text. replace (k - length (c :: p))%nat with 0%nat by lia. reflexivity.
Qed.

Lemma units_of_units_toks us : Forall (fun u => u < 65536) us -> us <> [] ->
  forall p k acc rest, (k <= length p)%nat ->
  units_of (fst (units_toks us p) ++ rest) 1 k false acc
  = units_of rest 1 1 false (rev_append us (rev_append (drop k p) acc)) /\ snd (units_toks us p) = [42].
Proof.
  induction 1 as [|u us Hu Hus IH]; intros Hne p k acc rest Hk; [congruence|].
  cbn [units_toks]. destruct (units_toks us [42]) as [ts p'] eqn:E. cbn [fst snd].
  assert (Hstep : units_of ((flushf p ++ uc_tok :: u_tok u :: ts) ++ rest) 1 k false acc
                  = units_of (ts ++ rest) 1 1 false (u :: rev_append (drop k p) acc)).
  { rewrite <- app_assoc. cbn [app].
    destruct (units_of_flushf p (uc_tok :: u_tok u :: ts ++ rest) k acc Hk) as [H1|[Hp H1]]; rewrite H1.
    - unfold uc_tok, u_tok. cbn [units_of].
      change (str_eqb (s2l "uc") (s2l "u")) with false. change (str_eqb (s2l "uc") (s2l "uc")) with true.
      change (str_eqb (s2l "u") (s2l "u")) with true. cbn iota. change (Z.to_nat 1) with 1%nat.
      rewrite signed16_back by exact Hu. reflexivity.
    - subst p. assert (k = 0)%nat by (cbn in Hk; lia). subst k. unfold uc_tok, u_tok. cbn [units_of drop rev_append].
      change (str_eqb (s2l "uc") (s2l "u")) with false. change (str_eqb (s2l "uc") (s2l "uc")) with true.
      change (str_eqb (s2l "u") (s2l "u")) with true. cbn iota. change (Z.to_nat 1) with 1%nat.
      rewrite signed16_back by exact Hu. reflexivity. }
  rewrite Hstep. destruct us as [|u2 us2].
  - cbn in E. inversion E; subst. cbn [app rev_append]. split; reflexivity.
  - destruct (IH ltac:(discriminate) [42] 1%nat (u :: rev_append (drop k p) acc) rest ltac:(cbn; lia)) as [H1 H2].
    rewrite E in H1, H2. cbn [fst snd] in H1, H2. rewrite H1. cbn [drop rev_append]. split; [reflexivity|exact H2].
Qed.

Lemma units_of_lt s : Forall (fun c => c < 1114112) s ->
  forall p k acc, (k <= length p)%nat ->
  units_of (lt s p) 1 k false acc = rev' (rev_append (flat_map units_of_char s) (rev_append (drop k p) acc)).
Proof.
  induction 1 as [|c r Hc _ IH]; intros p k acc Hk.
  - cbn [lt flat_map rev_append]. destruct p as [|x p]; [cbn; assert (k = 0)%nat by (cbn in Hk; lia); subst; reflexivity|].
    cbn [flushf]. rewrite units_of_text. reflexivity.
  - cbn [lt flat_map]. unfold units_of_char at 1. destruct (c <? 128) eqn:E.
    + rewrite IH by (rewrite app_length; cbn; lia). rewrite drop_app_le by exact Hk.
      f_equal. rewrite !rev_append_rev. cbn [app rev]. rewrite rev_app_distr. cbn [rev app]. rewrite <- !app_assoc. reflexivity.
    + assert (Hu : Forall (fun u => u < 65536) (utf16_units c)) by (apply units_range; exact Hc).
      assert (Hne : utf16_units c <> []) by (unfold utf16_units; destruct (65535 <? c); discriminate).
      destruct (units_of_units_toks (utf16_units c) Hu Hne p k acc (lt r [42]) Hk) as [H1 H2].
      destruct (units_toks (utf16_units c) p) as [ts p'] eqn:E2. cbn [fst snd] in H1, H2. subst p'.
      rewrite H1. rewrite IH by (cbn; lia). cbn [drop]. f_equal.
      rewrite !rev_append_rev. rewrite rev_app_distr. rewrite <- !app_assoc. reflexivity.
Qed.

(* C10, character level: reading the escaped text back through the lexer and the decoder gives the text *)
Theorem lex_roundtrip s : Forall scalar s -> clean s -> decode_tokens (lex (escape s)) = s.
Proof.
  intros Hs Hc. rewrite lex_escape by exact Hc. unfold decode_tokens, combine_surrogates.
  rewrite units_of_lt by (try (eapply Forall_impl; [|exact Hs]; intros c [A _]; exact A); cbn; lia).
  cbn [drop rev_append]. unfold rev'. rewrite !rev_append_rev, !app_nil_r, rev_involutive. apply comb_units. exact Hs.
Qed.
