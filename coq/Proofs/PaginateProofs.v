(* K1: the greedy page assignment (_assign_pages). *)
From Coq Require Import List NArith ZArith Bool Arith Lia.
From V Require Import Str Doc Paginate.
Import ListNotations.
Local Open Scope Z_scope.

Lemma assign_loop_length avail np ms first page cur :
  length (assign_loop avail np ms first page cur) = length ms.
Proof.
  revert first page cur; induction ms as [|m ms IH]; intros; cbn [assign_loop length]; [reflexivity|].
  f_equal. apply IH.
Qed.

Theorem assign_length nrow add np ms : length (assign_pages nrow add np ms) = length ms.
Proof. apply assign_loop_length. Qed.

(* appending rows never changes how the earlier rows were paginated *)
Lemma assign_loop_prefix avail np ms extra first page cur :
  firstn (length ms) (assign_loop avail np (ms ++ extra) first page cur)
  = assign_loop avail np ms first page cur.
Proof.
  revert first page cur; induction ms as [|m ms IH]; intros; cbn [app assign_loop length firstn]; [reflexivity|].
  f_equal. apply IH.
Qed.

Theorem assign_prefix nrow add np ms extra :
  firstn (length ms) (assign_pages nrow add np (ms ++ extra)) = assign_pages nrow add np ms.
Proof. apply assign_loop_prefix. Qed.

(* page numbers move in steps of 0 or 1, starting from the current page *)
Fixpoint steps_from (prev : Z) (l : list Z) : Prop :=
  match l with
  | [] => True
  | p :: r => (p = prev \/ p = prev + 1) /\ steps_from p r
  end.

Lemma assign_loop_steps avail np ms first page cur :
  steps_from page (assign_loop avail np ms first page cur).
Proof.
  revert first page cur; induction ms as [|m ms IH]; intros; cbn [assign_loop steps_from]; [exact I|].
  split; [|apply IH].
  destruct ((_ || _) && _); [right|left]; reflexivity.
Qed.

Theorem assign_steps nrow add np ms : steps_from 1 (assign_pages nrow add np ms).
Proof. apply assign_loop_steps. Qed.

Theorem assign_first nrow add np m ms :
  hd 0 (assign_pages nrow add np (m :: ms)) = 1.
Proof.
  unfold assign_pages. cbn [assign_loop hd].
  replace (0 <? 0) with false by reflexivity. rewrite andb_false_r. reflexivity.
Qed.

(* the model's assignment satisfies the C04 predicate: breaks only when forced or needed, always when forced or needed *)
Lemma assign_loop_check avail np ms page cur :
  check_assign_from avail np ms (assign_loop avail np ms false page cur) page cur = true.
Proof.
  revert page cur; induction ms as [|m ms IH]; intros; cbn [assign_loop check_assign_from]; [reflexivity|].
  cbn [negb]. rewrite !andb_true_r.
  set (force := rm_ss m || np && rm_gs m).
  set (over := avail <? cur + rm_total m).
  destruct ((force || over) && (0 <? cur)) eqn:E.
  - replace (page + 1 =? page) with false by (symmetry; apply Z.eqb_neq; lia).
    rewrite Z.eqb_refl. apply andb_prop in E as [E1 _]. rewrite E1. cbn [andb]. apply IH.
  - rewrite Z.eqb_refl. cbn [negb andb]. apply IH.
Qed.

Theorem assign_satisfies_check nrow add np ms :
  check_assign (Z.max 1 (nrow - add)) np ms (assign_pages nrow add np ms) = true.
Proof.
  unfold assign_pages, check_assign. destruct ms as [|m ms]; [reflexivity|].
  cbn [assign_loop]. replace (0 <? 0) with false by reflexivity.
  rewrite andb_false_r. cbn [andb]. rewrite Z.eqb_refl. cbn [andb].
  replace (0 + rm_total m) with (rm_total m) by lia.
  apply assign_loop_check.
Qed.

(* a forced row (subline change, or group change under new_page) that is not the first row of the
   data always starts a new page, provided rows occupy at least one line *)
Lemma assign_loop_forced avail np m ms page cur :
  0 < cur -> (rm_ss m || np && rm_gs m) = true ->
  hd 0 (assign_loop avail np (m :: ms) false page cur) = page + 1.
Proof.
  intros Hc Hf. cbn [assign_loop hd negb]. rewrite !andb_true_r.
  rewrite Hf. cbn [orb]. replace (0 <? cur) with true by (symmetry; apply Z.ltb_lt; lia).
  reflexivity.
Qed.

(* the implementation's own accounting never overflows: sum of total_rows on a page <= available rows,
   or the page holds a single row (rows occupy at least one line each) *)
Lemma page_sums_fill avail np ms page cur count :
  Forall (fun m => 1 <= rm_total m) ms ->
  1 <= cur -> (cur <= avail \/ count = 1%nat) ->
  all_b (fun sc => (fst sc <=? avail) || Nat.eqb (snd sc) 1)
        (page_sums ms (assign_loop avail np ms false page cur) page cur count) = true.
Proof.
  intros Hm. revert page cur count; induction Hm as [|m ms Hm1 Hms IH]; intros page cur count Hpos Hc;
    cbn [assign_loop page_sums all_b fst snd].
  - rewrite andb_true_r. destruct Hc as [Hc | ->].
    + replace (cur <=? avail) with true by (symmetry; apply Z.leb_le; lia). reflexivity.
    + rewrite orb_true_r. reflexivity.
  - cbn [negb]. rewrite !andb_true_r.
    replace (0 <? cur) with true by (symmetry; apply Z.ltb_lt; lia). rewrite andb_true_r.
    destruct (rm_ss m || np && rm_gs m || (avail <? cur + rm_total m)) eqn:E.
    + replace (page + 1 =? page) with false by (symmetry; apply Z.eqb_neq; lia).
      cbn [all_b fst snd].
      replace ((cur <=? avail) || Nat.eqb count 1) with true.
      * cbn [andb]. replace (0 + rm_total m) with (rm_total m) by lia.
        apply IH; [exact Hm1|right; reflexivity].
      * symmetry. destruct Hc as [Hc | ->]; [|apply orb_true_r].
        replace (cur <=? avail) with true by (symmetry; apply Z.leb_le; lia). reflexivity.
    + rewrite Z.eqb_refl. apply orb_false_iff in E as [_ E]. apply Z.ltb_ge in E.
      apply IH; [lia|left; lia].
Qed.

Theorem assign_fill nrow add np ms :
  Forall (fun m => 1 <= rm_total m) ms ->
  check_fill (Z.max 1 (nrow - add)) ms (assign_pages nrow add np ms) = true.
Proof.
  intro Hm. unfold check_fill, assign_pages. destruct ms as [|m ms]; [reflexivity|].
  cbn [assign_loop]. replace (0 <? 0) with false by reflexivity. rewrite andb_false_r.
  inversion Hm as [|? ? H1 H2]; subst.
  replace (0 + rm_total m) with (rm_total m) by lia.
  apply page_sums_fill; [exact H2|exact H1|right; reflexivity].
Qed.

(* check_assign is a complete specification: when every row occupies at least one line, the only page list it accepts
   is the greedy loop's *)
Lemma check_assign_from_unique avail np ms : forall pages page cur,
  0 < cur -> Forall (fun m => 0 < rm_total m) ms ->
  check_assign_from avail np ms pages page cur = true ->
  pages = assign_loop avail np ms false page cur.
Proof.
  induction ms as [|m ms IH]; intros pages page cur Hc Hpos H; destruct pages as [|p ps]; cbn [check_assign_from] in H;
    try discriminate; [reflexivity|].
  inversion Hpos as [|? ? Hm Hms]; subst. cbn [assign_loop negb]. rewrite !andb_true_r.
  set (force := rm_ss m || np && rm_gs m) in *.
  set (over := avail <? cur + rm_total m) in *.
  assert (Hcur : (0 <? cur) = true) by (apply Z.ltb_lt; exact Hc). rewrite Hcur in *. rewrite andb_true_r in *.
  destruct (p =? page) eqn:Ep.
  - apply Z.eqb_eq in Ep; subst p. apply andb_prop in H as [H1 H2]. apply negb_true_iff in H1. rewrite H1.
    f_equal. apply IH; [lia|exact Hms|exact H2].
  - apply andb_prop in H as [H1 H2]. apply andb_prop in H1 as [H0 H1]. apply Z.eqb_eq in H0; subst p. rewrite H1.
    f_equal. replace (0 + rm_total m) with (rm_total m) by lia. apply IH; [exact Hm|exact Hms|exact H2].
Qed.

Theorem check_assign_unique nrow add np ms pages :
  Forall (fun m => 0 < rm_total m) ms ->
  check_assign (Z.max 1 (nrow - add)) np ms pages = true ->
  pages = assign_pages nrow add np ms.
Proof.
  intros Hpos H. unfold check_assign in H. unfold assign_pages.
  destruct ms as [|m ms]; destruct pages as [|p ps]; try discriminate; [reflexivity|].
  inversion Hpos as [|? ? Hm Hms]; subst.
  apply andb_prop in H as [H0 H]. apply Z.eqb_eq in H0; subst p.
  cbn [assign_loop]. replace (0 <? 0) with false by reflexivity. rewrite andb_false_r. f_equal.
  replace (0 + rm_total m) with (rm_total m) by lia.
  apply check_assign_from_unique; assumption.
Qed.
