(* C05: the loop invariant of the heading logic - the carried state agrees with the row being rendered on every
   non-divider page_by level, at every row of the page. *)
From Coq Require Import Ascii String.
From Coq Require Import List NArith ZArith QArith Bool Arith Lia.
From V Require Import Str Num Doc Paginate Pipeline.
From V Require Import GroupByProofs HeadingProofs.
Import ListNotations.
Local Open Scope list_scope.
Local Open Scope nat_scope.

(* the heading state in force at page-relative row j: the boundaries up to and including j have been applied *)
Fixpoint state_at (keys : list str) (bounds : list (nat * list (str * val))) (last : list (str * val)) (j : nat)
  : list (str * val) :=
  match bounds with
  | [] => last
  | (rel, gv) :: r => if Nat.leb rel j then state_at keys r (refresh_vals keys last gv) j else last
  end.

Definition agrees (cols keys : list str) (last : list (str * val)) (row : list val) : Prop :=
  forall k, In k keys -> str_eqb (py_str (col_val cols row k)) divider = false -> lookup_val k last = Some (col_val cols row k).

(* ---- assoc after one update step ---- *)
Lemma assoc_map_replace k v k2 (l : list (str * val)) :
  assoc k2 (map (fun kv => if str_eqb (fst kv) k then (k, v) else kv) l)
  = if str_eqb k2 k then (if existsb (fun kv => str_eqb (fst kv) k) l then Some v else None) else assoc k2 l.
Proof.
  induction l as [|[a b] l IH]; cbn [map assoc existsb fst]; [destruct (str_eqb k2 k); reflexivity|].
  destruct (str_eqb a k) eqn:Ea.
  - apply str_eqb_eq in Ea; subst a. cbn [assoc fst]. destruct (str_eqb k2 k) eqn:E2; [reflexivity|exact IH].
  - cbn [assoc orb]. destruct (str_eqb k2 a) eqn:E3.
    + apply str_eqb_eq in E3; subst a. rewrite Ea. reflexivity.
    + exact IH.
Qed.

Lemma assoc_app_new k v k2 (l : list (str * val)) :
  existsb (fun kv => str_eqb (fst kv) k) l = false ->
  assoc k2 (l ++ [(k, v)]) = if str_eqb k2 k then Some v else assoc k2 l.
Proof.
  induction l as [|[a b] l IH]; cbn [app assoc existsb fst]; intro H; [destruct (str_eqb k2 k); reflexivity|].
  apply orb_false_iff in H as [H1 H2]. destruct (str_eqb k2 a) eqn:E3.
  - apply str_eqb_eq in E3; subst a. rewrite H1. reflexivity.
  - exact (IH H2).
Qed.

Lemma step_lookup k v k2 last :
  lookup_val k2 (if existsb (fun kv => str_eqb (fst kv) k) last
                 then map (fun kv => if str_eqb (fst kv) k then (k, v) else kv) last
                 else last ++ [(k, v)])
  = if str_eqb k2 k then Some v else lookup_val k2 last.
Proof.
  unfold lookup_val. destruct (existsb _ last) eqn:E.
  - rewrite assoc_map_replace, E. reflexivity.
  - apply assoc_app_new. exact E.
Qed.

Lemma find_app' {A} (f : A -> bool) l1 l2 :
  find f (l1 ++ l2) = match find f l1 with Some x => Some x | None => find f l2 end.
Proof. induction l1 as [|x l1 IH]; [reflexivity|]. cbn [app find]. destruct (f x); [reflexivity|exact IH]. Qed.

(* an update with entries that all carry k's value leaves k at that value; other keys are untouched *)
Lemma update_vals_lookup gv : forall last k2,
  lookup_val k2 (update_vals last gv)
  = match find (fun kv => str_eqb k2 (fst kv)) (rev gv) with Some kv => Some (snd kv) | None => lookup_val k2 last end.
Proof.
  induction gv as [|[k v] gv IH]; intros last k2; [reflexivity|].
  cbn [update_vals]. rewrite IH. cbn [rev]. rewrite find_app'.
  destruct (find (fun kv => str_eqb k2 (fst kv)) (rev gv)); [reflexivity|].
  cbn [find fst snd]. rewrite step_lookup. destruct (str_eqb k2 k); reflexivity.
Qed.

Lemma group_values_find cols keys row k2 :
  match find (fun kv => str_eqb k2 (fst kv)) (rev (group_values cols keys row)) with
  | Some kv => snd kv = col_val cols row k2
  | None => ~ In k2 keys \/ str_eqb (py_str (col_val cols row k2)) divider = true
  end.
Proof.
  destruct (find _ _) as [[a b]|] eqn:E.
  - apply find_some in E as [Hin He]. cbn in He. apply str_eqb_eq in He; subst a.
    apply in_rev in Hin. unfold group_values in Hin. apply in_flat_map in Hin as (k & _ & Hk).
    destruct (str_eqb (py_str (col_val cols row k)) divider); [contradiction|]. destruct Hk as [Hk|[]].
    inversion Hk; subst. reflexivity.
  - destruct (in_dec (list_eq_dec N.eq_dec) k2 keys) as [Hin|Hn]; [|left; exact Hn]. right.
    destruct (str_eqb (py_str (col_val cols row k2)) divider) eqn:Ed; [reflexivity|]. exfalso.
    assert (Hg : In (k2, col_val cols row k2) (rev (group_values cols keys row))).
    { apply in_rev. rewrite rev_involutive. unfold group_values. apply in_flat_map. exists k2. split; [exact Hin|].
      rewrite Ed. left. reflexivity. }
    pose proof (find_none _ _ E _ Hg) as X. cbn in X. rewrite str_eqb_refl in X. discriminate.
Qed.

Lemma agrees_after_update cols keys last row : agrees cols keys (update_vals last (group_values cols keys row)) row.
Proof.
  intros k Hk Hd. rewrite update_vals_lookup. pose proof (group_values_find cols keys row k) as G.
  destruct (find _ _) as [kv|]; [rewrite G; reflexivity|]. destruct G as [G|G]; [contradiction|congruence].
Qed.

Lemma val_eqb_eq a b : val_eqb a b = true -> a = b.
Proof.
  destruct a, b; cbn; intro H; try discriminate; try reflexivity;
    try (apply str_eqb_eq in H; subst; reflexivity). apply Z.eqb_eq in H. subst. reflexivity.
Qed.

Lemma agrees_same_keys cols keys last prev cur :
  raw_differs cols keys prev cur = false -> agrees cols keys last prev -> agrees cols keys last cur.
Proof.
  unfold raw_differs. intros Hr Ha k Hk Hd.
  assert (E : col_val cols prev k = col_val cols cur k).
  { clear -Hr Hk. induction keys as [|x keys IH]; [contradiction|]. cbn [any_b] in Hr. apply orb_false_iff in Hr as [H1 H2].
    destruct Hk as [->|Hk]; [apply val_eqb_eq; apply negb_false_iff; exact H1|apply IH; assumption]. }
  rewrite <- E in *. apply Ha; assumption.
Qed.

Lemma state_at_later keys bounds last j : Forall (fun b => j < fst b) bounds -> state_at keys bounds last j = last.
Proof.
  destruct bounds as [|[rel gv] r]; [reflexivity|]. intro H. inversion H; subst. cbn [state_at fst] in *.
  replace (Nat.leb rel j) with false by (symmetry; apply Nat.leb_gt; assumption). reflexivity.
Qed.

(* the invariant, for every row after a given previous row *)
Theorem state_invariant cols keys rows : forall prev last rel j row,
  agrees cols keys last prev -> nth_error rows j = Some row ->
  agrees cols keys (state_at keys (boundaries_from cols keys prev rows rel) last (rel + j)) row.
Proof.
  induction rows as [|r rest IH]; intros prev last rel j row Ha Hn; [destruct j; discriminate|].
  cbn [boundaries_from].
  assert (Hlater : forall l, state_at keys (boundaries_from cols keys r rest (S rel)) l rel = l).
  { intro l. apply state_at_later. eapply Forall_impl; [|apply boundaries_from_range]. intros b Hb. cbn in Hb. lia. }
  destruct j as [|j'].
  - cbn in Hn. inversion Hn; subst row. rewrite Nat.add_0_r.
    destruct (raw_differs cols keys prev r) eqn:Ed; cbn [app state_at].
    + rewrite Nat.leb_refl, Hlater. unfold refresh_vals. apply agrees_after_update.
    + rewrite Hlater. eapply agrees_same_keys; eassumption.
  - cbn in Hn. replace (rel + S j') with (S rel + j') by lia.
    destruct (raw_differs cols keys prev r) eqn:Ed; cbn [app state_at].
    + replace (Nat.leb rel (S rel + j')) with true by (symmetry; apply Nat.leb_le; lia).
      apply IH; [unfold refresh_vals; apply agrees_after_update|exact Hn].
    + apply IH; [eapply agrees_same_keys; eassumption|exact Hn].
Qed.

(* for a page: the state starts as the group values of its first row (pc_pbinfo) *)
Lemma agrees_initial cols keys row : agrees cols keys (group_values cols keys row) row.
Proof.
  pose proof (agrees_after_update cols keys [] row) as H. intros k Hk Hd. specialize (H k Hk Hd).
  rewrite update_vals_lookup in H. unfold lookup_val. pose proof (group_values_find cols keys row k) as G.
  destruct (find _ _) as [[a b]|] eqn:E; [|destruct G as [G|G]; [contradiction|congruence]].
  (* the first entry for k in group_values carries the same value *)
  clear H. unfold group_values. clear E G. induction keys as [|x keys IH]; [contradiction|].
  cbn [flat_map]. destruct (str_eqb x k) eqn:Ex.
  - apply str_eqb_eq in Ex; subst x. rewrite Hd. cbn [app assoc]. rewrite str_eqb_refl. reflexivity.
  - destruct Hk as [->|Hk]; [rewrite str_eqb_refl in Ex; discriminate|].
    destruct (str_eqb (py_str (col_val cols row x)) divider); cbn [app assoc]; [apply IH; exact Hk|].
    replace (str_eqb k x) with false by (symmetry; destruct (str_eqb k x) eqn:E2; [apply str_eqb_eq in E2; subst; rewrite str_eqb_refl in Ex; discriminate|reflexivity]).
    apply IH; exact Hk.
Qed.

Theorem page_state_invariant f keys start len j row :
  nth_error (firstn len (skipn start (f_rows f))) j = Some row ->
  match firstn len (skipn start (f_rows f)) with
  | r0 :: _ => agrees (f_cols f) keys (state_at keys (boundaries f keys start len) (group_values (f_cols f) keys r0) j) row
  | [] => True
  end.
Proof.
  unfold boundaries. destruct (firstn len (skipn start (f_rows f))) as [|r0 rest] eqn:E; [exact (fun _ => I)|].
  intro Hn. destruct j as [|j'].
  - cbn in Hn. inversion Hn; subst row.
    rewrite state_at_later; [apply agrees_initial|].
    eapply Forall_impl; [|apply boundaries_from_range]. intros b Hb. cbn in Hb. lia.
  - cbn in Hn. change (S j') with (1 + j'). apply state_invariant; [apply agrees_initial|exact Hn].
Qed.
