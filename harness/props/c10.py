"""C10: every Unicode character reaches the reader intact (bytes of the file written by write_rtf)."""
import contextlib
import io
import os
import random

import rt

from . import common

TRUSTED = ["byte-level reader: Rtf/Bytes.v (cp1252 for bytes >= 0x80 under \\ansi), Rtf/Tok.v, Rtf/Decode.v (\\uN with \\ucN skipping, \\'hh, surrogate recombination)"]
ASSUMPTIONS = ["text free of C0/C1 controls and of raw \\ { }; with conversion on, free of conversion triggers (^ _ >= <= newline, backslash commands)"]

BLOCKS = [(0x20, 0x7E), (0xA0, 0xFF), (0x100, 0x24F), (0x370, 0x3FF), (0x400, 0x4FF), (0x2000, 0x206F), (0x2190, 0x22FF),
          (0x3040, 0x30FF), (0x4E00, 0x4FFF), (0x7FF0, 0x8010), (0xD7F0, 0xD7FF), (0xE000, 0xE010), (0xFFF0, 0xFFFD),
          (0x10000, 0x1000F), (0x1F600, 0x1F64F), (0x10FFF0, 0x10FFFF)]
BAD = set("\\{}")


def scalar_ok(c: int, convert: bool) -> bool:
    if c < 0x20 or 0x7F <= c <= 0x9F or 0xD800 <= c <= 0xDFFF or c > 0x10FFFF:
        return False
    ch = chr(c)
    if ch in BAD:
        return False
    if convert and ch in "^_":
        return False
    return True


def rand_string(r, convert, n=None):
    n = r.choice([1, 1, 2, 3, 5, 8]) if n is None else n
    out = []
    while len(out) < n:
        lo, hi = r.choice(BLOCKS)
        c = r.randint(lo, hi)
        if scalar_ok(c, convert):
            out.append(chr(c))
    s = "".join(out)
    if convert:
        s = s.replace(">=", "> =").replace("<=", "< =")
    return s


def probe_spec(r, s_on, s_off):
    """One probe string in every text-bearing position; s_on where conversion is on, s_off where off."""
    conv_body = r.random() < 0.5
    sb = s_on if conv_body else s_off
    rows = [[f"#0#{sb}", f"@{sb}", f"@@{sb}", sb], [f"#1#{sb}", f"@{sb}", f"@@{sb}", "x"]]
    body = {"page_by": ["g0"], "subline_by": ["s0"], "text_convert": conv_body}
    spec = {
        "df": {"cols": ["id", "g0", "s0", "c0"], "rows": rows},
        "body": body,
        "page": {"nrow": 20},
        "title": {"text": ["T" + s_on, "T2" + s_on]},
        "subline": {"text": "S" + s_off},
        "headers": [{"text": ["H" + s_on, "HH" + s_on]}],
        "footnote": {"text": ["F" + s_on, "F2" + s_on], "as_table": r.random() < 0.5},
        "source": {"text": "R" + s_on, "as_table": r.random() < 0.5},
        "page_header": {"text": "P" + s_off},
        "page_footer": {"text": "Q" + s_off},
        "kind": "single", "strategy": "probe",
    }
    expected = ["T" + s_on, "T2" + s_on, "S" + s_off, "H" + s_on, "HH" + s_on, "R" + s_on, "P" + s_off, "Q" + s_off,
                "@" + sb, "@@" + sb, f"#0#{sb}", sb]
    if spec["footnote"]["as_table"] or True:
        # footnote lines are joined with \line inside one run: the reader sees both lines in one run text
        expected.append("F" + s_on + "F2" + s_on)
    spec["_expected"] = expected
    return spec


def sweep_spec(chars, convert):
    """Many characters per document: as single characters and at string boundaries."""
    rows = []
    for i, c in enumerate(chars):
        rows.append([f"#{i}#{c}", c, "a" + c + "b"])
    return {"df": {"cols": ["id", "c0", "c1"], "rows": rows},
            "body": {"text_convert": convert}, "page": {"nrow": 45}, "title": None, "headers": [],
            "kind": "single", "strategy": "sweep", "_expected": []}


def impl_fn(spec, doc):
    path = os.path.join(rt.scratch_dir(), f"c10_{next(rt._COUNTER)}.rtf")
    try:
        with contextlib.redirect_stdout(io.StringIO()):
            doc.write_rtf(path)
        data = open(path, "rb").read()
        os.unlink(path)
        return True, None, "(1 [" + " ".join(str(b) for b in data) + "])"
    except Exception as e:  # noqa: BLE001
        return False, rt.exc_class(e), rt.sx_impl(False, rt.exc_class(e))


def extra_fn(spec, doc, ok, out):
    return rt.sx_list(rt.sx_str(s) for s in spec.get("_expected", []))


def build_strip(spec):
    return {k: v for k, v in spec.items() if not k.startswith("_")}


_orig_build = rt.build


def _build(spec):
    return _orig_build(build_strip(spec))


rt.build = _build


# characters and sequences that Unicode normalisation / case or width folding would rewrite: they must reach the reader as given
SENSITIVE = ["\u212b", "\u2126", "\u212a", "\u037e", "\u0387", "\u1f71", "\u0340", "\u0344", "\uf900", "\ufa10", "\U0002f800",
             "e\u0301", "A\u030a", "o\u0308\u0304", "\u1100\u1161", "\u0915\u093c", "\U0001d15e", "\ufb01", "\uff21", "\u00b5",
             "\u017f", "\u1e9b\u0323", "\u03d2\u0301", "\u2160", "\u00a0x", "\u2002y", "\u200d", "\ufeffz",
             # plain ASCII that looks like an escape of some intermediate representation: must come out letter by letter
             "&#945;-blocker", "Crohn&#39;s", "AT&T &#8805; 5", "&amp;#38;", "&#x3b1;", "%CE%B1 100%", "=CE=B1", "U+03B1 u8805*",
             "&lt;b&gt;", "$alpha$ #1", "~ -- --- `` ''"]


def generate(g, i):
    r = g.r
    if i < len(SENSITIVE):
        t = SENSITIVE[i]
        return probe_spec(r, t + "q", "q" + t)
    if r.random() < 0.75:
        return probe_spec(r, rand_string(r, True), rand_string(r, False))
    chars = []
    conv = r.random() < 0.5
    while len(chars) < 40:
        lo, hi = r.choice(BLOCKS)
        c = r.randint(lo, hi)
        if scalar_ok(c, conv):
            chars.append(chr(c))
    return sweep_spec(chars, conv)


def exhaustive_docs(per_doc=1000):
    cur = []
    for c in range(0x20, 0x110000):
        if scalar_ok(c, False):
            cur.append(chr(c))
            if len(cur) == per_doc:
                yield cur
                cur = []
    if cur:
        yield cur


def run(ctx):
    res = common.run_docprop(ctx, "c10", generate, None, extra_fn=extra_fn, impl_fn=impl_fn,
                             n_quick=120, n_thorough=600, shrink_steps=0)
    if ctx.get("replay") or ctx["tier"] != "thorough":
        res["coverage"]["exhaustive"] = False
        return res
    # exhaustive sweep over all Unicode scalar values (conversion off), sharded over processes
    import multiprocessing as mp
    docs = list(exhaustive_docs())
    # spawn, not fork: the parent has already run polars (threads), a forked child can deadlock
    with mp.get_context("spawn").Pool(14) as pool:
        outs = pool.map(_sweep_worker, [(i, d) for i, d in enumerate(docs)], chunksize=4)
    stats = {}
    for cls, rec in outs:
        stats[cls] = stats.get(cls, 0) + 1
        if cls != "ok" and len(res["failures"]) < 3:
            res["failures"].append({"kind": "holds" if cls == "holds" else "corr", "name": "sweep", "spec": rec["spec"] if len(str(rec["spec"])) < 20000 else "sweep doc too large; first chars: " + repr(rec["spec"]["df"]["rows"][0]),
                                    "result": rec["result"], "what": "exhaustive code-point sweep: a character is not read back intact", "signature": None})
    res["coverage"]["exhaustive_sweep"] = {"code_points": sum(len(d) for d in docs), "documents": len(docs), "outcomes": stats,
                                           "space": "every Unicode scalar value except C0/C1 controls, surrogates and \\ { }, each as c (alone and after a tag) and a·c·b in body cells"}
    res["coverage"]["exhaustive"] = True
    res["coverage"]["evaluations"] += len(docs)
    return res


def _sweep_worker(args):
    i, chars = args
    spec = sweep_spec(chars, False)
    rec = common.evaluate("c10", [(f"sweep{i}", spec)], extra_fn, shards=1, impl_fn=impl_fn)[0]
    cls = common.classify(rec)
    return cls, ({"spec": None, "result": rec["result"]} if cls == "ok" else {"spec": spec, "result": rec["result"]})
