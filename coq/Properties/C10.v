(* C10 — every Unicode character reaches the reader intact.
   Model: TextConv.escape (the per-character loop of TextContent._convert_special_chars, after the
   repair: everything above 7-bit ASCII becomes \uc1\uN* per UTF-16 code unit), the byte-level reader
   Rtf/Bytes.v + Rtf/Tok.v + Rtf/Decode.v.
     C10_roundtrip    for EVERY string of Unicode scalar values (unbounded): the reader decodes the
                      escaper's token stream back to the string (UTF-16 unit arithmetic by lia,
                      surrogate pairs recombined, one fallback character skipped per \u);
     C10_range        every \u parameter is within [-32768, 32767] and followed by exactly one
                      fallback character (the unicode_ok clause of wf_rtf);
     C10_units        the UTF-16 unit facts, for every code point;
     C10_lexer        the lexer turns the escaper's text for every one of the 65536 units, between
                      two neighbouring characters, into exactly the tokens of C10_roundtrip's stream
                      (finite: all units, by computation — the bound is in the statement).
     C10_chars        the CHARACTER-level statement (Proofs/LexProofs.v): for EVERY string s of Unicode scalar
                      values whose 7-bit characters are not \ { } CR LF, decode_tokens (lex (escape s)) = s -
                      the escaper's text, read back through the lexer and the decoder, is the string; and
                      lex (escape s) is exactly the token list lt s [] (the lexer's compositionality: one step
                      per plain character, three per escaped unit, the decimal parameter of all 65536 units
                      parsed back by computation);
     C10_text_tokens  hence a run body with conversion off decodes to its text.
   The implementation side is exercised by the strict token correspondence and the exhaustive 1.1M code-point
   sweep of the thorough tier. *)
From Coq Require Import List NArith ZArith Bool Arith Lia.
From V Require Import Str Tok Decode WellFormed TextConv EscapeProofs LexProofs.
Import ListNotations.
Local Open Scope N_scope.

Theorem C10_roundtrip : forall s, Forall scalar s -> decode_tokens (escape_tokens s) = s.
Proof. exact token_roundtrip. Qed.
Print Assumptions C10_roundtrip.

Theorem C10_range : forall s, Forall (fun c => c < 1114112) s -> unicode_ok 1 (escape_tokens s) = true.
Proof. exact escape_tokens_unicode_ok. Qed.
Print Assumptions C10_range.

Theorem C10_units : forall c, c < 1114112 ->
  Forall (fun u => u < 65536 /\ (-32768 <= signed16 u <= 32767)%Z /\ Z.to_N (Z.modulo (signed16 u) 65536) = u)
         (utf16_units c).
Proof.
  intros c H. pose proof (units_range c H) as Hu.
  eapply Forall_impl; [|exact Hu]. intros u Hlt.
  split; [exact Hlt|]. split; [apply signed16_range; exact Hlt|apply signed16_back; exact Hlt].
Qed.

Theorem C10_lexer : forall u, u < 65536 -> unit_lex_ok u = true.
Proof. exact unit_lex. Qed.

Theorem C10_chars : forall s, Forall scalar s -> clean s ->
  decode_tokens (lex (escape s)) = s /\ lex (escape s) = lt s [].
Proof. intros s H1 H2. split; [apply lex_roundtrip; assumption|apply lex_escape; assumption]. Qed.
Print Assumptions C10_chars.

Theorem C10_text_tokens : forall s, Forall scalar s -> clean s -> decode_tokens (text_tokens false s) = s.
Proof. intros s H1 H2. exact (lex_roundtrip s H1 H2). Qed.

(* non-vacuity: a string with Latin-1, a BMP and an astral character between plain text *)
Example C10_chars_example :
  let s := [97; 233; 32; 8364; 98; 128512; 99] in
  decode_tokens (lex (escape s)) = s /\ length (lex (escape s)) = 13%nat.
Proof. vm_compute. split; reflexivity. Qed.
Print Assumptions C10_lexer.

(* non-vacuity: a string mixing ASCII, Latin-1, BMP and astral characters *)
Example C10_example :
  let s := [65; 233; 8805; 128512; 66] in
  Forall scalar s /\ decode_tokens (lex (escape s)) = s /\ all_b (fun b => b <? 128) (escape s) = true.
Proof.
  cbv zeta. split; [|split; vm_compute; reflexivity].
  repeat constructor; unfold scalar; lia.
Qed.
