#!/venv/bin/python
"""Apply every behaviour-preserving refactor in /verif/seeded/harmless_* to /repo in turn and run ALL quick checks:
none may alarm. Usage: harness/harmless_matrix.py [id ...]"""
import json
import os
import subprocess
import sys

VERIF = os.path.dirname(os.path.dirname(os.path.abspath(__file__)))
SEEDED = os.path.join(VERIF, "seeded")
PROPS = os.environ.get("HARMLESS_PROPS", "").split() or [f"C{i:02d}" for i in range(1, 21)]


def sh(cmd, **kw):
    return subprocess.run(cmd, stdout=subprocess.PIPE, stderr=subprocess.STDOUT, text=True, **kw)


def main():
    if sh(["git", "-C", "/repo", "status", "--porcelain", "--untracked-files=no"]).stdout.strip():
        print("refusing: /repo has uncommitted changes")
        return 2
    ids = sys.argv[1:] or sorted(d for d in os.listdir(SEEDED) if d.startswith("harmless_"))
    for sid in ids:
        d = os.path.join(SEEDED, sid)
        if sh(["git", "-C", "/repo", "apply", os.path.join(d, "patch.diff")]).returncode != 0:
            print(sid, "patch does not apply")
            continue
        alarms = {}
        try:
            t = sh(["/venv/bin/python", "-m", "pytest", "-q", "-p", "no:cacheprovider", "--timeout=900"], cwd="/repo").stdout.strip().split("\n")[-1]
            for p in PROPS:
                r = sh([os.path.join(VERIF, "check"), p, "quick"], cwd=VERIF)
                v = [l for l in r.stdout.split("\n") if l.startswith("VIOLATION")]
                if r.returncode != 0 or v:
                    alarms[p] = v[:3] or [f"exit {r.returncode}"]
                    # keep the replay for diagnosis
                    for l in v[:1]:
                        src = l.split("replay=")[1].split()[0]
                        try:
                            os.makedirs(os.path.join(VERIF, "work", "harmless"), exist_ok=True)
                            sh(["cp", src, os.path.join(VERIF, "work", "harmless", f"{sid}_{p}.json")])
                        except Exception:  # noqa: BLE001
                            pass
        finally:
            sh(["git", "-C", "/repo", "checkout", "--", "."])
        meta = {"id": sid, "kind": "behaviour-preserving refactor written by a sub-agent", "tests_with_change": t,
                "checks_run": PROPS, "alarms": alarms}
        json.dump(meta, open(os.path.join(d, "meta.json"), "w"), indent=1)
        print(sid, t, "ALARMS:" if alarms else "no alarms", json.dumps(alarms)[:600], flush=True)
    return 0


if __name__ == "__main__":
    sys.exit(main())
