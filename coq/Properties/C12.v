(* C12 — colour and font references resolve to what the user asked for.
     C12_resolves   (UNBOUNDED over palettes) for every palette `used` of valid names and every
                    non-default colour c in it, the index the encoder writes, color_index (Some used) c,
                    is k+1 with entry k of the document's dense table being the master-table entry of c
                    itself — so the RGB the reader finds at that index is the RGB of the named colour;
     C12_default    index 0 exactly for the default colour ("" / black);
     C12_table      the reader reads the emitted \colortbl back as the RGB list of that dense table, and
                    a table is emitted iff a non-default colour is used;
     C12_collected  every entry of an attribute matrix an element can be given is in concat of that
                    matrix (hence in the collected palette);
     C12_master     finite facts on the regenerated colour table: names unique, master indices dense
                    1..n, every \redN\greenN\blueN; string equal to the table's r,g,b;
     C12_fonts      finite: each font number 1..10 has its entry \f(N-1) with the mapped name; the
                    number<->name maps agree.
     C12_document   (Proofs/ColorWalk.v) at document level, for EVERY document (single-, multi-section, figure): every
                    colour index the encoder writes - text, background, all four cell borders - in every row and
                    paragraph of every page is color_index (Some (collect_colors d)) c for a non-empty colour name c
                    that collect_colors d contains; i.e. the palette in force is complete for everything the
                    pipeline looks up (column slicing, per-page re-basing and the border post-processing only ever
                    select entries of the user's matrices);
     C12_document_resolves   hence (with C12_resolves) each such index points at the master-table entry of the
                    requested colour inside the document's own dense table.
   The context in force on every encoding path is collect_colors d (Document.encode); that this is what
   the CODE does on the multi-section and figure paths is checked by correspondence and by check_c12,
   which resolves every index of the parsed output through the output's own table. *)
From Coq Require Import Ascii String.
From Coq Require Import List NArith ZArith Bool Arith.
From V Require Import Str Tok Tables Items Read Doc Broadcast Encode Pipeline Document Checks ColorProofs ColorWalk.
Import ListNotations.
Local Open Scope string_scope.
Local Open Scope list_scope.

Theorem C12_resolves : forall used c,
  all_valid used = true -> significant c = true -> mem_str c used = true ->
  forall m, master_index c = Some m ->
  exists k e, color_index (Some used) c = Z.of_nat (S k)
              /\ nth_error (sorted_palette used) k = Some (c, e)
              /\ In (c, e) color_table.
Proof. exact color_index_resolves. Qed.
Print Assumptions C12_resolves.

Theorem C12_document : forall d pages,
  document_pages (Some (collect_colors d)) d = Ok pages ->
  Forall (item_c (Some (collect_colors d)) (fun c => In c (collect_colors d))) (concat pages).
Proof. exact document_indices. Qed.
Print Assumptions C12_document.

Theorem C12_document_resolves : forall d o,
  all_valid (collect_colors d) = true ->
  idx_from (Some (collect_colors d)) (fun c => In c (collect_colors d)) o ->
  forall z, o = Some z ->
  exists c, In c (collect_colors d) /\ z = color_index (Some (collect_colors d)) c /\
    (significant c = true -> forall m, master_index c = Some m ->
       exists k e, z = Z.of_nat (S k) /\ nth_error (sorted_palette (collect_colors d)) k = Some (c, e) /\ In (c, e) color_table).
Proof. exact index_resolves. Qed.
Print Assumptions C12_document_resolves.

Theorem C12_default : forall ctx c, significant c = false -> color_index ctx c = 0%Z.
Proof. exact color_index_default. Qed.

Theorem C12_table_read : forall l,
  parse_colors (flat_map (fun e => let '(_, (_, (r, g, b))) := e in
                                   [ctrlz "red" r; ctrlz "green" g; ctrlz "blue" b; TText [59%N]]) l)
  = Some (map rgb_of l).
Proof. exact parse_colors_emit. Qed.

Theorem C12_table_present : forall used, color_table_tokens used = [] <-> filter significant used = [].
Proof. exact color_table_present. Qed.

Theorem C12_collected : forall (A : Type) (v : list (list A)) r c x, iloc v r c = Some x -> In x (concat v).
Proof. exact @iloc_in_concat. Qed.

Theorem C12_master :
  nodup_names (map fst color_table) = true
  /\ map (fun e => fst (snd e)) color_table = map Z.of_nat (seq 1 (length color_table))
  /\ all_b code_matches color_table = true.
Proof. exact (conj color_names_unique (conj color_indices_dense color_codes_match)). Qed.
Print Assumptions C12_master.

Theorem C12_fonts :
  match model_fonts with
  | Some fs => all_b (font_entry_ok fs) [0; 1; 2; 3; 4; 5; 6; 7; 8; 9]%Z
  | None => false
  end = true
  /\ map fst font_number_to_name = [1; 2; 3; 4; 5; 6; 7; 8; 9; 10]%Z.
Proof. exact (conj fonts_resolve (proj2 font_maps_agree)). Qed.

(* non-vacuity: red and blue on a document; blue (master 26) comes before red (master 552) *)
Example C12_example :
  color_index (Some [s2l "red"; s2l "blue"; s2l ""]) (s2l "red") = 2%Z
  /\ color_index (Some [s2l "red"; s2l "blue"]) (s2l "blue") = 1%Z
  /\ color_index (Some [s2l "red"]) (s2l "black") = 0%Z.
Proof. vm_compute. repeat split; reflexivity. Qed.
