(* Component paths: prefix, strip, equality. *)
From Coq Require Import List NArith ZArith Bool Arith Lia.
From V Require Import Str Doc GroupByProofs Export.
Import ListNotations.

Lemma path_eqb_eq p q : path_eqb p q = true <-> p = q.
Proof.
  unfold path_eqb. revert q; induction p as [|a p IH]; intros [|b q]; cbn; split; intro H; try reflexivity; try discriminate.
  - apply andb_prop in H as [H1 H2]. apply str_eqb_eq in H1. apply IH in H2. congruence.
  - inversion H; subst. rewrite str_eqb_refl. apply IH. reflexivity.
Qed.

Lemma path_eqb_refl p : path_eqb p p = true.
Proof. apply path_eqb_eq. reflexivity. Qed.

Lemma path_eqb_neq p q : p <> q -> path_eqb p q = false.
Proof. intro H. destruct (path_eqb p q) eqn:E; [|reflexivity]. apply path_eqb_eq in E. contradiction. Qed.

Lemma path_eqb_false p q : path_eqb p q = false -> p <> q.
Proof. intros H ->. rewrite path_eqb_refl in H. discriminate. Qed.

Lemma is_prefix_spec p q : is_prefix p q = true <-> exists r, q = p ++ r.
Proof.
  revert q; induction p as [|a p IH]; intros q; cbn.
  - split; [intros _; exists q; reflexivity|reflexivity].
  - destruct q as [|b q].
    + split; [discriminate|intros [r H]; discriminate].
    + split.
      * intro H. apply andb_prop in H as [H1 H2]. apply str_eqb_eq in H1. apply IH in H2 as [r ->]. exists r. subst; reflexivity.
      * intros [r H]. inversion H; subst. rewrite str_eqb_refl. apply IH. exists r. reflexivity.
Qed.

Lemma is_prefix_app p r : is_prefix p (p ++ r) = true.
Proof. apply is_prefix_spec. exists r. reflexivity. Qed.

Lemma is_prefix_refl p : is_prefix p p = true.
Proof. apply is_prefix_spec. exists []. rewrite app_nil_r. reflexivity. Qed.

Lemma is_prefix_trans p q r : is_prefix p q = true -> is_prefix q r = true -> is_prefix p r = true.
Proof.
  intros H1 H2. apply is_prefix_spec in H1 as [a ->]. apply is_prefix_spec in H2 as [b ->].
  apply is_prefix_spec. exists (a ++ b). rewrite app_assoc. reflexivity.
Qed.

(* if p is not a prefix of q, it is not a prefix of anything q is a prefix of ... only in the other direction: *)
Lemma is_prefix_false_ext p q r : is_prefix p (q ++ r) = false -> is_prefix p q = false.
Proof.
  intro H. destruct (is_prefix p q) eqn:E; [|reflexivity].
  rewrite (is_prefix_trans p q (q ++ r) E (is_prefix_app q r)) in H. discriminate.
Qed.

Lemma strip_spec p q r : strip p q = Some r <-> q = p ++ r.
Proof.
  revert q; induction p as [|a p IH]; intros q; cbn.
  - split; [intro H; inversion H; reflexivity|intros ->; reflexivity].
  - destruct q as [|b q]; [split; discriminate|].
    destruct (str_eqb a b) eqn:E.
    + apply str_eqb_eq in E; subst b. rewrite IH. split; [intros ->; reflexivity|intro H; inversion H; reflexivity].
    + split; [discriminate|]. intro H. inversion H; subst. rewrite str_eqb_refl in E. discriminate.
Qed.

Lemma strip_app p r : strip p (p ++ r) = Some r.
Proof. apply strip_spec. reflexivity. Qed.

Lemma strip_none p q : strip p q = None <-> is_prefix p q = false.
Proof.
  split; intro H.
  - destruct (is_prefix p q) eqn:E; [|reflexivity]. apply is_prefix_spec in E as [r ->]. rewrite strip_app in H. discriminate.
  - destruct (strip p q) eqn:E; [|reflexivity]. apply strip_spec in E; subst. rewrite is_prefix_app in H. discriminate.
Qed.

Lemma parent_snoc (p : path) x : parent (p ++ [x]) = p.
Proof. unfold parent. apply removelast_last. Qed.

Lemma base_snoc (p : path) x : base (p ++ [x]) = x.
Proof. unfold base. apply last_last. Qed.

Lemma parent_base p : p <> [] -> p = parent p ++ [base p].
Proof. intro H. unfold parent, base. apply app_removelast_last. exact H. Qed.

(* a path below t is different from any path not below t *)
Lemma under_neq t q r : is_prefix t q = false -> path_eqb q (t ++ r) = false.
Proof.
  intro H. apply path_eqb_neq. intros ->. rewrite is_prefix_app in H. discriminate.
Qed.

Lemma under_strip t q rd : is_prefix t q = false -> is_prefix t rd = true -> is_prefix rd q = false.
Proof.
  intros H1 H2. destruct (is_prefix rd q) eqn:E; [|reflexivity].
  rewrite (is_prefix_trans _ _ _ H2 E) in H1. discriminate.
Qed.

Lemma snoc_neq_self (p : path) x : p ++ [x] <> p.
Proof. intro H. apply (f_equal (@length _)) in H. rewrite app_length in H. cbn in H. lia. Qed.

Lemma is_prefix_snoc_self (p : path) x : is_prefix (p ++ [x]) p = false.
Proof.
  destruct (is_prefix (p ++ [x]) p) eqn:E; [|reflexivity].
  apply is_prefix_spec in E as [r H]. apply (f_equal (@length _)) in H. rewrite !app_length in H. cbn in H. lia.
Qed.
