"""C15: concurrent encodes do not interfere (controlled schedules)."""
import collections
import json
import multiprocessing
import random

import hist
import rt
import sched

LEVEL = "proof"
TRUSTED = ["Model/Ctx.v models the colour context (the only state shared between encodes) as a per-thread map; Python-level atomicity of "
           "dict/list operations, state of the string-width measurement and everything outside rtflite (polars, Pillow, pydantic) are outside "
           "the model; measurement state is exercised by the two-font schedules (preemption around every call into the string-width module)",
           "harness/sched.py: baton scheduler preempting at sys.settrace 'call' events inside /repo/src/rtflite; harness/hist.py context recorder"]
ASSUMPTIONS = ["preemption granularity is the function-call boundary inside the library, as the property's quantifier states; "
               "real OS-level interleavings inside one function body are not explored",
               "threads are real threading.Thread objects; only one runs at a time (deterministic replay)"]

DOCS = [2, 3, 4, 5, 7, 0, 15, 17]   # pool documents used by the threads: coloured single x2, multi-section, figure, paginated, plain,
                                    # and the same tight-paged frame measured in Times 10pt and in Courier New 14pt


def model_case(n, task, trace, pals):
    ids = task["docs"]
    sx_pals = rt.sx_list(rt.sx_list(["0", rt.sx_list(rt.sx_str(c) for c in pals[i])]) for i in ids)
    evs = []
    for t, kind, val in trace:
        if kind == "get":
            evs.append(rt.sx_list(["1", rt.sx_list([str(t), str(t)])]))
        elif val == "N":
            evs.append(rt.sx_list(["2", rt.sx_list([str(t), str(t)])]))
        else:
            evs.append(rt.sx_list(["0", rt.sx_list([str(t), str(t)])]))
    return rt.sx_list([rt.sx_str("c15"), rt.sx_str(f"s{n}"), sx_pals, rt.sx_list(evs)])


def run(ctx):
    seed = ctx["seed"]
    r = random.Random(seed * 15 + 1)
    pool = hist.pool(seed)
    failures = []
    stats = collections.Counter()

    def fail(kind, name, what, **kw):
        stats[kind + ":" + name] += 1
        if len([f for f in failures if f["name"] == name]) < 2:
            failures.append(dict(kind=kind, name=name, what=what, signature=None, **kw))

    mp = multiprocessing.get_context("spawn")
    tasks = []
    with mp.Pool(14, initializer=sched.init_worker, initargs=(pool, DOCS)) as ex:
        prof = {p["doc"]: p for p in ex.map(sched.profile, DOCS)}
        for p in prof.values():
            if not p["same_as_untraced"]:
                fail("harness", "tracer", "encoding under the tracer differs from encoding without it", doc=p["doc"])
        if ctx.get("replay"):
            rp = json.load(open(ctx["replay"]))
            if "task" in rp:
                pool = rp.get("pool", pool)
                tasks = [rp["task"]]
        else:
            def points(d, dense):
                n = prof[d]["calls"]
                if dense:
                    return list(range(1, n + 1))
                pts = set()
                for m in prof[d]["marks"]:
                    pts.update(k for k in (m - 1, m, m + 1, m + 2) if 1 <= k <= n)
                pts = set(r.sample(sorted(pts), min(len(pts), 24)))
                pts.update(r.sample(range(1, n + 1), min(n, 16)))
                pts.update([1, n])
                return sorted(pts)

            thorough = ctx["tier"] != "quick"
            pairs = [(2, 3), (3, 4), (5, 2), (7, 3), (4, 5), (0, 2)]
            dense_pairs = {(2, 3), (5, 2), (4, 5)} if thorough else set()
            # (i) exactly one preemption, at every (thorough) / selected (quick) call boundary of either thread
            for a, b in pairs:
                for k in points(a, (a, b) in dense_pairs):
                    tasks.append({"docs": [a, b], "preempts": [[0, k, 1]], "first": 0})
                for k in points(b, (a, b) in dense_pairs):
                    tasks.append({"docs": [a, b], "preempts": [[1, k, 0]], "first": 1})
            # (i') documents measured in different fonts: one preemption around every call into the string-width module
            for a, b, first in ((15, 17, 0), (17, 15, 0)):
                ms = set()
                for m in prof[a]["measure"]:
                    ms.update(k for k in (m, m + 1) if 1 <= k <= prof[a]["calls"])
                ms = sorted(ms)
                if not thorough and len(ms) > 160:
                    ms = sorted(r.sample(ms, 160))
                for k in ms:
                    tasks.append({"docs": [a, b], "preempts": [[0, k, 1]], "first": 0})
            # (ii) two and three preemptions, two and three threads, sampled
            for _ in range(80 if not thorough else 3000):
                nthreads = r.choice([2, 3])
                ids = [r.choice(DOCS[:5]) for _ in range(nthreads)]
                pre = []
                for _p in range(r.choice([2, 3])):
                    t = r.randrange(nthreads)
                    marks = prof[ids[t]]["marks"]
                    k = r.choice(marks) + r.choice([-1, 0, 1]) if marks and r.random() < 0.5 else r.randint(1, prof[ids[t]]["calls"])
                    pre.append([t, max(1, k), r.choice([j for j in range(nthreads) if j != t])])
                tasks.append({"docs": ids, "preempts": pre, "first": r.randrange(nthreads)})
        outs = ex.map(sched.run_schedule, tasks, chunksize=8)
        pals_raw = ex.apply(_palettes, (pool, DOCS))
    cases = []
    kept = []
    npre = collections.Counter()
    for n, out in enumerate(outs):
        if "error" in out:
            fail("harness", "scheduler", out["error"], task=out["task"])
            continue
        stats["schedules"] += 1
        npre[len(out["taken"])] += 1
        if out["differs"]:
            fail("holds", "interference", "a thread's rtf_encode() result under this schedule differs from its result when run alone",
                 task=out["task"], pool=pool, taken=out["taken"], differs=out["differs"], replay_cmd="./check C15 --replay <this file>")
        # the values stored must be the thread's own palette
        for t, kind, val in out["trace"]:
            if kind == "set" and val != "N" and val != hist.ctx_str(pals_raw[out["task"]["docs"][t]]):
                fail("corr", "palette", "corr_C15: a thread stored a palette that is not its document's", task=out["task"], thread=t, stored=val)
                break
        cases.append(model_case(n, out["task"], out["trace"], pals_raw))
        kept.append(out)
    results = rt.run_driver(cases, shards=8)
    for out, res in zip(kept, results, strict=True):
        obs = ";".join(f"{t}:{val}" for t, kind, val in out["trace"] if kind == "get")
        if res.get("obs") != obs:
            mo = (res.get("obs") or "").split(";")
            oo = obs.split(";")
            at = next((j for j, (a, b) in enumerate(zip(mo, oo)) if a != b), min(len(mo), len(oo)))
            fail("corr", "lookups", "corr_C15: what colour look-ups observed differs from the per-thread context of Model/Ctx.v (observe)",
                 task=out["task"], pool=pool, first_difference={"index": at, "model": mo[at:at + 1], "observed": oo[at:at + 1]})
        else:
            stats["traces_ok"] += 1
    coverage = {
        "evaluations": stats["schedules"], "distinct_nontrivial": sum(v for k, v in npre.items() if k > 0),
        "rule": "schedules of 2 and 3 threads encoding pool documents (coloured single-section x2, multi-section, figure, paginated, plain, one frame in two fonts); "
                "for the two-font pair one preemption around every call into the string-width module; "
                "one preemption at every library call boundary (thorough: exhaustive for three pairs, both directions; quick: the boundaries "
                "around every context read/write plus a sample); two and three preemptions sampled; distinct = schedules in which a preemption happened",
        "library_calls_per_encode": {str(d): prof[d]["calls"] for d in DOCS},
        "context_events_per_encode": {str(d): len(prof[d]["marks"]) for d in DOCS},
        "preemptions_taken": {str(k): v for k, v in sorted(npre.items())},
        "outcomes": dict(stats), "traces_validated_against_impl": stats["traces_ok"],
    }
    return {"failures": failures, "coverage": coverage}


def _palettes(pool, ids):
    from rtflite.services.color_service import color_service

    return {i: sorted(color_service.collect_document_colors(rt.build(pool[i])) or []) for i in ids}
