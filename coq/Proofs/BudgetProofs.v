(* C03: the implementation's own accounting is sound for what it counts. *)
From Coq Require Import List ZArith QArith Qround Lia Bool.
From V Require Import Str Num Doc Broadcast Paginate PaginateProofs.
Import ListNotations.
Local Open Scope Z_scope.

(* the budgeted line count of a cell dominates the lines it needs: width/colwidth <= floor(width/colwidth)+1 *)
Lemma qtrunc_floor q : (0 <= Qnum q) -> qtrunc q = Z.div (Qnum q) (Zpos (Qden q)).
Proof. intro H. unfold qtrunc. apply Z.quot_div_nonneg; lia. Qed.

Theorem lines_dominate tw cw :
  (0 <= Qnum (tw / cw)) -> (tw / cw <= inject_Z (lines_needed tw cw))%Q.
Proof.
  intro H. unfold lines_needed. set (q := (tw / cw)%Q) in *.
  assert (Hq : (q <= inject_Z (qtrunc q + 1))%Q).
  { rewrite qtrunc_floor by exact H. destruct q as [n d]. cbn [Qnum Qden] in *.
    unfold Qle, inject_Z. cbn [Qnum Qden].
    pose proof (Z.div_mod n (Zpos d) ltac:(lia)) as D.
    pose proof (Z.mod_pos_bound n (Zpos d) ltac:(lia)) as B. nia. }
  eapply Qle_trans; [exact Hq|].
  unfold Qle, inject_Z. cbn [Qnum Qden]. lia.
Qed.

Lemma lines_needed_ge_1 tw cw : 1 <= lines_needed tw cw.
Proof. unfold lines_needed. lia. Qed.

(* every row occupies at least one budget line *)
Lemma data_lines_ge widths fonts sizes ri removed cw row ci wi acc out :
  data_lines widths fonts sizes ri removed cw row ci wi acc = Ok out -> acc <= out.
Proof.
  revert ci wi acc out; induction row as [|v row IH]; intros ci wi acc out H; cbn [data_lines] in H.
  - inversion H; lia.
  - destruct (existsb (Nat.eqb ci) removed); [exact (IH _ _ _ _ H)|].
    destruct (nth_error cw wi); [|inversion H; lia].
    unfold bind in H.
    destruct (cell_font fonts ri wi); [|discriminate].
    destruct (cell_size sizes ri wi); [|discriminate].
    destruct (width_at widths (display v) a a0); [|discriminate].
    apply IH in H. lia.
Qed.

Lemma header_rows_ge widths text tw out : header_rows widths text tw = Ok out -> 1 <= out.
Proof.
  unfold header_rows, bind. destruct (width_of widths text); [|discriminate]. intro H; inversion H; lia.
Qed.

Theorem metas_total_ge_1 widths fonts sizes ri cols removed cw pb sl rows pbc slc ms :
  metas widths fonts sizes ri cols removed cw pb sl rows pbc slc = Ok ms ->
  Forall (fun m => 1 <= rm_total m) ms.
Proof.
  revert ri pbc slc ms; induction rows as [|row rows IH]; intros ri pbc slc ms H; cbn [metas] in H.
  - inversion H; constructor.
  - unfold bind in H.
    destruct (data_lines widths fonts sizes ri removed cw row 0 0 1) as [dl|] eqn:Ed; [|discriminate].
    match type of H with match ?x with _ => _ end = _ => destruct x as [pbr|] eqn:Ep; [|discriminate] end.
    match type of H with match ?x with _ => _ end = _ => destruct x as [slr|] eqn:Es; [|discriminate] end.
    destruct (metas widths fonts sizes (S ri) cols removed cw pb sl rows (tl pbc) (tl slc)) as [ms'|] eqn:Em; [|discriminate].
    inversion H; subst. constructor; [|eapply IH; exact Em].
    cbn [rm_total]. apply data_lines_ge in Ed.
    assert (0 <= pbr).
    { destruct pb as [keys|]; [|inversion Ep; lia].
      destruct (hd true pbc && negb match keys with [] => true | _ => false end); [|inversion Ep; lia].
      destruct (heading_text cols keys row); [inversion Ep; lia|apply header_rows_ge in Ep; lia]. }
    assert (0 <= slr).
    { destruct sl as [keys|]; [|inversion Es; lia].
      destruct (hd true slc && negb match keys with [] => true | _ => false end); [|inversion Es; lia].
      destruct (heading_text cols keys row); [inversion Es; lia|apply header_rows_ge in Es; lia]. }
    lia.
Qed.

(* what the page budget means in rows of the page: data + budgeted headings + reserved rows <= nrow *)
Theorem page_within_nrow nrow additional page_sum :
  1 <= nrow - additional -> page_sum <= Z.max 1 (nrow - additional) -> page_sum + additional <= nrow.
Proof. lia. Qed.
