(* C17 — assemble_rtf yields one well-formed document with every input in order.
   Model: Assemble.v, a line-based port of assemble_rtf (readlines, last "fcharset" line + 2, drop the final
   "}" line of all but the last file, insert \page).  For ALL lists of files of the shape rtflite writes
   (preamble lines, last font-table line, font-table closing line, body lines, final "}" line; the word
   "fcharset" nowhere after the font table):
     C17_structure   the output is, line by line: the first file without its final line, then for every
                     later file a "\page" line followed by that file's lines after its font table (its
                     colour table, header/footer and page geometry included), and the last file's final
                     "}" — every input's body exactly once, in argument order;
     C17_start       the start index of a later input is just after the line that closes its font table;
     C17_single      a single input is reproduced unchanged (readlines/concat round trip);
     C17_empty       an empty list writes nothing.
   Well-formedness of the assembled token stream and equality of its parsed pages with the concatenation
   of the inputs' parsed pages are evaluated on the implementation's output by the driver (wf_rtf,
   read_assembled), and the model's output must equal the implementation's file character by character;
   the missing-input case (FileNotFoundError before anything is written) is exercised by the harness. *)
From Coq Require Import Ascii String.
From Coq Require Import List NArith ZArith Bool Arith.
From V Require Import Str Assemble AssembleProofs.
Import ListNotations.
Local Open Scope string_scope.
Local Open Scope list_scope.
Local Open Scope nat_scope.

Theorem C17_structure : forall rs first,
  Forall rfile_ok rs -> assemble_parts (map file_lines rs) first = asm_spec rs first.
Proof. exact assemble_structure. Qed.
Print Assumptions C17_structure.

Theorem C17_start : forall r, rfile_ok r -> find_start_index (file_lines r) = length (rf_pre r) + 2.
Proof. exact find_start_ok. Qed.

Theorem C17_single : forall s, assemble [s] = Some s.
Proof. exact assemble_single_identity. Qed.
Print Assumptions C17_single.

Theorem C17_empty : assemble [] = None.
Proof. exact assemble_empty. Qed.

Example C17_example :
  let f k := s2l "{\rtf1" ++ [10%N] ++ s2l "{\f9\fcharset2 Symbol;}" ++ [10%N] ++ s2l "}" ++ [10%N]
             ++ s2l "body" ++ [k] ++ [10%N] ++ s2l "}" in
  assemble [f 49%N; f 50%N]
  = Some (s2l "{\rtf1" ++ [10%N] ++ s2l "{\f9\fcharset2 Symbol;}" ++ [10%N] ++ s2l "}" ++ [10%N]
          ++ s2l "body1" ++ [10%N] ++ s2l "\page" ++ [10%N] ++ s2l "body2" ++ [10%N] ++ s2l "}").
Proof. vm_compute. reflexivity. Qed.
