(* Reader: token stream -> structured document (inverse of emission for the grammar rtflite uses). *)
From Coq Require Import Ascii String.
From Coq Require Import List NArith ZArith Bool Arith.
From V Require Import Str Tok Items.
Import ListNotations.
Local Open Scope string_scope.
Local Open Scope list_scope.

Inductive elem := EGroup (inner : list tok) | ETok (t : tok).

(* tokens after a TOpen -> (inner, rest after the matching TClose) *)
Fixpoint take_group (ts : list tok) (d : nat) (acc : list tok) : option (list tok * list tok) :=
  match ts with
  | [] => None
  | TClose :: r =>
    match d with
    | O => Some (rev' acc, r)
    | S d' => take_group r d' (TClose :: acc)
    end
  | TOpen :: r => take_group r (S d) (TOpen :: acc)
  | t :: r => take_group r d (t :: acc)
  end.

Fixpoint elems_fuel (fuel : nat) (ts : list tok) : option (list elem) :=
  match fuel with
  | O => None
  | S f =>
    match ts with
    | [] => Some []
    | TOpen :: r =>
      match take_group r 0 [] with
      | Some (inner, rest) => option_map (cons (EGroup inner)) (elems_fuel f rest)
      | None => None
      end
    | TClose :: _ => None
    | t :: r => option_map (cons (ETok t)) (elems_fuel f r)
    end
  end.
Definition elems (ts : list tok) : option (list elem) := elems_fuel (S (length ts)) ts.

Definition ctrl_name (t : tok) : option str := match t with TCtrl n _ => Some n | _ => None end.
Definition ctrl_param (t : tok) : option Z := match t with TCtrl _ p => p | _ => None end.
Definition is_c (name : string) (t : tok) : bool := is_ctrl_s name t.

Definition find_param (name : string) (ts : list tok) : option Z :=
  match find (is_c name) ts with Some (TCtrl _ p) => p | _ => None end.

(* ---- run: \fsN { \fN [\cfN] [\chshdng0\chcbpatN\cbN] body } ---- *)
Definition parse_run_group (fs : Z) (inner : list tok) : option run :=
  match inner with
  | TCtrl n (Some f) :: r =>
    if str_eqb n (s2l "f") then
      let '(cf, r1) := match r with
                       | TCtrl m (Some z) :: r' => if str_eqb m (s2l "cf") then (Some z, r') else (None, r)
                       | _ => (None, r)
                       end in
      let '(cb, r2) := match r1 with
                       | TCtrl a (Some 0%Z) :: TCtrl b (Some z1) :: TCtrl c (Some z2) :: r' =>
                         if str_eqb a (s2l "chshdng") && str_eqb b (s2l "chcbpat") && str_eqb c (s2l "cb") && Z.eqb z1 z2
                         then (Some z1, r') else (None, r1)
                       | _ => (None, r1)
                       end in
      Some {| rn_fs := fs; rn_f := f; rn_cf := cf; rn_cb := cb; rn_body := r2 |}
    else None
  | _ => None
  end.

(* ---- paragraph group: \pard pf run (\line run)* \par ---- *)
Fixpoint split_pf (es : list elem) (acc : list tok) : list tok * list elem :=
  match es with
  | ETok (TCtrl n p) :: r =>
    if str_eqb n (s2l "fs") then (rev' acc, es) else split_pf r (TCtrl n p :: acc)
  | _ => (rev' acc, es)
  end.

Fixpoint parse_runs (fuel : nat) (es : list elem) : option (list run * list elem) :=
  match fuel with
  | O => None
  | S f =>
    match es with
    | ETok (TCtrl n (Some fs)) :: EGroup g :: r =>
      if str_eqb n (s2l "fs") then
        match parse_run_group fs g with
        | Some rn =>
          match r with
          | ETok t :: r' =>
            if is_c "line" t then
              match parse_runs f r' with
              | Some (rs, rest) => Some (rn :: rs, rest)
              | None => None
              end
            else Some ([rn], r)
          | _ => Some ([rn], r)
          end
        | None => None
        end
      else None
    | _ => None
    end
  end.

Definition parse_para (inner : list tok) : option item :=
  match elems inner with
  | Some (ETok t :: es) =>
    if is_c "pard" t then
      let '(pf, es1) := split_pf es [] in
      match es1 with
      | [ETok p] => if is_c "par" p then Some (IPara pf []) else None
      | _ =>
        match parse_runs (S (length es1)) es1 with
        | Some (rs, [ETok p]) => if is_c "par" p then Some (IPara pf rs) else None
        | _ => None
        end
      end
    else None
  | _ => None
  end.

Definition is_tiny_par (inner : list tok) : bool :=
  tok_list_eqb inner [ctrl "pard"; ctrlz "fs" 2; ctrl "par"].

(* ---- row ---- *)
Definition is_border_side (t : tok) : bool :=
  is_c "clbrdrl" t || is_c "clbrdrt" t || is_c "clbrdrr" t || is_c "clbrdrb" t.

(* tokens of one border after its side word: style* \brdrwN [\brdrcfN] *)
Fixpoint take_border (ts : list tok) (style : list tok) : option (bord * list tok) :=
  match ts with
  | TCtrl n (Some w) :: r =>
    if str_eqb n (s2l "brdrw") then
      match r with
      | TCtrl m (Some c) :: r' =>
        if str_eqb m (s2l "brdrcf")
        then Some ({| bd_style := rev' style; bd_w := w; bd_cf := Some c |}, r')
        else Some ({| bd_style := rev' style; bd_w := w; bd_cf := None |}, r)
      | _ => Some ({| bd_style := rev' style; bd_w := w; bd_cf := None |}, r)
      end
    else take_border r (TCtrl n (Some w) :: style)
  | TCtrl n None :: r => take_border r (TCtrl n None :: style)
  | _ => None
  end.

Record celldef := { cd_bl : option bord; cd_bt : option bord; cd_br : option bord; cd_bb : option bord;
                    cd_vj : list tok; cd_x : Z }.

Fixpoint parse_celldef (fuel : nat) (ts : list tok) (bl bt br bb : option bord) (vj : list tok)
  : option (celldef * list tok) :=
  match fuel with
  | O => None
  | S f =>
    match ts with
    | TCtrl n p :: r =>
      if str_eqb n (s2l "cellx") then
        match p with
        | Some x => Some ({| cd_bl := bl; cd_bt := bt; cd_br := br; cd_bb := bb; cd_vj := rev' vj; cd_x := x |}, r)
        | None => None
        end
      else if is_border_side (TCtrl n p) then
        match take_border r [] with
        | Some (b, r') =>
          if str_eqb n (s2l "clbrdrl") then parse_celldef f r' (Some b) bt br bb vj
          else if str_eqb n (s2l "clbrdrt") then parse_celldef f r' bl (Some b) br bb vj
          else if str_eqb n (s2l "clbrdrr") then parse_celldef f r' bl bt (Some b) bb vj
          else parse_celldef f r' bl bt br (Some b) vj
        | None => None
        end
      else parse_celldef f r bl bt br bb (TCtrl n p :: vj)
    | _ => None
    end
  end.

Fixpoint parse_celldefs (fuel : nat) (ts : list tok) : option (list celldef * list tok) :=
  match fuel with
  | O => None
  | S f =>
    match ts with
    | TCtrl n p :: _ =>
      if str_eqb n (s2l "pard") then Some ([], ts)
      else
        match parse_celldef (S (length ts)) ts None None None None [] with
        | Some (cd, rest) =>
          match parse_celldefs f rest with
          | Some (cds, rest') => Some (cd :: cds, rest')
          | None => None
          end
        | None => None
        end
    | _ => None
    end
  end.

(* elems of the row after the definitions: (\pard pf \fsN {group} \cell)* \intbl \row \pard *)
Fixpoint parse_contents (fuel : nat) (es : list elem) : option (list (list tok * run) * list elem) :=
  match fuel with
  | O => None
  | S f =>
    match es with
    | ETok t :: r =>
      if is_c "pard" t then
        let '(pf, r1) := split_pf r [] in
        match r1 with
        | ETok (TCtrl n (Some fs)) :: EGroup g :: ETok c :: r2 =>
          if str_eqb n (s2l "fs") && is_c "cell" c then
            match parse_run_group fs g, parse_contents f r2 with
            | Some rn, Some (cs, rest) => Some ((pf, rn) :: cs, rest)
            | _, _ => None
            end
          else None
        | _ => None
        end
      else if is_c "intbl" t then Some ([], es)
      else None
    | _ => None
    end
  end.

Fixpoint leading_toks (es : list elem) (acc : list tok) : list tok * list elem :=
  match es with
  | ETok t :: r => leading_toks r (t :: acc)
  | _ => (rev' acc, es)
  end.

Fixpoint zip_cells (cds : list celldef) (cs : list (list tok * run)) : option (list cell) :=
  match cds, cs with
  | [], [] => Some []
  | cd :: cds', (pf, rn) :: cs' =>
    option_map (cons {| ce_bl := cd_bl cd; ce_bt := cd_bt cd; ce_br := cd_br cd; ce_bb := cd_bb cd;
                        ce_vj := cd_vj cd; ce_x := cd_x cd; ce_pf := pf; ce_run := rn |})
               (zip_cells cds' cs')
  | _, _ => None
  end.

(* es starts right after \trowd *)
Definition parse_row (es : list elem) : option (row * list elem) :=
  match es with
  | ETok (TCtrl g (Some gaph)) :: ETok (TCtrl l (Some 0%Z)) :: r =>
    if str_eqb g (s2l "trgaph") && str_eqb l (s2l "trleft") then
      let '(lead, rest) := leading_toks r [] in
      (* lead = [just] celldefs... \pard pf \fsN ; the first cell's group follows in rest *)
      let '(just, lead1) := match lead with
                            | TCtrl n None :: q =>
                              if str_eqb n (s2l "trql") || str_eqb n (s2l "trqc") || str_eqb n (s2l "trqr")
                              then ([TCtrl n None], q) else ([], lead)
                            | _ => ([], lead)
                            end in
      match parse_celldefs (S (length lead1)) lead1 with
      | Some (cds, after_defs) =>
        let es2 := map ETok after_defs ++ rest in
        match parse_contents (S (length es2)) es2 with
        | Some (cs, ETok a :: ETok b :: ETok c :: rest') =>
          if is_c "intbl" a && is_c "row" b && is_c "pard" c then
            match zip_cells cds cs with
            | Some cells => Some ({| rw_gaph := gaph; rw_just := just; rw_cells := cells |}, rest')
            | None => None
            end
          else None
        | _ => None
        end
      | None => None
      end
    else None
  | _ => None
  end.

(* ---- geometry ---- *)
Fixpoint take_margins (names : list string) (es : list elem) (acc : list Z) : option (list Z * list elem) :=
  match names with
  | [] => Some (rev' acc, es)
  | n :: ns =>
    match es with
    | ETok (TCtrl m (Some z)) :: r =>
      if str_eqb m (s2l n) then take_margins ns r (z :: acc) else None
    | _ => None
    end
  end.

(* \paperwN \paperhN [\landscape] margins *)
Definition parse_geom (es : list elem) : option (geom * bool * list elem) :=
  match es with
  | ETok (TCtrl a (Some w)) :: ETok (TCtrl b (Some h)) :: r =>
    if str_eqb a (s2l "paperw") && str_eqb b (s2l "paperh") then
      let '(ls, r1) := match r with
                       | ETok t :: r' => if is_c "landscape" t then (true, r') else (false, r)
                       | _ => (false, r)
                       end in
      match take_margins margin_names r1 [] with
      | Some (ms, rest) => Some ({| g_w := w; g_h := h; g_margins := ms |}, ls, rest)
      | None => None
      end
    else None
  | _ => None
  end.

(* ---- picture: align {\pict blip \picwN \pichN \picwgoalN \pichgoalN hex} \par ---- *)
Definition parse_pict (align : list tok) (inner : list tok) : option pict :=
  match inner with
  | p :: blip :: TCtrl a (Some w) :: TCtrl b (Some h) :: TCtrl c (Some wg) :: TCtrl d (Some hg) :: r =>
    if is_c "pict" p && str_eqb a (s2l "picw") && str_eqb b (s2l "pich")
       && str_eqb c (s2l "picwgoal") && str_eqb d (s2l "pichgoal") then
      match r with
      | [] => Some {| pc_align := align; pc_blip := [blip]; pc_w := w; pc_h := h; pc_wgoal := wg; pc_hgoal := hg; pc_hex := [] |}
      | [TText hex] => Some {| pc_align := align; pc_blip := [blip]; pc_w := w; pc_h := h; pc_wgoal := wg; pc_hgoal := hg; pc_hex := hex |}
      | _ => None
      end
    else None
  | _ => None
  end.

(* ---- body items ---- *)
Fixpoint parse_items (fuel : nat) (es : list elem) : option (list item) :=
  match fuel with
  | O => None
  | S f =>
    match es with
    | [] => Some []
    | EGroup g :: r =>
      if is_tiny_par g then
        match r with
        | ETok pg :: EGroup g2 :: r2 =>
          if is_c "page" pg && is_tiny_par g2 then
            match parse_geom r2 with
            | Some (gm, false, rest) => option_map (cons (IBreak gm)) (parse_items f rest)
            | _ => None
            end
          else None
        | _ => None
        end
      else
        match parse_para g with
        | Some it => option_map (cons it) (parse_items f r)
        | None => None
        end
    | ETok t :: r =>
      if is_c "trowd" t then
        match parse_row r with
        | Some (rw, rest) => option_map (cons (IRow rw)) (parse_items f rest)
        | None => None
        end
      else if is_c "page" t then option_map (cons IPage) (parse_items f r)
      else if is_c "qc" t || is_c "ql" t || is_c "qr" t then
        match r with
        | EGroup g :: ETok p :: rest =>
          if is_c "par" p then
            match parse_pict [t] g with
            | Some pc => option_map (cons (IPict pc)) (parse_items f rest)
            | None => None
            end
          else None
        | _ => None
        end
      else None
    end
  end.

(* ---- preamble ---- *)
Fixpoint parse_fonts (es : list elem) : option (list (Z * list tok)) :=
  match es with
  | [] => Some []
  | EGroup (TCtrl n (Some i) :: rest) :: r =>
    if str_eqb n (s2l "f") then option_map (cons (i, rest)) (parse_fonts r) else None
  | _ => None
  end.

Fixpoint parse_colors (ts : list tok) : option (list (Z * Z * Z)) :=
  match ts with
  | [] => Some []
  | TCtrl a (Some r) :: TCtrl b (Some g) :: TCtrl c (Some bl) :: TText [59%N] :: rest =>
    if str_eqb a (s2l "red") && str_eqb b (s2l "green") && str_eqb c (s2l "blue")
    then option_map (cons (r, g, bl)) (parse_colors rest) else None
  | _ => None
  end.

Record pdoc := {
  pd_fonts : list (Z * list tok);
  pd_colors : option (list (Z * Z * Z));
  pd_header : list (list item);       (* one entry per \header destination *)
  pd_footer : list (list item);
  pd_geom : geom;
  pd_landscape : bool;
  pd_items : list item
}.

Definition group_kind (g : list tok) : option str :=
  match g with TCtrl n _ :: _ => Some n | _ => None end.

(* assembled documents repeat, after a bare \page, a colour table, header / footer groups and the page
   geometry of the next input: strip those, keeping the items *)
Fixpoint strip_ext (fuel : nat) (es : list elem) (after_tiny : bool) : list elem :=
  match fuel with
  | O => es
  | S f =>
    match es with
    | [] => []
    | EGroup g :: r =>
      match g with
      | TCtrl n None :: _ =>
        if str_eqb n (s2l "colortbl") || str_eqb n (s2l "header") || str_eqb n (s2l "footer")
        then strip_ext f r false else EGroup g :: strip_ext f r (is_tiny_par g)
      | _ => EGroup g :: strip_ext f r false
      end
    | ETok (TCtrl n p) :: r =>
      if str_eqb n (s2l "paperw") && negb after_tiny then
        match parse_geom es with
        | Some (_, _, rest) => strip_ext f rest false
        | None => ETok (TCtrl n p) :: strip_ext f r false
        end
      else ETok (TCtrl n p) :: strip_ext f r false
    | e :: r => e :: strip_ext f r false
    end
  end.

(* the geometries an assembled document restates for its later inputs (not those of page-break blocks) *)
Fixpoint ext_geoms (fuel : nat) (es : list elem) (after_tiny : bool) : list (geom * bool) :=
  match fuel with
  | O => []
  | S f =>
    match es with
    | [] => []
    | EGroup g :: r => ext_geoms f r (is_tiny_par g)
    | ETok (TCtrl n p) :: r =>
      if str_eqb n (s2l "paperw") && negb after_tiny then
        match parse_geom es with
        | Some (g, ls, rest) => (g, ls) :: ext_geoms f rest false
        | None => ext_geoms f r false
        end
      else ext_geoms f r false
    | _ :: r => ext_geoms f r false
    end
  end.

(* optional preamble groups in order: colortbl, header, footer *)
Definition read_doc_gen (prep : list elem -> list elem) (ts : list tok) : option pdoc :=
  match ts with
  | TOpen :: r0 =>
    match take_group r0 0 [] with
    | Some (inner, []) =>
      match inner with
      | TCtrl a (Some 1%Z) :: TCtrl b None :: TCtrl c (Some 0%Z) :: TCtrl d (Some 1033%Z) :: r1 =>
        if str_eqb a (s2l "rtf") && str_eqb b (s2l "ansi") && str_eqb c (s2l "deff") && str_eqb d (s2l "deflang") then
          match elems r1 with
          | Some (EGroup ft :: es) =>
            match ft with
            | t :: fts =>
              if is_c "fonttbl" t then
                match elems fts with
                | Some fes =>
                  match parse_fonts fes with
                  | Some fonts =>
                    let '(colors, es1) :=
                        match es with
                        | EGroup (TCtrl n None :: TText [59%N] :: cs) :: r =>
                          if str_eqb n (s2l "colortbl") then (Some (parse_colors cs), r) else (None, es)
                        | _ => (None, es)
                        end in
                    let grab (name : string) (es : list elem) : option (list (list item)) * list elem :=
                        match es with
                        | EGroup (TCtrl n None :: g) :: r =>
                          if str_eqb n (s2l name) then
                            match elems g with
                            | Some ge => (option_map (fun x => [x]) (parse_items (S (length ge)) ge), r)
                            | None => (None, r)
                            end
                          else (Some [], es)
                        | _ => (Some [], es)
                        end in
                    let '(hd, es2) := grab "header" es1 in
                    let '(ft_, es3) := grab "footer" es2 in
                    match colors, hd, ft_, parse_geom es3 with
                    | Some None, _, _, _ => None
                    | _, None, _, _ => None
                    | _, _, None, _ => None
                    | _, Some h, Some f, Some (gm, ls, rest) =>
                      match parse_items (S (length rest)) (prep rest) with
                      | Some its =>
                        Some {| pd_fonts := fonts;
                                pd_colors := match colors with Some (Some l) => Some l | _ => None end;
                                pd_header := h; pd_footer := f; pd_geom := gm; pd_landscape := ls;
                                pd_items := its |}
                      | None => None
                      end
                    | _, _, _, None => None
                    end
                  | None => None
                  end
                | None => None
                end
              else None
            | [] => None
            end
          | _ => None
          end
        else None
      | _ => None
      end
    | _ => None
    end
  | _ => None
  end.

Definition read_doc (ts : list tok) : option pdoc := read_doc_gen (fun es => es) ts.
Definition read_assembled (ts : list tok) : option pdoc :=
  read_doc_gen (fun es => strip_ext (S (length es)) es false) ts.

(* pages: split the item list at page breaks *)
Fixpoint split_pages (its : list item) (cur : list item) : list (list item) :=
  match its with
  | [] => [rev' cur]
  | IBreak g :: r => rev' cur :: split_pages r [IBreak g]
  | IPage :: r => rev' (IPage :: cur) :: split_pages r []
  | i :: r => split_pages r (i :: cur)
  end.
Definition pages_of (its : list item) : list (list item) := split_pages its [].
