(* TextContent._convert_special_chars: ordered replacements, LaTeX scanner, escaping. *)
From Coq Require Import Ascii String.
From Coq Require Import List NArith ZArith Bool.
From V Require Import Str Tok Tables.
Import ListNotations.
Local Open Scope N_scope.

(* pass 1: the ordered str.replace calls of RTF_CHAR_MAPPING *)
Fixpoint apply_mapping (m : list (str * str)) (s : str) : str :=
  match m with
  | [] => s
  | (k, v) :: r => apply_mapping r (replace_all k v s)
  end.

Definition latex_lookup (cmd : str) : str :=
  match assoc cmd latex_table with Some v => v | None => cmd end.

(* keys that are not of the shape \letters or \letters{...}: matched literally, longest first *)
Definition is_letter_command (k : str) : bool :=
  match k with
  | 92 :: rest =>
    let '(name, tail) := span is_alpha rest [] in
    match name with
    | [] => false
    | _ => match tail with
           | [] => true
           | 123 :: r => match rev' r with 125 :: inner => negb (existsb (N.eqb 125) inner) | _ => false end
           | _ => false
           end
    end
  | _ => false
  end.

Definition special_keys : list (str * str) := filter (fun kv => negb (is_letter_command (fst kv))) latex_table.

Fixpoint longest_key (tbl : list (str * str)) (s : str) (best : option (str * str)) : option (str * str) :=
  match tbl with
  | [] => best
  | (k, v) :: r =>
    if starts_with k s && match best with Some (b, _) => Nat.ltb (length b) (length k) | None => true end
    then longest_key r s (Some (k, v)) else longest_key r s best
  end.

(* pass 2: re.sub(special keys | r"\\[a-zA-Z]+(?:\{[^}]*\})?", lookup-or-identity) *)
Fixpoint latex_fuel (fuel : nat) (s : str) : str :=
  match fuel with
  | O => s
  | S f =>
    match s with
    | [] => []
    | c :: r =>
      if N.eqb c 92 then
        match longest_key special_keys s None with
        | Some (k, v) => v ++ latex_fuel f (drop (length k) s)
        | None =>
        let '(name, rest) := span is_alpha r [] in
        match name with
        | [] => c :: latex_fuel f r
        | _ =>
          let cmd := 92 :: name in
          match rest with
          | 123 :: r2 =>
            let '(inner, rest2) := span (fun x => negb (N.eqb x 125)) r2 [] in
            match rest2 with
            | 125 :: r3 =>
              let full := cmd ++ 123 :: inner ++ [125] in
              latex_lookup full ++ latex_fuel f r3
            | _ => latex_lookup cmd ++ latex_fuel f rest
            end
          | _ => latex_lookup cmd ++ latex_fuel f rest
          end
        end
        end
      else c :: latex_fuel f r
    end
  end.
Definition latex_to_unicode (s : str) : str := latex_fuel (S (length s)) s.

(* pass 3: 7-bit clean escaping through UTF-16 code units *)
Definition signed16 (u : N) : Z :=
  if u <? 32768 then Z.of_N u else (Z.of_N u - 65536)%Z.

Definition esc_unit (u : N) : str :=
  s2l "\uc1\u"%string ++ dec_of_Z (signed16 u) ++ [42].

Definition utf16_units (c : N) : list N :=
  if 65535 <? c then
    let o := c - 65536 in
    [55296 + N.shiftr o 10; 56320 + N.land o 1023]
  else [c].

Definition esc_char (c : N) : str :=
  if c <? 128 then [c] else concat_str (map esc_unit (utf16_units c)).

Fixpoint escape (s : str) : str :=
  match s with
  | [] => []
  | c :: r => esc_char c ++ escape r
  end.

Definition convert_special_chars (conv : bool) (s : str) : str :=
  let s1 := if conv then apply_mapping rtf_char_mapping s else s in
  let s2 := if conv then latex_to_unicode s1 else s1 in
  escape s2.

(* the tokens a text run contributes to the document *)
Definition text_tokens (conv : bool) (s : str) : list tok :=
  lex (convert_special_chars conv s).
