(* C12: colour indices resolve, in the document's own dense table, to the colour that was asked for. *)
From Coq Require Import Ascii String.
From Coq Require Import List NArith ZArith Bool Arith Lia.
From V Require Import Str Tok Tables Items Read Doc Encode Pipeline Document GroupByProofs.
Import ListNotations.
Local Open Scope string_scope.
Local Open Scope list_scope.

(* ---- finite facts on the regenerated colour table ---- *)
Fixpoint nodup_names (l : list str) : bool :=
  match l with [] => true | x :: r => negb (mem_str x r) && nodup_names r end.

Lemma color_names_unique : nodup_names (map fst color_table) = true.
Proof. vm_compute. reflexivity. Qed.

Lemma color_indices_dense : map (fun e => fst (snd e)) color_table = map Z.of_nat (seq 1 (length color_table)).
Proof. vm_compute. reflexivity. Qed.

(* the \redN\greenN\blueN; strings of the code are exactly the r,g,b numbers of the table *)
Definition code_matches (e : str * (Z * (Z * Z * Z))) : bool :=
  let '(n, (_, (r, g, b))) := e in
  match assoc n color_rtf_codes with
  | Some code => tok_list_eqb (lex code) [ctrlz "red" r; ctrlz "green" g; ctrlz "blue" b; TText [59%N]]
  | None => false
  end.
Lemma color_codes_match : all_b code_matches color_table = true.
Proof. vm_compute. reflexivity. Qed.

(* ---- position of a name in a list of entries ---- *)
  Lemma index_in_found (c : str) (l : list (str * (Z * (Z * Z * Z)))) (i : Z) :
    mem_str c (map fst l) = true ->
    exists k e, nth_error l k = Some (c, e) /\ index_in c l i = (i + Z.of_nat k)%Z.
  Proof.
    revert i; induction l as [|[n e] l IH]; intros i H; [discriminate|].
    cbn [map fst mem_str] in H. cbn [index_in].
    destruct (str_eqb n c) eqn:E.
    - apply str_eqb_eq in E; subst. exists 0, e. split; [reflexivity|]. lia.
    - assert (Ec : str_eqb c n = false).
      { destruct (str_eqb c n) eqn:E2; [|reflexivity]. apply str_eqb_eq in E2; subst.
        rewrite str_eqb_refl in E. discriminate. }
      rewrite Ec in H. cbn [orb] in H.
      destruct (IH (i + 1)%Z H) as (k & e' & Hn & Hi).
      exists (S k), e'. split; [exact Hn|]. rewrite Hi. lia.
  Qed.

Lemma mem_str_filter c (f : str * (Z * (Z * Z * Z)) -> bool) l e :
  In (c, e) l -> f (c, e) = true -> mem_str c (map fst (filter f l)) = true.
Proof.
  induction l as [|x l IH]; intros Hin Hf; [contradiction|].
  cbn [filter]. destruct Hin as [->|Hin].
  - rewrite Hf. cbn. rewrite str_eqb_refl. reflexivity.
  - destruct (f x); cbn; [rewrite (IH Hin Hf); apply orb_true_r|apply IH; assumption].
Qed.

Lemma mem_str_in x l : mem_str x l = true <-> In x l.
Proof.
  induction l as [|y l IH]; cbn; [split; [discriminate|contradiction]|].
  split.
  - intro H. apply orb_prop in H as [H|H]; [left; symmetry; apply str_eqb_eq; exact H|right; apply IH; exact H].
  - intros [->|H]; [rewrite str_eqb_refl; reflexivity|rewrite (proj2 IH H); apply orb_true_r].
Qed.

Lemma assoc_in {B} k (l : list (str * B)) v : assoc k l = Some v -> In (k, v) l.
Proof.
  induction l as [|[k' v'] l IH]; cbn; [discriminate|].
  destruct (str_eqb k k') eqn:E.
  - intro H; inversion H; subst. apply str_eqb_eq in E; subst. left; reflexivity.
  - intro H; right; apply IH; exact H.
Qed.

(* ---- the resolution theorem ----
   For a palette `used` of valid colour names, any significant colour c of the palette gets an index
   1 <= k <= length of the dense table, and entry k of that table is the table entry of c itself. *)
Lemma resolves_generic (tbl : list (str * (Z * (Z * Z * Z)))) f c e :
  In (c, e) tbl -> f (c, e) = true ->
  exists k e', nth_error (filter f tbl) k = Some (c, e')
               /\ index_in c (filter f tbl) 1 = Z.of_nat (S k) /\ In (c, e') tbl.
Proof.
  intros Hin Hf.
  pose proof (mem_str_filter c f tbl e Hin Hf) as Hmem.
  destruct (index_in_found c (filter f tbl) 1 Hmem) as (k & e' & Hn & Hi).
  exists k, e'. split; [exact Hn|]. split; [rewrite Hi; lia|].
  apply nth_error_In in Hn. apply filter_In in Hn as [Hn _]. exact Hn.
Qed.

Opaque color_table.

Theorem color_index_resolves used c :
  all_valid used = true -> significant c = true -> mem_str c used = true ->
  forall m, master_index c = Some m ->
  exists k e, color_index (Some used) c = Z.of_nat (S k)
              /\ nth_error (sorted_palette used) k = Some (c, e)
              /\ In (c, e) color_table.
Proof.
  intros Hv Hs Hu m Hm. unfold color_index. rewrite Hs, Hv. cbn [negb].
  unfold master_index in Hm. destruct (assoc c color_table) as [e|] eqn:Ea; [|discriminate].
  pose proof (assoc_in _ _ _ Ea) as Hin.
  unfold sorted_palette.
  destruct (resolves_generic color_table (fun e0 => mem_str (fst e0) used && significant (fst e0)) c e Hin)
    as (k & e' & H1 & H2 & H3).
  { cbn [fst]. rewrite Hu, Hs. reflexivity. }
  exists k, e'. split; [exact H2|]. split; [exact H1|exact H3].
Qed.

Transparent color_table.

(* index 0 exactly for the default colour *)
Theorem color_index_default ctx c : significant c = false -> color_index ctx c = 0%Z.
Proof. intro H. unfold color_index. rewrite H. reflexivity. Qed.

(* ---- the emitted table is the dense palette, and the reader reads it back ---- *)
Definition rgb_of (e : str * (Z * (Z * Z * Z))) : Z * Z * Z := snd (snd e).

Lemma parse_colors_emit l :
  parse_colors (flat_map (fun e => let '(_, (_, (r, g, b))) := e in
                                   [ctrlz "red" r; ctrlz "green" g; ctrlz "blue" b; TText [59%N]]) l)
  = Some (map rgb_of l).
Proof.
  induction l as [|[n [i [[r g] b]]] l IH]; [reflexivity|].
  cbn [flat_map app]. unfold ctrlz at 1 2 3. cbn [parse_colors].
  change (str_eqb (s2l "red") (s2l "red")) with true.
  change (str_eqb (s2l "green") (s2l "green")) with true.
  change (str_eqb (s2l "blue") (s2l "blue")) with true. cbn [andb].
  rewrite IH. reflexivity.
Qed.

(* a colour table is emitted exactly when some non-default colour is used *)
Theorem color_table_present used :
  color_table_tokens used = [] <-> filter significant used = [].
Proof.
  unfold color_table_tokens. destruct (filter significant used) eqn:E; cbn [Pipeline.nonempty negb app].
  - split; reflexivity.
  - split; intro H; discriminate.
Qed.

(* every attribute entry is collected: what an element can ask for is in the palette *)
Lemma iloc_in_concat {A} (v : list (list A)) r c x :
  Broadcast.iloc v r c = Some x -> In x (concat v).
Proof.
  unfold Broadcast.iloc. destruct v as [|row0 v']; [discriminate|].
  destruct (length row0); [discriminate|].
  destruct (nth_error (row0 :: v') (Nat.modulo r (length (row0 :: v')))) as [row|] eqn:E; [|discriminate].
  intro H. apply in_concat. exists row. split; [eapply nth_error_In; exact E|eapply nth_error_In; exact H].
Qed.

(* ---- fonts: every font number 1..10 has its own entry \f(N-1) in the emitted font table, carrying
   the name the code's number->name map gives it (finite, on the regenerated tables) ---- *)
From V Require Import Checks.
Definition model_fonts : option (list (Z * list tok)) :=
  match elems (font_entries font_table 0) with Some es => parse_fonts es | None => None end.
Lemma fonts_resolve :
  match model_fonts with
  | Some fs => all_b (font_entry_ok fs) [0; 1; 2; 3; 4; 5; 6; 7; 8; 9]%Z
  | None => false
  end = true.
Proof. vm_compute. reflexivity. Qed.

Lemma font_maps_agree :
  all_b (fun kv => match find (fun e => Z.eqb (fst e) (snd kv)) font_number_to_name with
                   | Some (_, n) => str_eqb n (fst kv) | None => false end) font_name_to_number = true
  /\ map fst font_number_to_name = [1; 2; 3; 4; 5; 6; 7; 8; 9; 10]%Z.
Proof. vm_compute. split; reflexivity. Qed.
