(* C01 at document level, clause 3: every control sequence of the encoded document is lexically valid
   (a non-empty lower-case control word or an allowed control symbol), provided the bodies of the text runs are. *)
From Coq Require Import Ascii String.
From Coq Require Import List NArith ZArith QArith Bool Arith Lia.
From V Require Import Str Num Tok Tables Items WellFormed Doc Broadcast TextConv Encode Paginate GroupBy Pipeline Figure Document.
From V Require Import EmitWF TablesWF DocumentWF.
Import ListNotations.
Local Open Scope string_scope.
Local Open Scope list_scope.
Local Open Scope nat_scope.

Definition lexical (t : tok) : Prop := tok_lexical t = true.
Lemma lexical_ctrl n p : nonempty_lower n = true -> lexical (TCtrl n p).
Proof. intro H. exact H. Qed.

Notation lx := (Forall lexical).

Lemma lx_all_b l : lx l <-> all_b tok_lexical l = true.
Proof.
  induction l as [|t l IH]; cbn [all_b]; split; intro H; try reflexivity; try constructor.
  - inversion H; subst. apply andb_true_intro. split; [assumption|apply IH; assumption].
  - apply andb_prop in H as [H1 _]. exact H1.
  - apply andb_prop in H as [_ H2]. apply IH. exact H2.
Qed.

Lemma lx_app a b : lx a -> lx b -> lx (a ++ b).
Proof. intros; apply Forall_app; split; assumption. Qed.

Ltac lit := first [apply lexical_ctrl; reflexivity | reflexivity].
Ltac lx_cons := repeat (apply Forall_cons; [lit|]).

Definition run_lx (r : run) : Prop := lx (rn_body r).
Definition bodies_lx (its : list item) : Prop := Forall run_lx (flat_map runs_of its).

Lemma emit_optz_lx name o : nonempty_lower (s2l name) = true -> lx (emit_optz name o).
Proof. intro H. destruct o; cbn; [constructor; [exact H|constructor]|constructor]. Qed.

Lemma emit_run_lx r : run_lx r -> lx (emit_run r).
Proof.
  intro H. unfold emit_run. cbn [app]. lx_cons.
  apply lx_app; [apply emit_optz_lx; reflexivity|].
  apply lx_app; [destruct (rn_cb r); [lx_cons|]; constructor|].
  apply lx_app; [exact H|lx_cons; constructor].
Qed.

Lemma emit_bord_lx side o : nonempty_lower (s2l side) = true -> bordT lexical o -> lx (emit_bord side o).
Proof.
  intros Hs H. destruct o as [b|]; cbn; [|constructor].
  constructor; [exact Hs|]. apply lx_app; [exact H|]. cbn [app]. lx_cons. apply emit_optz_lx. reflexivity.
Qed.

Lemma emit_cell_def_lx c : scell_ok lexical c -> lx (emit_cell_def c).
Proof.
  intros (H1 & H2 & H3 & H4 & H5 & _). unfold emit_cell_def.
  repeat (apply lx_app; [apply emit_bord_lx; [reflexivity|assumption]|]).
  apply lx_app; [exact H5|lx_cons; constructor].
Qed.

Lemma emit_cell_content_lx c : scell_ok lexical c -> run_lx (ce_run c) -> lx (emit_cell_content c).
Proof.
  intros (_ & _ & _ & _ & _ & H6) Hr. unfold emit_cell_content.
  constructor; [lit|]. apply lx_app; [exact H6|]. apply lx_app; [apply emit_run_lx; exact Hr|lx_cons; constructor].
Qed.

Lemma flat_map_lx {A} (f : A -> list tok) l : Forall (fun x => lx (f x)) l -> lx (flat_map f l).
Proof. induction 1; cbn [flat_map]; [constructor|apply lx_app; assumption]. Qed.

Lemma emit_row_lx r :
  tl lexical (rw_just r) -> Forall (scell_ok lexical) (rw_cells r) -> Forall run_lx (map ce_run (rw_cells r)) -> lx (emit_row r).
Proof.
  intros Hj Hc Hr. unfold emit_row. cbn [app]. lx_cons.
  apply lx_app; [exact Hj|].
  apply lx_app; [apply flat_map_lx; eapply Forall_impl; [|exact Hc]; apply emit_cell_def_lx|].
  apply lx_app; [|lx_cons; constructor].
  apply flat_map_lx. induction (rw_cells r) as [|c cs IH]; [constructor|].
  inversion Hc; subst. cbn [map] in Hr. inversion Hr; subst.
  constructor; [apply emit_cell_content_lx; assumption|apply IH; assumption].
Qed.

Lemma emit_runs_lx rs : Forall run_lx rs -> lx (emit_runs rs).
Proof.
  induction rs as [|r rs IH]; intro H; [constructor|].
  inversion H; subst. cbn [emit_runs]. destruct rs as [|r2 rs2]; [apply emit_run_lx; assumption|].
  apply lx_app; [apply emit_run_lx; assumption|]. constructor; [lit|apply IH; assumption].
Qed.

Lemma emit_margins_lx ms : lx (emit_margins margin_names ms).
Proof.
  unfold margin_names.
  do 6 (destruct ms as [|? ms]; cbn [emit_margins]; [lx_cons; constructor|]); lx_cons; constructor.
Qed.

Lemma emit_item_lx i : sitem_ok lexical i -> Forall run_lx (runs_of i) -> lx (emit_item i).
Proof.
  destruct i as [r|pf rs|g|p|]; cbn [emit_item sitem_ok runs_of].
  - intros [Hj Hc] Hr. apply emit_row_lx; assumption.
  - intros Hpf Hr. unfold emit_para. cbn [app]. lx_cons. apply lx_app; [exact Hpf|].
    apply lx_app; [apply emit_runs_lx; exact Hr|lx_cons; constructor].
  - intros _ _. unfold emit_break, tiny_par, emit_geom. cbn [app]. lx_cons. apply emit_margins_lx.
  - intros [H1 H2] _. unfold emit_pict. apply lx_app; [exact H1|]. cbn [app]. lx_cons.
    apply lx_app; [exact H2|lx_cons; constructor].
  - intros _ _. lx_cons. constructor.
Qed.

Lemma emit_items_lx its : Forall (sitem_ok lexical) its -> bodies_lx its -> lx (emit_items its).
Proof.
  unfold bodies_lx, emit_items. induction its as [|i its IH]; intros Hs Hb; [constructor|].
  inversion Hs; subst. cbn [flat_map] in *. apply Forall_app in Hb as [Hb1 Hb2].
  apply lx_app; [apply emit_item_lx; assumption|apply IH; assumption].
Qed.

(* canon merges texts only *)
Lemma canon_lx ts : lx ts -> lx (canon ts).
Proof.
  induction ts as [|t ts IH]; intro H; [constructor|]. inversion H; subst. specialize (IH H3).
  destruct t as [| |n p|c|a]; cbn [canon]; try (constructor; assumption).
  destruct a as [|x a]; [exact IH|].
  destruct (canon ts) as [|c2 cr]; [constructor; [reflexivity|constructor]|].
  destruct c2; try (constructor; [reflexivity|exact IH]).
  inversion IH; subst. constructor; [reflexivity|assumption].
Qed.

Lemma font_table_lx : lx font_table_tokens.
Proof. apply lx_all_b. vm_compute. reflexivity. Qed.

Lemma color_table_lx used : lx (color_table_tokens used).
Proof.
  unfold color_table_tokens. destruct (negb _); [constructor|]. cbn [app]. lx_cons.
  apply lx_app; [|lx_cons; constructor].
  apply flat_map_lx. apply Forall_forall. intros [nm [idx [[r g] b]]] _. lx_cons. constructor.
Qed.

Lemma page_settings_lx pg : lx (page_settings_tokens pg).
Proof.
  unfold page_settings_tokens. cbn [app]. lx_cons.
  apply lx_app; [destruct (p_landscape pg); lx_cons; constructor|apply emit_margins_lx].
Qed.

Definition comp_bodies_lx (ctx : option (list str)) (o : option textcomp) : Prop :=
  match text_shown o with
  | Some t => forall its, encode_text_line ctx (tc_attrs t) (opt_list (tc_text t)) = Ok its -> bodies_lx its
  | None => True
  end.

Lemma header_footer_lx ctx name o ts :
  nonempty_lower (s2l name) = true -> comp_bodies_lx ctx o -> header_footer_tokens ctx name o = Ok ts -> lx ts.
Proof.
  unfold header_footer_tokens, comp_bodies_lx. intro Hn. destruct (text_shown o) as [t|]; intros Hb H.
  - inv_bind H. inv_ok H. cbn [app]. constructor; [reflexivity|]. constructor; [exact Hn|].
    apply lx_app; [|lx_cons; constructor].
    apply emit_items_lx; [eapply (encode_text_line_ok lexical lexical_ctrl); eassumption|apply Hb; exact E].
  - inv_ok H. constructor.
Qed.

Theorem encode_lexical ctx d ts :
  encode_with ctx d = Ok ts ->
  (forall pages, document_pages ctx d = Ok pages -> bodies_lx (concat pages)) ->
  comp_bodies_lx ctx (d_page_header d) -> comp_bodies_lx ctx (d_page_footer d) ->
  all_b tok_lexical ts = true.
Proof.
  unfold encode_with. intros H Hb Hh Hf. do 2 inv_bind H. inv_ok H.
  unfold preamble in E0. do 2 inv_bind E0. inv_ok E0.
  apply lx_all_b. apply canon_lx.
  assert (Hds : lx doc_start) by (unfold doc_start; lx_cons; constructor).
  apply (lx_app (doc_start ++ font_table_tokens ++ color_table_tokens (collect_colors d) ++ x1 ++ x2 ++ page_settings_tokens (d_page d))).
  - apply (lx_app doc_start); [exact Hds|].
    apply (lx_app font_table_tokens); [apply font_table_lx|].
    apply (lx_app (color_table_tokens (collect_colors d))); [apply color_table_lx|].
    apply (lx_app x1); [exact (header_footer_lx ctx "header" _ _ eq_refl Hh E1)|].
    apply (lx_app x2); [exact (header_footer_lx ctx "footer" _ _ eq_refl Hf E2)|apply page_settings_lx].
  - apply (lx_app (emit_items (concat x))); [|lx_cons; constructor].
    apply emit_items_lx; [eapply (document_pages_ok lexical lexical_ctrl); eassumption|apply Hb; exact E].
Qed.

Definition bodies_lxb (its : list item) : bool := all_b (fun r => all_b tok_lexical (rn_body r)) (flat_map runs_of its).
Lemma bodies_lxb_ok its : bodies_lxb its = true -> bodies_lx its.
Proof.
  unfold bodies_lxb, bodies_lx. induction (flat_map runs_of its) as [|r rs IH]; cbn [all_b]; intro H; [constructor|].
  apply andb_prop in H as [H1 H2]. constructor; [apply lx_all_b; exact H1|apply IH; exact H2].
Qed.
