# table of claimed properties (executed by make_manifest.py)
claim("C01",
      "Theorems (Coq): emission of structured RTF items is brace-balanced and row-consistent for all items; "
      "the executable model of rtf_encode is tied to the code by strict token-level correspondence "
      "(lex(rtf_encode()) = model tokens) on generated documents of all three kinds, and the well-formedness "
      "predicate wf_rtf is evaluated on the implementation's real output.",
      "Trusted: Coq kernel, table translator, extraction (ExtrOcamlBasic), OCaml glue, Python harness; "
      "modelled not verified: pydantic/polars/CPython primitives, Pillow widths (oracle), binary64 noise at flagged ties.",
      "Rocq proof over a Gallina model + checked model/code correspondence (differential, extracted OCaml)",
      "DESIGN.md section 6 C01")
