"""Deterministic scheduler for concurrent rtf_encode() calls (C15).

Only one thread runs at a time (a baton passed through semaphores); a thread can be preempted at any function-call
boundary inside the library (sys.settrace 'call' events whose code lives under /repo/src/rtflite)."""
from __future__ import annotations

import os
import sys
import threading

import rtflite

SRC = os.path.dirname(os.path.abspath(rtflite.__file__))


class Run:
    def __init__(self, fns, preempts, recorder=None):
        """fns: one thunk per thread; preempts: {(tid, k): to_tid} = when thread tid makes its k-th library call, run to_tid."""
        self.fns = fns
        self.n = len(fns)
        self.preempts = preempts
        self.sems = [threading.Semaphore(0) for _ in fns]
        self.main = threading.Semaphore(0)
        self.done = [False] * self.n
        self.counts = [0] * self.n
        self.results = [None] * self.n
        self.taken = []            # preemptions that actually happened: (tid, k, to)
        self.idents = {}
        self.recorder = recorder
        self.marks = []            # (tid, call count, recorder event index) at each context event (solo profiling)
        self.measure = []          # call counts (thread 0) of calls into the string-width module

    def _tracer(self, tid):
        def tr(frame, event, arg):
            if event == "call" and frame.f_code.co_filename.startswith(SRC):
                self.counts[tid] += 1
                if tid == 0 and frame.f_code.co_filename.endswith("strwidth.py"):
                    self.measure.append(self.counts[0])
                to = self.preempts.get((tid, self.counts[tid]))
                if to is not None and to != tid and not self.done[to]:
                    self.taken.append((tid, self.counts[tid], to))
                    self.sems[to].release()
                    self.sems[tid].acquire()
            return None
        return tr

    def _body(self, tid):
        self.sems[tid].acquire()
        self.idents[threading.get_ident()] = tid
        sys.settrace(self._tracer(tid))
        try:
            self.results[tid] = ("ok", self.fns[tid]())
        except BaseException as e:  # noqa: BLE001
            self.results[tid] = ("exc", type(e).__name__ + ": " + str(e)[:200])
        finally:
            sys.settrace(None)
            self.done[tid] = True
            nxt = next((j for j in range(self.n) if not self.done[j]), None)
            if nxt is not None:
                self.sems[nxt].release()
            else:
                self.main.release()

    def go(self, first=0):
        threads = [threading.Thread(target=self._body, args=(i,), daemon=True) for i in range(self.n)]
        for t in threads:
            t.start()
        self.sems[first].release()
        if not self.main.acquire(timeout=120):
            raise RuntimeError("scheduler deadlock")
        for t in threads:
            t.join(timeout=10)
        return self.results


# ---------------------------------------------------------------- worker-process side (multiprocessing, spawn)
_W = {}


def init_worker(pool_specs, doc_ids):
    import hist
    import rt

    docs = {i: rt.build(pool_specs[i]) for i in doc_ids}
    solo = {}
    for i, d in docs.items():
        try:
            solo[i] = ("ok", d.rtf_encode())
        except Exception as e:  # noqa: BLE001
            solo[i] = ("exc", type(e).__name__ + ": " + str(e)[:200])
    _W.update(docs=docs, solo=solo, rec=hist.Recorder())


def profile(doc_id):
    """Solo run under the tracer: number of library calls and the call counts at which the context is touched."""
    rec = _W["rec"]
    run = Run([_W["docs"][doc_id].rtf_encode], {}, rec)
    marks = []
    rec.on_event = lambda: marks.append(run.counts[0])
    try:
        res = run.go()
    finally:
        rec.on_event = None
    same = res[0] == _W["solo"][doc_id]
    return {"doc": doc_id, "calls": run.counts[0], "marks": sorted(set(marks)), "measure": sorted(set(run.measure)),
            "same_as_untraced": same}


def run_schedule(task):
    """task: {"docs": [doc id per thread], "preempts": [[tid, k, to], ...], "first": tid}"""
    rec = _W["rec"]
    ids = task["docs"]
    start = len(rec.events)
    run = Run([_W["docs"][i].rtf_encode for i in ids], {(t, k): to for t, k, to in task["preempts"]}, rec)
    try:
        res = run.go(task.get("first", 0))
    except RuntimeError as e:
        return {"task": task, "error": str(e)}
    evs = rec.events[start:]
    del rec.events[start:]
    trace = [(run.idents.get(ident, -1), kind, val) for ident, kind, val in evs]
    differs = []
    for t, i in enumerate(ids):
        if res[t] != _W["solo"][i]:
            got, want = res[t], _W["solo"][i]
            where = None
            if got[0] == "ok" and want[0] == "ok":
                where = next((j for j, (a, b) in enumerate(zip(got[1], want[1])) if a != b), min(len(got[1]), len(want[1])))
                differs.append({"thread": t, "doc": i, "at": where, "got": got[1][max(0, where - 40): where + 40], "alone": want[1][max(0, where - 40): where + 40]})
            else:
                differs.append({"thread": t, "doc": i, "got": str(got)[:200], "alone": str(want)[:200]})
    return {"task": task, "taken": run.taken, "trace": trace, "differs": differs, "calls": run.counts}
