(* C01 at document level: for EVERY document, the tokens encode produces start with {\rtf1 and form exactly one
   brace-balanced top-level group, provided the bodies of its text runs are brace-neutral (the property's text domain).
   Everything structural - code strings from the regenerated tables, paragraph formats, borders, rows, paragraphs,
   page breaks, pictures, the preamble - is proved brace-free / neutral for all inputs. *)
From Coq Require Import Ascii String.
From Coq Require Import List NArith ZArith QArith Bool Arith Lia.
From V Require Import Str Num Tok Tables Items WellFormed Doc Broadcast TextConv Encode Paginate GroupBy Pipeline Figure Document.
From V Require Import EmitWF TablesWF.
Import ListNotations.
Local Open Scope string_scope.
Local Open Scope list_scope.
Local Open Scope nat_scope.

(* ---- the do-notation: inversion of a successful bind ---- *)
Lemma bind_ok {A B} (r : res A) (k : A -> res B) y : bind r k = Ok y -> exists x, r = Ok x /\ k x = Ok y.
Proof. destruct r as [x|e]; cbn; [intro H; exists x; split; [reflexivity|exact H]|discriminate]. Qed.

Ltac inv_bind H :=
  let x := fresh "x" in let E := fresh "E" in
  apply bind_ok in H; destruct H as (x & E & H).

Ltac inv_ok H := inversion H; subst; clear H.

(* ---- structural well-formedness: everything of an item except the bodies of its runs ---- *)
Section Walk.
(* T: a property of single tokens that every control word with a non-empty lower-case name has *)
Variable T : tok -> Prop.
Hypothesis HT : forall n p, nonempty_lower n = true -> T (TCtrl n p).
Definition tl (l : list tok) : Prop := Forall T l.
Definition bordT (o : option bord) : Prop := match o with Some b => tl (bd_style b) | None => True end.

Definition scell_ok (c : cell) : Prop :=
  bordT (ce_bl c) /\ bordT (ce_bt c) /\ bordT (ce_br c) /\ bordT (ce_bb c)
  /\ tl (ce_vj c) /\ tl (ce_pf c).
Definition sitem_ok (i : item) : Prop :=
  match i with
  | IRow r => tl (rw_just r) /\ Forall scell_ok (rw_cells r)
  | IPara pf _ => tl pf
  | IBreak _ => True
  | IPict p => tl (pc_align p) /\ tl (pc_blip p)
  | IPage => True
  end.
(* ---- code strings from the regenerated tables carry no braces ---- *)
Lemma simple_code_tl s : simple_code s = true -> tl (lex s).
Proof.
  unfold simple_code, tl. induction (lex s) as [|t ts IH]; cbn [all_b]; intro H; [constructor|].
  apply andb_prop in H as [H1 H2]. constructor; [|apply IH; exact H2].
  destruct t; cbn in H1; try discriminate. apply andb_prop in H1 as [H1 _]. apply HT. exact H1.
Qed.

Lemma assoc_in {B} k (tbl : list (str * B)) v : assoc k tbl = Some v -> In (k, v) tbl \/ exists k', In (k', v) tbl.
Proof.
  induction tbl as [|[k0 v0] tbl IH]; cbn [assoc]; [discriminate|].
  destruct (str_eqb k k0); intro H.
  - inversion H; subst. right. exists k0. left. reflexivity.
  - destruct (IH H) as [X|[k' X]]; [left; right; exact X|right; exists k'; right; exact X].
Qed.

Lemma code_tokens_tl tbl k ts :
  table_simple tbl = true -> code_tokens tbl k = Some ts -> tl ts.
Proof.
  unfold table_simple, code_tokens. intros Ht H.
  destruct (assoc k tbl) as [v|] eqn:E; [|discriminate]. cbn in H. inversion H; subst.
  apply simple_code_tl.
  assert (G : forall (l : list (str * str)), all_b (fun kv => simple_code (snd kv)) l = true ->
              forall k' v', In (k', v') l -> simple_code v' = true).
  { induction l as [|[a b] l IH]; cbn [all_b]; intros Hl k' v' Hin; [contradiction|].
    apply andb_prop in Hl as [H1 H2]. destruct Hin as [Hin|Hin]; [inversion Hin; subst; exact H1|eapply IH; eassumption]. }
  destruct (assoc_in k tbl v E) as [X|[k' X]]; eapply G; eassumption.
Qed.

Lemma of_opt_ok {A} (o : option A) e x : of_opt o e = Ok x -> o = Some x.
Proof. destruct o; cbn; intro H; [inversion H; reflexivity|discriminate]. Qed.

Lemma tl_app a b : tl a -> tl b -> tl (a ++ b).
Proof. unfold tl. intros; apply Forall_app; split; assumption. Qed.

Ltac lit := apply HT; reflexivity.

Lemma para_fmt_ok t pf : para_fmt t = Ok pf -> tl pf.
Proof.
  unfold para_fmt. intro H. inv_bind H. inv_ok H. apply of_opt_ok in E.
  pose proof (code_tokens_tl _ _ _ text_just_codes_simple E) as Hj.
  unfold ctrl, ctrlz. destruct (t_hyph t); destruct (Z.eqb (t_space t) 1); cbn [app];
    repeat (apply Forall_cons; [apply HT; reflexivity|]); exact Hj.
Qed.

Lemma mk_border_ok ctx st col w r c b : mk_border ctx st col w r c = Ok b -> tl (bd_style b).
Proof.
  unfold mk_border. intro H. do 4 inv_bind H. inv_ok H. cbn. apply of_opt_ok in E2.
  exact (code_tokens_tl _ _ _ border_codes_simple E2).
Qed.

(* ---- rows ---- *)
Lemma encode_cells_ok ctx a widths ncols vals r j cells :
  encode_cells ctx a widths ncols vals r j = Ok cells -> Forall scell_ok cells.
Proof.
  revert j cells; induction vals as [|v vals IH]; intros j cells H; cbn [encode_cells] in H.
  - inv_ok H. constructor.
  - do 10 inv_bind H. inv_bind H. inv_ok H. constructor; [|eapply IH; eassumption].
    unfold scell_ok; cbn.
    repeat split.
    + eapply mk_border_ok; eassumption.
    + eapply mk_border_ok; eassumption.
    + destruct (Nat.eqb (S j) ncols).
      * inv_bind E5. inv_ok E5. cbn. eapply mk_border_ok; eassumption.
      * inv_ok E5. exact I.
    + eapply mk_border_ok; eassumption.
    + apply of_opt_ok in E7. exact (code_tokens_tl _ _ _ vert_codes_simple E7).
    + eapply para_fmt_ok; eassumption.
Qed.

Lemma encode_row_ok ctx a widths vals r rw : encode_row ctx a widths vals r = Ok rw -> sitem_ok (IRow rw).
Proof.
  unfold encode_row. intro H. do 4 inv_bind H. inv_ok H. cbn. split.
  - apply of_opt_ok in E1. exact (code_tokens_tl _ _ _ row_just_codes_simple E1).
  - eapply encode_cells_ok; eassumption.
Qed.

Lemma encode_rows_ok ctx a widths rows r rs :
  encode_rows ctx a widths rows r = Ok rs -> Forall sitem_ok (map IRow rs).
Proof.
  revert r rs; induction rows as [|vals rows IH]; intros r rs H; cbn [encode_rows] in H.
  - inv_ok H. constructor.
  - do 2 inv_bind H. inv_ok H. cbn [map]. constructor; [eapply encode_row_ok; eassumption|eapply IH; eassumption].
Qed.

Lemma table_encode_ok ctx a widths rows off its : table_encode ctx a widths rows off = Ok its -> Forall sitem_ok its.
Proof. unfold table_encode. intro H. inv_bind H. inv_ok H. eapply encode_rows_ok; eassumption. Qed.

(* ---- paragraphs ---- *)
Lemma encode_text_line_ok ctx a lines its : encode_text_line ctx a lines = Ok its -> Forall sitem_ok its.
Proof.
  unfold encode_text_line. intro H. inv_bind H. destruct (last_opt x) as [[t rn]|]; [|discriminate].
  inv_bind H. inv_ok H. constructor; [|constructor]. cbn. eapply para_fmt_ok; eassumption.
Qed.

Lemma paras_of_ok l its : paras_of l = Ok its -> Forall sitem_ok its.
Proof.
  revert its; induction l as [|[t rn] l IH]; intros its H; cbn [paras_of] in H.
  - inv_ok H. constructor.
  - do 2 inv_bind H. inv_ok H. constructor; [cbn; eapply para_fmt_ok; eassumption|apply IH; assumption].
Qed.

Lemma encode_text_paragraph_ok ctx a lines its : encode_text_paragraph ctx a lines = Ok its -> Forall sitem_ok its.
Proof. unfold encode_text_paragraph. intro H. inv_bind H. eapply paras_of_ok; eassumption. Qed.

Lemma Forall_app2 {A} (P : A -> Prop) a b : Forall P a -> Forall P b -> Forall P (a ++ b).
Proof. intros; apply Forall_app; split; assumption. Qed.

(* ---- Pipeline: every render function produces structurally well-formed items ---- *)
Lemma render_textcomp_ok ctx o its : render_textcomp ctx o = Ok its -> Forall sitem_ok its.
Proof.
  unfold render_textcomp. destruct (text_shown o); intro H; [eapply encode_text_line_ok; eassumption|inv_ok H; constructor].
Qed.

Lemma subline_header_item_ok gv : Forall sitem_ok (subline_header_item gv).
Proof.
  unfold subline_header_item. destruct (subline_text gv); [constructor|].
  constructor; [|constructor]. cbn. unfold ctrl, ctrlz. repeat (apply Forall_cons; [apply HT; reflexivity|]). constructor.
Qed.

Lemma spanning_row_ok ctx s text col its : spanning_row ctx s text col = Ok its -> Forall sitem_ok its.
Proof.
  unfold spanning_row. intro H. do 21 inv_bind H. do 2 inv_bind H.
  do 4 inv_bind H. do 2 inv_bind H. inv_ok H.
  constructor; [|constructor]. cbn. split.
  - apply of_opt_ok in E27. exact (code_tokens_tl _ _ _ row_just_codes_simple E27).
  - constructor; [|constructor]. unfold scell_ok; cbn.
    assert (B : forall st b, (do code <- of_opt (code_tokens border_codes st) ValueErr;
                              Ok (Some {| bd_style := code; bd_w := default_border_width; bd_cf := None |})) = Ok b ->
                             bordT b).
    { intros st b Hb. inv_bind Hb. inv_ok Hb. cbn. apply of_opt_ok in E28.
      exact (code_tokens_tl _ _ _ border_codes_simple E28). }
    repeat split; try (eapply B; eassumption).
    + apply of_opt_ok in E26. exact (code_tokens_tl _ _ _ vert_codes_simple E26).
    + eapply para_fmt_ok; eassumption.
Qed.

Lemma top_headings_ok ctx s gv its : top_headings ctx s gv = Ok its -> Forall sitem_ok its.
Proof.
  revert its; induction gv as [|[k v] gv IH]; intros its H; cbn [top_headings] in H.
  - inv_ok H. constructor.
  - do 2 inv_bind H. inv_ok H. apply Forall_app2; [|apply IH; assumption].
    destruct v; try (eapply spanning_row_ok; eassumption). inv_ok E. constructor.
Qed.

Lemma boundary_headings_ok ctx s keys new last force its :
  boundary_headings ctx s keys new last force = Ok its -> Forall sitem_ok its.
Proof.
  revert force its; induction keys as [|k keys IH]; intros force its H; cbn [boundary_headings] in H.
  - inv_ok H. constructor.
  - destruct (lookup_val k new) as [v|]; [|eapply IH; eassumption].
    destruct v; try (eapply IH; eassumption).
    all: match type of H with (if ?c then _ else _) = _ => destruct c end; [|eapply IH; eassumption].
    all: do 2 inv_bind H; inv_ok H; apply Forall_app2; [eapply spanning_row_ok; eassumption|eapply IH; eassumption].
Qed.

Lemma render_segments_ok ctx s a cw rows bounds prev last its :
  render_segments ctx s a cw rows bounds prev last = Ok its -> Forall sitem_ok its.
Proof.
  revert prev last its; induction bounds as [|[rel gv] bounds IH]; intros prev last its H; cbn [render_segments] in H.
  - destruct (Nat.ltb prev (length rows)); [eapply table_encode_ok; eassumption|inv_ok H; constructor].
  - do 3 inv_bind H. inv_ok H. apply Forall_app2; [|apply Forall_app2].
    + destruct (Nat.ltb prev rel); [eapply table_encode_ok; eassumption|inv_ok E; constructor].
    + eapply boundary_headings_ok; eassumption.
    + eapply IH; eassumption.
Qed.

Lemma render_headers_ok ctx s p cols hs i its : render_headers ctx s p cols hs i = Ok its -> Forall sitem_ok its.
Proof.
  revert i its; induction hs as [|[h|] hs IH]; intros i its H; cbn [render_headers] in H.
  - inv_ok H. constructor.
  - do 2 inv_bind H. inv_ok H. apply Forall_app2; [|eapply IH; eassumption].
    match type of E with match ?t with _ => _ end = _ => destruct t end;
      [eapply table_encode_ok; eassumption|inv_ok E; constructor].
  - eapply IH; eassumption.
Qed.

Lemma render_tabletext_ok ctx t W border its : render_tabletext ctx t W border = Ok its -> Forall sitem_ok its.
Proof.
  unfold render_tabletext. intro H. destruct (tt_as_table t).
  - inv_bind H. eapply table_encode_ok; eassumption.
  - eapply encode_text_paragraph_ok; eassumption.
Qed.

Lemma render_page_ok ctx s pf cw rows pattrs p its :
  render_page ctx s pf cw rows pattrs p = Ok its -> Forall sitem_ok its.
Proof.
  unfold render_page. intro H. do 7 inv_bind H. inv_ok H.
  repeat apply Forall_app2.
  - destruct (pc_first p); constructor; [exact I|constructor].
  - destruct (should_show _ p); [eapply render_textcomp_ok; eassumption|inv_ok E; constructor].
  - destruct (should_show _ p); [eapply render_textcomp_ok; eassumption|inv_ok E0; constructor].
  - destruct (pc_subline p); [apply subline_header_item_ok|constructor].
  - match type of E1 with (if ?c then _ else _) = _ => destruct c end;
      [eapply render_headers_ok; eassumption|inv_ok E1; constructor].
  - destruct (pc_pbinfo p); [|inv_ok E2; constructor].
    destruct (spanning_enabled _); [eapply top_headings_ok; eassumption|inv_ok E2; constructor].
  - match type of E3 with (if ?c then _ else _) = _ => destruct c end;
      [eapply render_segments_ok; eassumption|eapply table_encode_ok; eassumption].
  - destruct (s_footnote s); [|inv_ok E4; constructor].
    match type of E4 with (if ?c then _ else _) = _ => destruct c end;
      [eapply render_tabletext_ok; eassumption|inv_ok E4; constructor].
  - destruct (s_source s); [|inv_ok E5; constructor].
    match type of E5 with (if ?c then _ else _) = _ => destruct c end;
      [eapply render_tabletext_ok; eassumption|inv_ok E5; constructor].
Qed.

Lemma render_pages_ok ctx s pf cw rows pattrs pages out :
  render_pages ctx s pf cw rows pattrs pages = Ok out -> Forall sitem_ok (concat out).
Proof.
  revert out; induction pages as [|p pages IH]; intros out H; cbn [render_pages] in H.
  - inv_ok H. constructor.
  - do 2 inv_bind H. inv_ok H. cbn [concat]. apply Forall_app2; [eapply render_page_ok; eassumption|apply IH; assumption].
Qed.

Lemma encode_section_ok ctx s out : encode_section ctx s = Ok out -> Forall sitem_ok (concat out).
Proof.
  unfold encode_section. intro H. inv_bind H. destruct x as [[[[pf pattrs] cw] pages] rows].
  eapply render_pages_ok; eassumption.
Qed.

Lemma multi_sections_ok ctx d n i l out : multi_sections ctx d n i l = Ok out -> Forall sitem_ok (concat out).
Proof.
  revert i out; induction l as [|[f b] l IH]; intros i out H; cbn [multi_sections] in H.
  - inv_ok H. constructor.
  - do 2 inv_bind H. inv_ok H. rewrite concat_app. apply Forall_app2; [eapply encode_section_ok; eassumption|eapply IH; eassumption].
Qed.

Lemma figure_pages_ok ctx d fg figs i n out : figure_pages ctx d fg figs i n = Ok out -> Forall sitem_ok (concat out).
Proof.
  revert i out; induction figs as [|[fmt data] figs IH]; intros i out H; cbn [figure_pages] in H.
  - inv_ok H. constructor.
  - do 7 inv_bind H. inv_ok H. cbn [concat]. apply Forall_app2; [|eapply IH; eassumption].
    apply Forall_app2; [match type of E with (if ?c then _ else _) = _ => destruct c end; [eapply render_textcomp_ok; eassumption|inv_ok E; constructor]|].
    apply Forall_app2; [match type of E0 with (if ?c then _ else _) = _ => destruct c end; [eapply render_textcomp_ok; eassumption|inv_ok E0; constructor]|].
    cbn [app]. constructor.
    { cbn. unfold encode_single_figure.
      destruct (match image_dims fmt data with Some d0 => d0 | None => _ end) as [pw ph]. cbn.
      unfold align_tokens, blip_tokens, ctrl.
      split; repeat match goal with |- context [if ?c then _ else _] => destruct c end;
        (apply Forall_cons; [apply HT; reflexivity|constructor]). }
    apply Forall_app2.
    { destruct (d_footnote d); [|inv_ok E3; constructor].
      match type of E3 with (if ?c then _ else _) = _ => destruct c end;
        [eapply render_tabletext_ok; eassumption|inv_ok E3; constructor]. }
    apply Forall_app2.
    { destruct (d_source d); [|inv_ok E4; constructor].
      match type of E4 with (if ?c then _ else _) = _ => destruct c end;
        [eapply render_tabletext_ok; eassumption|inv_ok E4; constructor]. }
    match goal with |- context [if ?c then [] else _] => destruct c end; constructor; [exact I|constructor].
Qed.

Theorem document_pages_ok ctx d pages : document_pages ctx d = Ok pages -> Forall sitem_ok (concat pages).
Proof.
  unfold document_pages. destruct (d_content d) as [f b|l|fg]; intro H.
  - eapply encode_section_ok; eassumption.
  - eapply multi_sections_ok; eassumption.
  - eapply figure_pages_ok; eassumption.
Qed.
End Walk.

(* ---- instance 1: no braces ---- *)
Definition nobrace (t : tok) : Prop := t <> TOpen /\ t <> TClose.
Lemma nobrace_ctrl n p : nonempty_lower n = true -> nobrace (TCtrl n p).
Proof. intros _. split; discriminate. Qed.

Definition runs_of (i : item) : list run :=
  match i with
  | IRow r => map ce_run (rw_cells r)
  | IPara _ rs => rs
  | _ => []
  end.
Definition bodies_ok (its : list item) : Prop := Forall run_ok (flat_map runs_of its).

Lemma item_ok_of i : sitem_ok nobrace i -> Forall run_ok (runs_of i) -> item_ok i.
Proof.
  destruct i as [r|pf rs|g|p|]; cbn [sitem_ok runs_of item_ok]; try tauto.
  intros [Hj Hc] Hr. split; [exact Hj|].
  induction (rw_cells r) as [|c cs IH]; [constructor|].
  inversion Hc; subst. inversion Hr; subst. constructor; [|apply IH; assumption].
  destruct H1 as (a & b & c0 & d & e & f). repeat split; assumption.
Qed.

Lemma items_ok_of its : Forall (sitem_ok nobrace) its -> bodies_ok its -> Forall item_ok its.
Proof.
  unfold bodies_ok. induction its as [|i its IH]; intros Hs Hb; [constructor|].
  inversion Hs; subst. cbn [flat_map] in Hb. apply Forall_app in Hb as [Hb1 Hb2].
  constructor; [apply item_ok_of; assumption|apply IH; assumption].
Qed.

(* ---- canon keeps the one-group structure ---- *)
Lemma canon_one_group d ts : one_group_from d ts = true -> one_group_from d (canon ts) = true.
Proof.
  revert d; induction ts as [|t ts IH]; intros d H; [exact H|].
  destruct t as [| |n p|c|a].
  - cbn [canon]. rewrite ogf_open in *. apply IH. exact H.
  - cbn [canon]. destruct ts as [|t2 ts2]; [exact H|].
    remember (t2 :: ts2) as r eqn:Er.
    assert (Hr : r <> []) by (subst r; discriminate).
    destruct d as [|[|d']]; try (cbn in H; subst r; discriminate H).
    rewrite ogf_close in H by exact Hr. specialize (IH _ H).
    destruct (canon r) as [|c2 cr] eqn:Ec; [cbn in IH; discriminate|].
    rewrite ogf_close by discriminate. exact IH.
  - cbn [canon]. rewrite ogf_ctrl in *. apply andb_prop in H as [H1 H2]. rewrite H1. cbn [andb]. apply IH. exact H2.
  - cbn [canon]. rewrite ogf_sym in *. apply andb_prop in H as [H1 H2]. rewrite H1. cbn [andb]. apply IH. exact H2.
  - rewrite ogf_text in H. apply andb_prop in H as [H1 H2]. specialize (IH _ H2).
    cbn [canon]. destruct a as [|x a]; [exact IH|].
    destruct (canon ts) as [|c2 cr] eqn:Ec.
    + cbn in IH. discriminate.
    + destruct c2; try (rewrite ogf_text, H1; cbn [andb]; exact IH).
      rewrite ogf_text in IH. apply andb_prop in IH as [_ IH]. rewrite ogf_text, H1. exact IH.
Qed.

(* ---- the preamble ---- *)
Lemma font_table_neutral : neutral font_table_tokens.
Proof. vm_compute. reflexivity. Qed.

Lemma color_table_neutral used : neutral (color_table_tokens used).
Proof.
  unfold color_table_tokens. destruct (negb _); [reflexivity|].
  change ([TOpen; ctrl "colortbl"; TText [59%N]] ++ ?x ++ [TClose]) with (TOpen :: ([ctrl "colortbl"; TText [59%N]] ++ x) ++ [TClose]).
  apply neutral_group. apply neutral_app; [reflexivity|].
  apply neutral_flat_map. apply Forall_forall. intros [nm [idx [[r g] b]]] _. reflexivity.
Qed.

Lemma page_settings_neutral pg : neutral (page_settings_tokens pg).
Proof.
  unfold page_settings_tokens. cbn [app]. apply (neutral_cons_ctrl (s2l "paperw") (Some (g_w (geom_of pg)))), (neutral_cons_ctrl (s2l "paperh") (Some (g_h (geom_of pg)))).
  apply neutral_app; [destruct (p_landscape pg); reflexivity|apply emit_margins_neutral].
Qed.

Definition comp_bodies_ok (ctx : option (list str)) (o : option textcomp) : Prop :=
  match text_shown o with
  | Some t => forall its, encode_text_line ctx (tc_attrs t) (opt_list (tc_text t)) = Ok its -> bodies_ok its
  | None => True
  end.

Lemma header_footer_neutral ctx name o ts :
  comp_bodies_ok ctx o -> header_footer_tokens ctx name o = Ok ts -> neutral ts.
Proof.
  unfold header_footer_tokens, comp_bodies_ok. destruct (text_shown o) as [t|]; intros Hb H.
  - inv_bind H. inv_ok H.
    change ([TOpen; ctrl name] ++ emit_items x ++ [TClose]) with (TOpen :: (ctrl name :: emit_items x) ++ [TClose]).
    apply neutral_group. apply (neutral_cons_ctrl (s2l name) None). apply emit_items_neutral.
    apply items_ok_of; [eapply (encode_text_line_ok nobrace nobrace_ctrl); eassumption|apply Hb; exact E].
  - inv_ok H. reflexivity.
Qed.

(* ---- C01, document level ---- *)
Lemma wrap_doc P B : neutral P -> neutral B -> one_group ((doc_start ++ P) ++ B ++ [TClose]) = true.
Proof.
  intros HP HB. unfold doc_start. cbn [app]. rewrite (app_assoc P B [TClose]).
  apply (one_group_wrap (ctrlz "rtf" 1 :: ctrl "ansi" :: ctrlz "deff" 0 :: ctrlz "deflang" 1033 :: P ++ B)).
  apply (neutral_cons_ctrl (s2l "rtf") (Some 1%Z)), (neutral_cons_ctrl (s2l "ansi") None),
        (neutral_cons_ctrl (s2l "deff") (Some 0%Z)), (neutral_cons_ctrl (s2l "deflang") (Some 1033%Z)).
  apply neutral_app; assumption.
Qed.

Lemma starts_doc P : starts_rtf (canon (doc_start ++ P)) = true.
Proof. reflexivity. Qed.

Theorem encode_one_group ctx d ts :
  encode_with ctx d = Ok ts ->
  (forall pages, document_pages ctx d = Ok pages -> bodies_ok (concat pages)) ->
  comp_bodies_ok ctx (d_page_header d) -> comp_bodies_ok ctx (d_page_footer d) ->
  starts_rtf ts = true /\ one_group ts = true.
Proof.
  unfold encode_with. intros H Hb Hh Hf. do 2 inv_bind H. inv_ok H.
  unfold preamble in E0. do 2 inv_bind E0. inv_ok E0.
  split.
  - reflexivity.
  - unfold one_group. apply canon_one_group.
    apply (wrap_doc (font_table_tokens ++ color_table_tokens (collect_colors d) ++ x1 ++ x2 ++ page_settings_tokens (d_page d))
                    (emit_items (concat x))).
    + apply neutral_app; [apply font_table_neutral|].
      apply neutral_app; [apply color_table_neutral|].
      apply neutral_app; [exact (header_footer_neutral _ _ _ _ Hh E1)|].
      apply neutral_app; [exact (header_footer_neutral _ _ _ _ Hf E2)|apply page_settings_neutral].
    + apply emit_items_neutral. apply items_ok_of; [eapply (document_pages_ok nobrace nobrace_ctrl); eassumption|apply Hb; exact E].
Qed.

(* a boolean form of the text-domain hypothesis, for examples *)
Definition neutralb (ts : list tok) : bool := match depth 0 ts with Some 0 => true | _ => false end.
Definition bodies_okb (its : list item) : bool := all_b (fun r => neutralb (rn_body r)) (flat_map runs_of its).

Lemma bodies_okb_ok its : bodies_okb its = true -> bodies_ok its.
Proof.
  unfold bodies_okb, bodies_ok. induction (flat_map runs_of its) as [|r rs IH]; cbn [all_b]; intro H; [constructor|].
  apply andb_prop in H as [H1 H2]. constructor; [|apply IH; exact H2].
  unfold run_ok, neutral, neutralb in *. destruct (depth 0 (rn_body r)) as [[|n]|]; try discriminate. reflexivity.
Qed.
