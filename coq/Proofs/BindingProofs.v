(* C09 composed: on every page, the attribute read for page row i, displayed column j is the user's attribute at
   table row (start + i), original column of j - through column slicing AND per-page re-basing. *)
From Coq Require Import List NArith ZArith Bool Arith Lia.
From V Require Import Str Doc Broadcast Paginate Pipeline BroadcastProofs.
Import ListNotations.
Local Open Scope nat_scope.

(* iloc only looks at one row; two rectangular matrices of the same width agree where their rows agree *)
Lemma iloc_row_eq {A} (m1 m2 : mat A) W r1 r2 c :
  m1 <> [] -> m2 <> [] -> rect m1 W -> rect m2 W ->
  nth_error m1 (r1 mod length m1) = nth_error m2 (r2 mod length m2) ->
  iloc m1 r1 c = iloc m2 r2 c.
Proof.
  intros H1 H2 R1 R2 E. unfold iloc.
  destruct m1 as [|a m1]; [congruence|]. destruct m2 as [|b m2]; [congruence|].
  assert (La : length a = W) by (inversion R1; assumption).
  assert (Lb : length b = W) by (inversion R2; assumption).
  rewrite La, Lb. destruct W; [reflexivity|]. rewrite E. reflexivity.
Qed.

Lemma sliced_rect {A} (v : mat A) n cols C rem :
  0 < C -> rect v C -> rect (map (drop_idx rem) (to_list v n cols)) (length (kept rem 0 cols)).
Proof.
  intros HC Hr. unfold rect. apply Forall_forall. intros row Hin.
  apply in_map_iff in Hin as (r0 & <- & Hr0).
  assert (H : length r0 = cols) by (eapply to_list_row_length; [exact HC|exact Hr|exact Hr0]).
  clear -H. unfold drop_idx. revert H. generalize 0 as i. revert cols.
  induction r0 as [|x r0 IH]; intros cols i H; cbn in H; subst cols; cbn [drop_idx_from kept seq filter length]; [reflexivity|].
  destruct (existsb (Nat.eqb i) rem); cbn [negb length]; [apply (IH (length r0) (S i) eq_refl)|].
  f_equal. apply (IH (length r0) (S i) eq_refl).
Qed.

Lemma rebase_rect {A} start h (v m : mat A) W : rect v W -> rebase start h (Some v) = Some m -> rect m W.
Proof.
  intros Hr H. unfold rebase in H. destruct v as [|a [|b v']]; try (inversion H; subst; exact Hr).
  inversion H; subst. clear H. unfold rect in *. apply Forall_forall. intros row Hin.
  apply in_flat_map in Hin as (i & _ & Hi).
  match type of Hi with In _ (match ?e with _ => _ end) => destruct e as [r|] eqn:E end; [|contradiction].
  destruct Hi as [<-|[]]. rewrite Forall_forall in Hr. apply Hr. eapply nth_error_In. exact E.
Qed.

Lemma rebase_length {A} start h (v m : mat A) : 2 <= length v -> rebase start h (Some v) = Some m -> length m = h.
Proof.
  intros Hv H.
  assert (G : forall i, i < h -> nth_error m i <> None).
  { intros i Hi. pose proof (rebase_row start h v i Hv Hi) as R. rewrite H in R. rewrite R.
    apply nth_error_Some. apply Nat.mod_upper_bound. lia. }
  assert (L : length m <= h).
  { unfold rebase in H. destruct v as [|a [|b v']]; cbn [length] in Hv; try lia.
    injection H as <-. rewrite <- (seq_length h 0) at 2. generalize (seq 0 h) as l. clear.
    induction l as [|x l IH]; [reflexivity|].
    cbn [flat_map length]. rewrite app_length. destruct (nth_error _ _); cbn [length]; lia. }
  destruct (Nat.eq_dec (length m) h) as [E|E]; [exact E|]. exfalso.
  assert (Hlt : length m < h) by lia. apply (G (length m) Hlt). apply nth_error_None. lia.
Qed.

(* the composed binding *)
Theorem page_binding {A} (v : mat A) n cols C rem start h i j k :
  v <> [] -> 0 < C -> rect v C -> start + i < n -> i < h ->
  nth_error (kept rem 0 cols) j = Some k ->
  get (rebase start h (slice_cols n cols rem (Some v))) i j = get (Some v) (start + i) k.
Proof.
  intros Hv HC Hr Hn Hi Hk. unfold slice_cols.
  set (m := map (drop_idx rem) (to_list v n cols)).
  change (Some m) with (@Some (mat A) m).
  assert (Hm : length m = n) by (unfold m; rewrite map_length; apply to_list_rows; exact Hv).
  assert (Hmr : rect m (length (kept rem 0 cols))) by (apply sliced_rect with (C := C); assumption).
  assert (Hmne : m <> []) by (intro X; rewrite X in Hm; cbn in Hm; lia).
  assert (Hbase : iloc m (start + i) j = iloc v (start + i) k) by (unfold m; eapply slice_binding; eassumption).
  destruct (Nat.le_gt_cases (length m) 1) as [Hs|Hl].
  - rewrite (rebase_small start h m Hs). cbn [get].
    assert (start = 0 /\ i = 0) as [-> ->] by lia. cbn [Nat.add] in *. rewrite Hbase. reflexivity.
  - destruct (rebase start h (@Some (mat A) m)) as [rm|] eqn:Er.
    2:{ unfold rebase in Er. destruct m as [|a [|b m']]; discriminate. }
    pose proof (rebase_row start h m i ltac:(lia) Hi) as Hrow. rewrite Er in Hrow.
    pose proof (rebase_length start h m rm ltac:(lia) Er) as Hlen.
    pose proof (rebase_rect start h m rm _ Hmr Er) as Hrr.
    assert (Hrne : rm <> []) by (intro X; rewrite X in Hlen; cbn in Hlen; lia).
    cbn [get].
    rewrite (iloc_row_eq rm m (length (kept rem 0 cols)) i (start + i) j Hrne Hmne Hrr Hmr).
    + rewrite Hbase. reflexivity.
    + rewrite Hlen, (Nat.mod_small i h Hi), Hrow. reflexivity.
Qed.

(* the page's attribute record: every attribute except the top / bottom border styles is the re-based, column-sliced
   user attribute (the border post-processing of C07 touches border_top / border_bottom only) *)
Lemma process_page_fields s pattrs p w :
  pc_len p <> 0 ->
  let a := pb_attrs (process_page s pattrs p w) in
  let r := rebase_attrs (pc_slice_start p) (pc_len p) pattrs in
  a_font a = a_font r /\ a_format a = a_format r /\ a_size a = a_size r /\ a_color a = a_color r /\ a_bg a = a_bg r
  /\ a_just a = a_just r /\ a_ifirst a = a_ifirst r /\ a_ileft a = a_ileft r /\ a_iright a = a_iright r
  /\ a_space a = a_space r /\ a_sb a = a_sb r /\ a_sa a = a_sa r /\ a_hyph a = a_hyph r /\ a_conv a = a_conv r
  /\ a_bl a = a_bl r /\ a_br a = a_br r /\ a_bcl a = a_bcl r /\ a_bcr a = a_bcr r /\ a_bct a = a_bct r /\ a_bcb a = a_bcb r
  /\ a_bw a = a_bw r /\ a_ch a = a_ch r /\ a_cj a = a_cj r /\ a_cvj a = a_cvj r.
Proof.
  intro H. cbv zeta. unfold process_page. destruct (pc_len p); [congruence|]. cbn. repeat split.
Qed.

(* and re-basing a page that starts at table row 0 changes nothing *)
Lemma rebase_attrs_zero h a : rebase_attrs 0 h a = a.
Proof. reflexivity. Qed.
