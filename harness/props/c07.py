"""C07: table edges are closed by the documented border hierarchy on every page."""
import gen

from . import common

TRUSTED = ["C07 predicate check_c07 (Model/Checks.v): border styles of the first / last table row of the document and of every page, read back from the output; clause 5 compares the four border styles of every other data-cell edge with the body attributes at the cell's original position"]
ASSUMPTIONS = ["page_by without column headers is excluded for the top-edge clause, as the quantifier says"]

STYLES = ["single", "double", "thick", "dotted", "dashed"]


def directed():
    """Pages of one data row followed by fuller pages, with per-column / scalar user borders and no column removal: the first
    page holds a k-line title, so nrow = k + 2 leaves room for one data row there and k + 1 on later pages."""
    out = []
    for k in (1, 2, 3):
        for ncol, sides in ((3, ("bottom",)), (3, ("top",)), (1, ()), (2, ("top", "bottom"))):
            cols = ["id"] + [f"c{j}" for j in range(ncol - 1)]
            rows = [[f"#{i}#"] + ["x"] * (ncol - 1) for i in range(2 * k + 4)]
            body = {"border_first": "double", "border_last": "thick"}
            for side in sides:
                body[f"border_{side}"] = [[["dotted", "", "dashed"][j % 3] for j in range(ncol)]]
            out.append({"df": {"cols": cols, "rows": rows}, "body": body,
                        "page": {"nrow": k + 2, "border_first": "single", "border_last": "double", "page_title": "first"},
                        "title": {"text": [f"T{j} title" for j in range(k)]},
                        "kind": "single", "strategy": "plain", "header_mode": "default"})
    # one-row groups on their own page ahead of larger ones, the group column kept in the table
    for ncol in (1, 2):
        cols = ["id", "g0"] + [f"c{j}" for j in range(ncol - 1)]
        groups = ["@A1", "@A2", "@A2", "@A2", "@A3", "@A4", "@A4"]
        rows = [[f"#{i}#", gv] + ["x"] * (ncol - 1) for i, gv in enumerate(groups)]
        out.append({"df": {"cols": cols, "rows": rows},
                    "body": {"page_by": ["g0"], "new_page": True, "border_bottom": [["dotted"] + [""] * ncol],
                             "border_first": "double", "border_last": "thick"},
                    "page": {"nrow": 10, "border_first": "single", "border_last": "double"},
                    "kind": "single", "strategy": "page_by", "header_mode": "default"})
    return out


_DIRECTED = directed()


def generate(g, i):
    if i < len(_DIRECTED):
        return _DIRECTED[i]
    r = g.r
    strategy = r.choice(["plain", "plain", "page_by", "subline"])
    nrows = r.choice([1, 2, 3, 5, 8, 14])
    spec = g.single(strategy=strategy, nrows=nrows)
    spec["page"]["nrow"] = r.choice([2, 3, 4, 6, 40])
    spec["page"]["border_first"] = r.choice(STYLES)
    spec["page"]["border_last"] = r.choice(STYLES)
    body = spec["body"]
    body["border_first"] = r.choice(STYLES)
    body["border_last"] = r.choice(STYLES)
    ncol = len(spec["df"]["cols"])
    for side in ("top", "bottom"):
        body.pop(f"border_{side}", None)
        if r.random() < 0.4:
            body[f"border_{side}"] = gen.shape_value(r, nrows, ncol, lambda: r.choice(["", "single", "dotted"]))
    g2 = gen.DocGen(r.randrange(1 << 30))
    for name, tag in (("footnote", "F"), ("source", "R")):
        k = r.random()
        if k < 0.33:
            spec.pop(name, None)
        else:
            c = g2.table_text(tag)
            c["as_table"] = k < 0.66
            spec[name] = c
    for k in ("page_title", "page_footnote", "page_source"):
        spec["page"][k] = r.choice(["first", "last", "all"])
    return spec


def signature(spec, result):
    """Known finding C07-border-top-override: clause 4 with a per-column rtf_body.border_top whose entry is non-empty."""
    if result.get("clause") != "4":
        return None
    bt = spec.get("body", {}).get("border_top")
    bf = spec.get("body", {}).get("border_first", "single")
    if isinstance(bt, list) and bt and isinstance(bt[0], list) and len(bt[0]) > 1 and any(x for x in bt[0]):
        first = bf if isinstance(bf, str) else (bf[0][0] if bf and isinstance(bf[0], list) else bf[0])
        if any(x and x != first for x in bt[0]) and not (isinstance(bf, list) and bf and isinstance(bf[0], list) and len(bf[0]) >= len(bt[0])):
            return "c07-border-top-override"
    return None


def run(ctx):
    return common.run_docprop(ctx, "c07", generate, signature, n_quick=180 + len(_DIRECTED), n_thorough=3000 + len(_DIRECTED))
