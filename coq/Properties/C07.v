(* C07 — table edges are closed by the documented border hierarchy on every page.
   Model: Pipeline.process_page (port of PageFeatureProcessor._apply_pagination_borders after the two
   repairs).  For ALL sections, page contexts and attribute matrices (well-shaped = non-empty,
   rectangular):
     C07_page_last / C07_doc_last   when no table-rendered footnote/source is shown on the page, every
                      cell of the page's LAST data row gets the closing style at its bottom — the style
                      being rtf_body.border_last on a non-last page and rtf_page.border_last on the last;
     C07_component    when a table-rendered footnote/source is shown there, the style goes to that
                      component instead (the source when it is a table, else the footnote);
     C07_doc_first    first page without a rendered column header: rtf_page.border_first on top of the
                      first data row;
     C07_page_first   every other page start: rtf_body.border_first (as body_border_first_style reads it);
     C07_matrix       the matrix mechanics: update_cell sets exactly one cell of the (broadcast) grid.
     C07_interior_top / C07_interior_bottom / C07_sides_untouched   (Proofs/InteriorProofs.v) every other edge: the top edge
                      of page row r > 0 and the bottom edge of page row r < h-1 hold the user's border_top / border_bottom of
                      original row pc_slice_start + r; left / right styles, all border colours and widths are the re-based
                      attributes untouched.
   Known finding C07-border-top-override: body_border_first_style lets a non-empty
   per-column rtf_body.border_top replace border_first (witness below); the header row's own top border
   (renderer) is covered by the differential check only. *)
From Coq Require Import Ascii String.
From Coq Require Import List NArith ZArith QArith Bool Arith.
From V Require Import Str Num Tok Items Doc Broadcast Encode Paginate Pipeline BroadcastProofs BorderProofs InteriorProofs.
Import ListNotations.
Local Open Scope string_scope.
Local Open Scope list_scope.
Local Open Scope nat_scope.

Theorem C07_last_row : forall s pattrs p w st c,
  0 < pc_len p -> c < w -> closing_style s p = Some st -> closed_by_component s p = false ->
  wellshaped (or_blank (a_bb (rebase_attrs (pc_slice_start p) (pc_len p) pattrs)) (pc_len p) w) ->
  match a_bb (pb_attrs (process_page s pattrs p w)) with Some m => iloc m (pc_len p - 1) c | None => None end = Some st.
Proof. exact last_row_closed. Qed.
Print Assumptions C07_last_row.

Theorem C07_component : forall s pattrs p w st,
  0 < pc_len p -> closing_style s p = Some st -> closed_by_component s p = true ->
  (tt_shown (s_source s) (p_source (s_page s)) p && tt_is_table (s_source s) = true
     -> pb_source (process_page s pattrs p w) = Some st)
  /\ (tt_shown (s_source s) (p_source (s_page s)) p && tt_is_table (s_source s) = false
     -> pb_footnote (process_page s pattrs p w) = Some st).
Proof. exact component_closed. Qed.

Theorem C07_doc_first : forall s pattrs p w st c,
  0 < pc_len p -> c < w -> pc_first p = true ->
  renders_column_header (s_headers s) (b_as_colheader (s_body s)) = false ->
  p_border_first (s_page s) = Some st -> st <> [] ->
  wellshaped (or_blank (a_bt (rebase_attrs (pc_slice_start p) (pc_len p) pattrs)) (pc_len p) w) ->
  match a_bt (pb_attrs (process_page s pattrs p w)) with Some m => iloc m 0 c | None => None end = Some st.
Proof. exact top_row_page_first. Qed.
Print Assumptions C07_doc_first.

Theorem C07_page_first : forall s pattrs p w c,
  0 < pc_len p -> c < w ->
  (pc_first p = false \/ renders_column_header (s_headers s) (b_as_colheader (s_body s)) = true) ->
  match a_bfirst (b_attrs (s_body s)) with Some (_ :: _) => true | _ => false end = true ->
  wellshaped (or_blank (a_bt (rebase_attrs (pc_slice_start p) (pc_len p) pattrs)) (pc_len p) w) ->
  match a_bt (pb_attrs (process_page s pattrs p w)) with Some m => iloc m 0 c | None => None end
  = Some (match body_border_first_style (b_attrs (s_body s)) c with Some x => x | None => [] end).
Proof. exact top_row_body_first. Qed.

Theorem C07_matrix : forall (A : Type) (v : mat A) h w C r c x,
  v <> [] -> 0 < C -> rect v C -> r < h -> c < w ->
  iloc (update_cell v h w r c x) r c = Some x
  /\ forall r' c', r' < h -> c' < w -> (r', c') <> (r, c) -> iloc (update_cell v h w r c x) r' c' = iloc v r' c'.
Proof.
  intros A v h w C r c x Hv HC Hr Hrh Hcw. split.
  - eapply update_cell_same; eassumption.
  - intros r' c' H1 H2 H3. eapply update_cell_other; eassumption.
Qed.
Print Assumptions C07_matrix.

(* the last sentence of the property: every data-cell edge that is not one of the boundary edges above carries the user's
   value of the cell's original row (pattrs: the section's attributes already cut to the w displayed columns;
   pc_slice_start p: index of the page's first row in the section) *)
Theorem C07_interior_top : forall s pattrs p w v r c,
  a_bt pattrs = Some v -> v <> [] -> rect v w -> 0 < r -> r < pc_len p -> c < w ->
  match a_bt (pb_attrs (process_page s pattrs p w)) with Some m => iloc m r c | None => None end
  = iloc v (pc_slice_start p + r) c.
Proof. exact interior_top_user. Qed.
Print Assumptions C07_interior_top.

Theorem C07_interior_bottom : forall s pattrs p w v r c,
  a_bb pattrs = Some v -> v <> [] -> rect v w -> r < pc_len p - 1 -> c < w ->
  match a_bb (pb_attrs (process_page s pattrs p w)) with Some m => iloc m r c | None => None end
  = iloc v (pc_slice_start p + r) c.
Proof. exact interior_bottom_user. Qed.
Print Assumptions C07_interior_bottom.

Theorem C07_sides_untouched : forall s pattrs p w,
  0 < pc_len p ->
  let a := pb_attrs (process_page s pattrs p w) in
  let a0 := rebase_attrs (pc_slice_start p) (pc_len p) pattrs in
  a_bl a = a_bl a0 /\ a_br a = a_br a0 /\ a_bcl a = a_bcl a0 /\ a_bcr a = a_bcr a0
  /\ a_bct a = a_bct a0 /\ a_bcb a = a_bcb a0 /\ a_bw a = a_bw a0.
Proof. exact sides_untouched. Qed.
Print Assumptions C07_sides_untouched.

(* known finding, witnessed on the model: a per-column border_top replaces border_first *)
Example C07_refuted_border_top_override :
  exists a c, a_bfirst a = Some [[s2l "single"]]
              /\ body_border_first_style a c = Some (s2l "dotted").
Proof.
  exists {| a_font := None; a_format := None; a_size := None; a_color := None; a_bg := None; a_just := None;
            a_ifirst := None; a_ileft := None; a_iright := None; a_space := None; a_sb := None; a_sa := None;
            a_hyph := None; a_conv := None; a_crw := None; a_bl := None; a_br := None;
            a_bt := Some [[s2l "single"; s2l "dotted"]]; a_bb := None;
            a_bfirst := Some [[s2l "single"]]; a_blast := None; a_bcl := None; a_bcr := None; a_bct := None;
            a_bcb := None; a_bcfirst := None; a_bclast := None; a_bw := None; a_ch := None; a_cj := None;
            a_cvj := None |}, 1.
  split; reflexivity.
Qed.
