"""C13: group_by blanks only true repeats and restores context on each page."""
import itertools
import random

from . import common

TRUSTED = ["C13 predicate check_c13 (Model/Checks.v): blank-iff-repeat rule stated on key tuples, independent of the model's GroupBy port"]
ASSUMPTIONS = ["group values are plain strings or null"]

ALPHA = ["@A", "@B", "@C", None]


def make_spec(r, keys_cols, nrow, extra=None, headers=True):
    """keys_cols: list of per-level value lists (same length n)."""
    n = len(keys_cols[0]) if keys_cols else 0
    L = len(keys_cols)
    cols = ["id"] + [f"k{l}" for l in range(L)] + ["c0"]
    body = {"group_by": [f"k{l}" for l in range(L)]}
    extra_vals = None
    if extra == "page_by":
        cols.append("g0")
        body["page_by"] = ["g0"]
        if r.random() < 0.5:
            body["new_page"] = True
    elif extra == "subline":
        cols.append("s0")
        body["subline_by"] = ["s0"]
    if extra:
        # contiguous runs for the extra grouping column
        extra_vals = []
        k = 0
        for i in range(n):
            if i > 0 and r.random() < 0.3:
                k += 1
            extra_vals.append(f"@G{k}")
    order = cols[:]
    r.shuffle(order)
    rows = []
    for i in range(n):
        vals = {"id": f"#{i}#", "c0": r.choice(["x", "y", "12", ""])}
        for l in range(L):
            vals[f"k{l}"] = keys_cols[l][i]
        if extra == "page_by":
            vals["g0"] = extra_vals[i]
        if extra == "subline":
            vals["s0"] = extra_vals[i]
        rows.append([vals[c] for c in order])
    spec = {"df": {"cols": order, "rows": rows}, "body": body, "page": {"nrow": nrow}, "kind": "single",
            "strategy": "group_by" + ("+" + extra if extra else "")}
    if not headers:
        spec["headers"] = []
    return spec


def random_keys(r, n, L, contiguous=True, nulls=True):
    """Hierarchical runs: level l changes only inside a run of level l-1 (plus occasional violations)."""
    alpha = ALPHA if nulls else ALPHA[:3]
    cols = [[] for _ in range(L)]

    def fill(level, count):
        if level == L:
            return
        left = count
        used = []
        while left > 0:
            run = min(left, r.randint(1, max(1, count)))
            choices = [a for a in alpha if a not in used] if contiguous else alpha
            if not choices:
                choices = [f"@Z{len(used)}"]
            v = r.choice(choices)
            used.append(v)
            cols[level].extend([v] * run)
            fill(level + 1, run)
            left -= run

    fill(0, n)
    return cols


def generate(g, i):
    r = g.r
    n = r.choice([1, 2, 3, 4, 5, 6, 8, 12, 20, 40, 60])
    L = r.choice([1, 1, 2, 3])
    contiguous = r.random() < 0.85
    keys = random_keys(r, n, L, contiguous)
    extra = r.choice([None, None, "page_by", "subline"])
    return make_spec(r, keys, r.randint(2, 7), extra, headers=r.random() < 0.7)


def exhaustive(seed, maxlen):
    r = random.Random(seed)
    out = []
    for n in range(1, maxlen + 1):
        for seq in itertools.product(range(len(ALPHA)), repeat=n):
            keys = [[ALPHA[k] for k in seq]]
            out.append((f"ex1_{''.join(map(str, seq))}", make_spec(r, keys, r.choice([2, 3, 4]), None, headers=False)))
    # two levels over a 2-letter alphabet + null
    A2 = ["@A", "@B", None]
    for n in range(1, min(maxlen, 4) + 1):
        for s0 in itertools.product(range(3), repeat=n):
            for s1 in itertools.product(range(3), repeat=n):
                keys = [[A2[k] for k in s0], [A2[k] for k in s1]]
                out.append((f"ex2_{''.join(map(str, s0))}_{''.join(map(str, s1))}", make_spec(r, keys, r.choice([2, 3]), None, headers=False)))
    return out


def three_levels(seed, thorough):
    """Three group_by levels: every 2-row pattern (and, thorough, every 3-row pattern) over {A,B} per level whose first row is
    (A,A,A) -- the shapes in which an outer level changes while the inner levels repeat -- run on every seed."""
    r = random.Random(seed + 3)
    A2 = ["@A", "@B"]
    out = []
    for n in ((2, 3) if thorough else (2,)):
        for rest in itertools.product(itertools.product(range(2), repeat=3), repeat=n - 1):
            rows = [(0, 0, 0)] + list(rest)
            keys = [[A2[t[l]] for t in rows] for l in range(3)]
            name = "ex3_" + "_".join("".join(map(str, t)) for t in rows)
            out.append((name, make_spec(r, keys, 5, None, headers=False)))
    if thorough:
        A3 = ["@A", "@B", None]
        for t in itertools.product(range(3), repeat=3):
            for u in itertools.product(range(3), repeat=3):
                keys = [[A3[t[l]], A3[u[l]]] for l in range(3)]
                out.append((f"ex3n_{''.join(map(str, t))}_{''.join(map(str, u))}", make_spec(r, keys, 5, None, headers=False)))
    return out


def run(ctx):
    res = common.run_docprop(ctx, "c13", generate, None, n_quick=170, n_thorough=2000)
    if ctx.get("replay"):
        return res
    ex = exhaustive(ctx["seed"], 4 if ctx["tier"] == "quick" else 6)
    if ctx["tier"] == "quick":
        r = random.Random(ctx["seed"])
        ex = r.sample(ex, 242)
    ex = three_levels(ctx["seed"], ctx["tier"] != "quick") + ex
    stats = {}
    bad = 0
    for lo in range(0, len(ex), 300):
        for rec in common.evaluate("c13", ex[lo:lo + 300]):
            cls = common.classify(rec)
            stats[cls] = stats.get(cls, 0) + 1
            if cls in ("holds", "corr", "build", "harness") and bad < 3:
                bad += 1
                res["failures"].append(common.make_failure(ctx, "c13", rec, cls, None, None, 100))
    res["coverage"]["exhaustive_core"] = {
        "cases": len(ex), "outcomes": stats, "exhaustive": ctx["tier"] == "thorough",
        "space": "all key sequences over {A,B,C,null} of length <= 6 (1 level) and over {A,B,null}^2 of length <= 4 (2 levels), all 2- and 3-row sequences over {A,B}^3 starting (A,A,A) and all 2-row sequences over {A,B,null}^3 (3 levels); quick tier: the eight 2-row 3-level patterns plus a sample of 242 of the length<=4 space"}
    res["coverage"]["evaluations"] += len(ex)
    return res
