"""C14: encoding is a pure function of the document (histories vs a fresh process)."""
import collections
import itertools
import json
import os
import random
import subprocess
from concurrent.futures import ThreadPoolExecutor

import hist
import rt

from . import common

LEVEL = "proof"
TRUSTED = ["Model/Ctx.v models the colour context as the only process state the encoder reads; StrategyRegistry (idempotent class-level "
           "registration), object aliasing between documents and any state of the string-width measurement (font objects, caches) are not in the "
           "Gallina model: they are covered by the history runs only (pool documents 15-17: one frame measured in two sizes and two fonts)",
           "harness/hist.py: history interpreter, fresh-process worker, context recorder (monkey-patched from outside /repo)"]
ASSUMPTIONS = ["histories are executed exactly as quantified (<= 4 prior operations from a fresh interpreter) and then extended by up to 3 target "
               "encodes in the same process; every encode in the log is compared with the fresh-process baseline of its document",
               "the pool is the fixed 18-document pool of harness/hist.py (figure varies with the seed)"]

WORKER = os.path.join(rt.VERIF, "harness", "hist.py")


def worker(req, hashseed="0"):
    env = dict(os.environ, PYTHONPATH="/repo/src", PYTHONHASHSEED=hashseed)
    p = subprocess.run(["/venv/bin/python", WORKER], input=json.dumps(req), capture_output=True, text=True, env=env, timeout=600)
    if p.returncode != 0:
        return {"error": p.stderr[-1500:]}
    try:
        return json.loads(p.stdout)
    except Exception:  # noqa: BLE001
        return {"error": "unparsable worker output: " + p.stdout[:300]}


def expand(hist_ops):
    out = []
    for k, i in hist_ops:
        if k == "EE":
            out += [["E", i], ["E", i]]
        else:
            out.append([k, i])
    return out


def outcome(res):
    return ("ok", res.get("sha")) if res.get("ok") else ("exc", res.get("exc"))


def observed_trace(results):
    parts = []
    for r in results:
        if r["op"] == "C":
            parts.append("C")
        elif not r.get("ok"):
            parts.append("X" if r.get("exc") == "ValueError" else "X:" + str(r.get("exc")))
        else:
            gets = r["gets"]
            if len(gets) > 1:
                parts.append("E?mixed:" + "|".join(gets))
            elif gets:
                parts.append("E" + gets[0])
            else:
                parts.append("E" + (r["first_set"] if r["first_set"] is not None else "?unset"))
    return ";".join(parts)


def run(ctx):
    seed = ctx["seed"]
    r = random.Random(seed * 14 + 5)
    pool = hist.pool(seed)
    P = len(pool)
    failures = []
    stats = collections.Counter()

    def fail(kind, name, what, **kw):
        stats[kind + ":" + name] += 1
        if len([f for f in failures if f["name"] == name]) < 2:
            failures.append(dict(kind=kind, name=name, what=what, signature=None, **kw))

    # ---- replay of a recorded history
    if ctx.get("replay"):
        rp = json.load(open(ctx["replay"]))
        if "ops" in rp:
            pool = rp["pool"]
            P = len(pool)
            jobs = [(rp["ops"], rp.get("share", False))]
        else:
            jobs = []
    else:
        jobs = None

    # ---- baselines: each document alone in a fresh interpreter (two hash seeds)
    with ThreadPoolExecutor(12) as ex:
        b0 = list(ex.map(lambda i: worker({"pool": pool, "ops": [["E", i]], "share": False, "palettes": i == 0}), range(P)))
        b1 = list(ex.map(lambda i: worker({"pool": pool, "ops": [["E", i]], "share": False}, hashseed="4242"), range(P)))
    for i, (a, b) in enumerate(zip(b0, b1, strict=True)):
        if "error" in a or "error" in b:
            fail("harness", "baseline", "baseline worker failed", detail=a.get("error") or b.get("error"))
            return {"failures": failures, "coverage": {"outcomes": dict(stats)}}
        if outcome(a["results"][0]) != outcome(b["results"][0]):
            fail("holds", "hashseed", "two fresh interpreters (different hash seeds) produce different output for the same document",
                 pool=pool, ops=[["E", i]], doc=i)
    base = [outcome(a["results"][0]) for a in b0]
    pals = b0[0]["palettes"]
    fails_flag = [base[i][0] == "exc" for i in range(P)]
    if not any(fails_flag) or all(fails_flag):
        fail("harness", "pool", "the pool must contain failing and succeeding documents", base=base)

    # ---- the encoder inside the shell is the modelled one: strict correspondence on the pool documents
    recs = common.evaluate("corr", [(f"pool{i}", pool[i]) for i in range(P)], shards=4)
    for rec in recs:
        res = rec.get("result") or {}
        if not rec["built"] or (res.get("agree") != "1" and res.get("tie") != "1"):
            fail("corr", "encoder", "corr_C14: model encode and rtf_encode differ on a pool document", spec=rec["spec"], result=res)
        else:
            stats["pool_corr_ok"] += 1

    # ---- histories
    alphabet = [(k, i) for i in range(P) for k in ("C", "E", "EE")]
    if jobs is None:
        hs = [[a] for a in alphabet]
        if ctx["tier"] == "quick":
            hs += [[r.choice(alphabet) for _ in range(r.randint(2, 4))] for _ in range(90)]
        else:
            hs += [list(t) for t in itertools.product(alphabet, repeat=2)]
            hs += [[r.choice(alphabet) for _ in range(r.randint(3, 4))] for _ in range(2500)]
        # directed: a failing encode, then every other document; shared components with different column counts
        bad = [i for i in range(P) if fails_flag[i]]
        for b in bad:
            for t in range(P):
                hs.append([("E", b), ("E", t)])
        # documents that differ only in the font or size their cells are measured with, in both orders
        metric = [i for i in (15, 16, 17) if i < P]
        for a in metric:
            for b in metric:
                if a != b:
                    hs.append([("E", a), ("E", b)])
        jobs = []
        for n, h in enumerate(hs):
            targets = r.sample(range(P), 3)
            jobs.append((expand(h) + [["E", t] for t in targets], n % 2 == 0))
    lens = collections.Counter()

    def do(job):
        ops, share = job
        return worker({"pool": pool, "ops": ops, "share": share})

    with ThreadPoolExecutor(14) as ex:
        outs = list(ex.map(do, jobs))

    cases = []
    observed = []
    for n, ((ops, share), out) in enumerate(zip(jobs, outs, strict=True)):
        if "error" in out:
            fail("harness", "worker", "history worker failed", ops=ops, detail=out["error"])
            continue
        lens[len(ops)] += 1
        stats["histories"] += 1
        for k, res in enumerate(out["results"]):
            if res["op"] != "E":
                continue
            stats["encodes_checked"] += 1
            i = res["i"]
            if outcome(res) != base[i]:
                fail("holds", "history", "rtf_encode after this history differs from the same document encoded in a fresh interpreter",
                     pool=pool, ops=ops[: k + 1], share=share, doc=i, got=outcome(res), fresh=base[i])
                break
            if res.get("df_same") is False:
                fail("holds", "dataframe", "the caller's DataFrame was modified", pool=pool, ops=ops[: k + 1], share=share, doc=i)
                break
        sx_pals = rt.sx_list(rt.sx_list(["1" if fails_flag[i] else "0", rt.sx_list(rt.sx_str(c) for c in (pals[str(i)] or []))]) for i in range(P))
        sx_ops = rt.sx_list(rt.sx_list(["0" if k == "C" else "1", str(i)]) for k, i in ops)
        cases.append(rt.sx_list([rt.sx_str("c14"), rt.sx_str(f"h{n}"), sx_pals, sx_ops]))
        observed.append((n, ops, share, observed_trace(out["results"]), out["results"][-1]["after"] if out["results"] else "N"))
    results = rt.run_driver(cases, shards=4)
    samples = []
    for (n, ops, share, tr, after), res in zip(observed, results, strict=True):
        if res.get("trace") != tr or res.get("final") != after:
            fail("corr", "context", "corr_C14: the colour context observed during this history differs from Model/Ctx.v (run)",
                 pool=pool, ops=ops, share=share, model=res, observed={"trace": tr, "final": after})
        else:
            stats["traces_ok"] += 1
            if len(samples) < 2 and len(ops) > 3:
                samples.append({"ops": ops, "share": share, "trace": tr})

    # ---- shrink a failing history to a minimal one (still from a fresh interpreter)
    for f in failures:
        if f["kind"] == "holds" and f["name"] == "history" and not ctx.get("replay"):
            ops = f["ops"]
            changed = True
            while changed and len(ops) > 1:
                changed = False
                for k in range(len(ops) - 1):
                    cand = ops[:k] + ops[k + 1:]
                    out = worker({"pool": pool, "ops": cand, "share": f["share"]})
                    if "error" not in out and outcome(out["results"][-1]) != base[cand[-1][1]]:
                        ops = cand
                        changed = True
                        break
            f["ops"] = ops
            f["replay_cmd"] = "./check C14 --replay <this file>"
    coverage = {
        "evaluations": stats["histories"], "distinct_nontrivial": stats["encodes_checked"],
        "rule": "histories = sequences of construct / encode / encode-twice over the 18-document pool run in a FRESH interpreter each, "
                "exhaustive for length 1 (and 2 in the thorough tier), sampled for lengths 2-4, plus failing-encode-then-X for every X; "
                "each followed by 3 target encodes; alternate runs share equal-valued component objects; distinct = encodes compared with the fresh baseline",
        "ops_per_history": {str(k): v for k, v in sorted(lens.items())},
        "pool": ["plain3", "plain5", "coloured", "coloured+header+footnote", "multi-section coloured", "figure", "grouped failing (ValueError)",
                 "paginated page_by", "shares header/page", "multi-section plain", "footnote on all pages, empty body border_last",
                 "shares footnote of #3, closed by a source table", "shares source of #11, empty page border_last",
                 "cell-by-cell border matrices", "shares the body of #13, closed by a footnote table"],
        "baseline": [list(b) for b in base], "samples": samples, "outcomes": dict(stats),
        "traces_validated_against_impl": stats["traces_ok"],
    }
    return {"failures": failures, "coverage": coverage}
