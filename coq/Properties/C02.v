(* C02 — no data cell is lost, duplicated, reordered or altered.
   Full statement (model level): for every document d without group_by whose encode succeeds,
     concat (map data_rows (pages d)) = map (display_row (kept_cols d)) (rows (df d)).
   Proved here, for ALL inputs, are the three kernels that statement is assembled from:
     C02_slices      the per-page slices taken by cumulative heights partition the processed rows;
     C02_segments    rendering a page in [prev,boundary) segments with carried row offsets yields the
                     same rows as rendering the page at once (nothing dropped or duplicated at a group
                     boundary), and one rendered row per frame row, one cell per value;
     C02_columns     column removal keeps the remaining columns in their original order.
   and, assembled from them for the model's whole pagination (Proofs/PartitionProofs.v):
     C02_section_partition  for EVERY section (frame, body without group_by, page settings, width oracle) whose
                     pagination succeeds, the pages' row slices, concatenated in page order, are exactly the
                     frame's rows: every row is on exactly one page, in order (row metadata has one entry per
                     row; the greedy page numbers are non-decreasing; the [min,max] ranges of build_pages have
                     lengths summing to the row count; post-processing re-slices by those lengths);
     C02_page_rows   on a page rendered in segments around group headings, the rendered items are an
                     order-preserving interleaving of the page's data rows (each exactly once, encoded at
                     its own row offset) with heading rows.
     C02_page_body + C02_section_bounds   the capstone: for EVERY page of EVERY section (no group_by) the rendered
                     page is  pre ++ body ++ post  where body is an order-preserving interleaving of heading rows with
                     table_encode of exactly that page's row slice - the hypothesis of C02_page_rows (boundaries
                     increasing and inside the slice) is proved for all pages the pagination builds.
   C02_partial: what is still missing for the full statement is decode (escape (convert s)) = s on the C02
   text domain, which is C10/C11's theorem, and the identification of cell k of rendered row j with
   value (j, k) (definitional in encode_cells).  The predicate check_c02 is evaluated on the
   implementation's output. *)
From Coq Require Import List NArith ZArith QArith Bool Arith.
From V Require Import Str Num Tok Items Doc Broadcast Encode Paginate Pipeline SliceProofs HeadingProofs PartitionProofs.
Import ListNotations.
Local Open Scope nat_scope.

Theorem C02_slices : forall rows pages,
  sum_lens pages = length rows ->
  concat (map (page_rows rows) (set_slice_starts pages 0)) = rows.
Proof. exact slices_partition. Qed.
Print Assumptions C02_slices.

Theorem C02_segments : forall ctx a cw r1 r2 off,
  encode_rows ctx a cw (r1 ++ r2) off =
  match encode_rows ctx a cw r1 off with
  | Ok x => match encode_rows ctx a cw r2 (off + length r1) with
            | Ok y => Ok (x ++ y)
            | Err e => Err e
            end
  | Err e => Err e
  end.
Proof. exact encode_rows_app. Qed.
Print Assumptions C02_segments.

Theorem C02_row_count : forall ctx a cw rows off out,
  encode_rows ctx a cw rows off = Ok out -> length out = length rows.
Proof. exact encode_rows_length. Qed.

Theorem C02_cell_count : forall ctx a cw n vals r j out,
  encode_cells ctx a cw n vals r j = Ok out -> length out = length vals.
Proof. exact encode_cells_length. Qed.

Theorem C02_columns : forall (A : Type) (rem : list nat) (l : list A) i,
  exists keep : list bool, length keep = length l /\
    drop_idx_from i rem l = map snd (filter fst (combine keep l)).
Proof. exact @drop_idx_from_sub. Qed.
Print Assumptions C02_columns.

Theorem C02_section_partition : forall s pf pattrs cw pages rows,
  section_pages s = Ok (pf, pattrs, cw, pages, rows) -> no_group_by (s_body s) ->
  rows = f_rows pf /\ length rows = length (f_rows (s_frame s)) /\ concat (map (page_rows rows) pages) = rows.
Proof. exact section_rows_partition. Qed.
Print Assumptions C02_section_partition.

Theorem C02_page_rows : forall ctx s a cw rows bounds prev last its,
  prev <= length rows -> increasing (prev :: map fst bounds) -> Forall (fun b => fst b <= length rows) bounds ->
  render_segments ctx s a cw rows bounds prev last = Ok its ->
  exists data heads, table_encode ctx a cw (skipn prev rows) prev = Ok data /\ Shuffle data heads its.
Proof. exact render_segments_rows. Qed.
Print Assumptions C02_page_rows.

Theorem C02_page_body : forall ctx s pf cw rows pattrs p its,
  render_page ctx s pf cw rows pattrs p = Ok its ->
  bounds_ok (length (page_rows rows p)) (pc_bounds p) ->
  exists pre bodyi post data heads,
    its = pre ++ bodyi ++ post /\ Shuffle data heads bodyi /\
    table_encode ctx (pb_attrs (process_page s pattrs p (length (f_cols pf)))) cw (page_rows rows p) 0 = Ok data.
Proof. exact page_body_is_its_rows. Qed.
Print Assumptions C02_page_body.

Theorem C02_section_bounds : forall s pf pattrs cw pages rows,
  section_pages s = Ok (pf, pattrs, cw, pages, rows) -> no_group_by (s_body s) ->
  Forall (fun p => bounds_ok (length (page_rows rows p)) (pc_bounds p)) pages.
Proof. exact section_pages_bounds. Qed.
Print Assumptions C02_section_bounds.

Example C02_slices_example :
  let mk n := {| pc_num := 1; pc_total := 1; pc_start := 0; pc_len := n; pc_first := true; pc_last := true;
                 pc_needs_header := true; pc_subline := None; pc_pbinfo := None; pc_bounds := [];
                 pc_slice_start := 0 |} in
  map (page_rows [[VInt 1]; [VInt 2]; [VInt 3]]) (set_slice_starts [mk 2; mk 1] 0)
  = [[[VInt 1]; [VInt 2]]; [[VInt 3]]].
Proof. reflexivity. Qed.
