(* RTF tokens, lexer (my formalisation of the RTF 1.9 lexical rules) and printer. *)
From Coq Require Import List NArith ZArith Bool.
From V Require Import Str.
Import ListNotations.
Local Open Scope N_scope.

Inductive tok :=
| TOpen | TClose
| TCtrl (name : str) (param : option Z)
| TSym (c : N)
| TText (s : str).

Definition optZ_eqb (a b : option Z) : bool := opt_eqb Z.eqb a b.

Definition tok_eqb (a b : tok) : bool :=
  match a, b with
  | TOpen, TOpen => true
  | TClose, TClose => true
  | TCtrl n p, TCtrl m q => str_eqb n m && optZ_eqb p q
  | TSym c, TSym d => N.eqb c d
  | TText s, TText t => str_eqb s t
  | _, _ => false
  end.

Fixpoint span (p : N -> bool) (s : str) (acc : str) : str * str :=
  match s with
  | c :: r => if p c then span p r (c :: acc) else (rev' acc, s)
  | [] => (rev' acc, [])
  end.

Fixpoint digits_to_N (ds : str) (acc : N) : N :=
  match ds with
  | [] => acc
  | d :: r => digits_to_N r (acc * 10 + (d - 48))
  end.

(* optional numeric parameter: -?[0-9]+ *)
Definition parse_param (s : str) : option Z * str :=
  match s with
  | 45 :: r =>
    let '(ds, rest) := span is_digit r [] in
    match ds with
    | [] => (None, s)
    | _ => (Some (Z.opp (Z.of_N (digits_to_N ds 0))), rest)
    end
  | _ =>
    let '(ds, rest) := span is_digit s [] in
    match ds with
    | [] => (None, s)
    | _ => (Some (Z.of_N (digits_to_N ds 0)), rest)
    end
  end.

Definition flush (txt : str) (out : list tok) : list tok :=
  match txt with
  | [] => out
  | _ => TText (rev' txt) :: out
  end.

(* txt: pending text, reversed; out: tokens, reversed *)
Fixpoint lex_fuel (fuel : nat) (s : str) (txt : str) (out : list tok) : list tok :=
  match fuel with
  | O => rev' (flush txt out)
  | S f =>
    match s with
    | [] => rev' (flush txt out)
    | c :: r =>
      if N.eqb c 123 then lex_fuel f r [] (TOpen :: flush txt out)
      else if N.eqb c 125 then lex_fuel f r [] (TClose :: flush txt out)
      else if N.eqb c 10 || N.eqb c 13 then lex_fuel f r txt out
      else if N.eqb c 92 then
        match r with
        | [] => rev' (TSym 0 :: flush txt out)       (* lone backslash at end: malformed *)
        | d :: r' =>
          if is_alpha d then
            let '(name, rest) := span is_alpha r [] in
            let '(param, rest') := parse_param rest in
            let rest'' := match rest' with 32 :: q => q | _ => rest' end in
            lex_fuel f rest'' [] (TCtrl name param :: flush txt out)
          else lex_fuel f r' [] (TSym d :: flush txt out)
        end
      else lex_fuel f r (c :: txt) out
    end
  end.

Definition lex (s : str) : list tok := lex_fuel (S (length s)) s [] [].

(* canonical form of a model-side token list: empty texts dropped, adjacent texts merged *)
Fixpoint canon (ts : list tok) : list tok :=
  match ts with
  | [] => []
  | TText [] :: r => canon r
  | TText a :: r =>
    match canon r with
    | TText b :: r' => TText (a ++ b) :: r'
    | r' => TText a :: r'
    end
  | t :: r => t :: canon r
  end.

Definition bs : N := 92.

Fixpoint print (ts : list tok) : str :=
  match ts with
  | [] => []
  | TOpen :: r => 123 :: print r
  | TClose :: r => 125 :: print r
  | TSym c :: r => bs :: c :: print r
  | TText s :: r => s ++ print r
  | TCtrl n p :: r =>
    let w := bs :: n ++ match p with Some z => dec_of_Z z | None => [] end in
    match r with
    | TText _ :: _ => w ++ 32 :: print r
    | _ => w ++ print r
    end
  end.

Fixpoint tok_list_eqb (a b : list tok) : bool :=
  match a, b with
  | [], [] => true
  | x :: a', y :: b' => tok_eqb x y && tok_list_eqb a' b'
  | _, _ => false
  end.

(* first index where two token lists differ *)
Fixpoint first_diff (a b : list tok) (i : nat) : option nat :=
  match a, b with
  | [], [] => None
  | x :: a', y :: b' => if tok_eqb x y then first_diff a' b' (S i) else Some i
  | _, _ => Some i
  end.

(* brace depth bookkeeping *)
Fixpoint balanced_from (d : nat) (ts : list tok) : bool :=
  match ts with
  | [] => Nat.eqb d 0
  | TOpen :: r => balanced_from (S d) r
  | TClose :: r => match d with O => false | S d' => balanced_from d' r end
  | _ :: r => balanced_from d r
  end.
Definition balanced (ts : list tok) : bool := balanced_from 0 ts.

Definition ctrl (s : String.string) : tok := TCtrl (s2l s) None.
Definition ctrlz (s : String.string) (z : Z) : tok := TCtrl (s2l s) (Some z).
Definition text (s : String.string) : tok := TText (s2l s).

Definition is_ctrl (name : str) (t : tok) : bool :=
  match t with TCtrl n _ => str_eqb n name | _ => false end.
Definition is_ctrl_s (name : String.string) (t : tok) : bool := is_ctrl (s2l name) t.
