(* C10: escaping round-trips through the reader, for every Unicode scalar value (finite, by computation),
   and the UTF-16 unit arithmetic for all code points (by lia). *)
From Coq Require Import Ascii String.
From Coq Require Import List NArith ZArith Bool Arith Lia.
Local Open Scope string_scope.
Local Open Scope list_scope.
From V Require Import Str Tok Items Read Bytes Decode WellFormed TextConv.
Import ListNotations.
Local Open Scope N_scope.

(* ---- bounded universal quantification over N by iteration ---- *)
Definition all_below (n : N) (p : N -> bool) : bool :=
  snd (N.iter n (fun st => (N.succ (fst st), snd st && p (fst st))) (0, true)).

Lemma all_below_iter n p :
  let st := N.iter n (fun st => (N.succ (fst st), snd st && p (fst st))) (0, true) in
  fst st = n /\ (snd st = true -> forall c, c < n -> p c = true).
Proof.
  induction n as [|n IH] using N.peano_ind.
  - cbn. split; [reflexivity|]. intros _ c Hc. lia.
  - rewrite N.iter_succ. cbv zeta in *. destruct IH as [IH1 IH2].
    set (st := N.iter n _ _) in *. cbn [fst snd]. split; [rewrite IH1; reflexivity|].
    intros H c Hc. apply andb_prop in H as [H1 H2].
    destruct (N.eq_dec c n) as [->|Hne].
    + rewrite <- IH1. exact H2.
    + apply IH2; [exact H1|lia].
Qed.

Lemma all_below_spec n p : all_below n p = true -> forall c, c < n -> p c = true.
Proof. intro H. exact (proj2 (all_below_iter n p) H). Qed.

(* ---- the quantifier domain of C10: Unicode scalar values ---- *)
Definition scalar (c : N) : Prop := c < 1114112 /\ ~ (55296 <= c < 57344).

(* ---- (i) UTF-16 unit arithmetic, for every code point ---- *)
Lemma units_small c : c <= 65535 -> utf16_units c = [c].
Proof. intro H. unfold utf16_units. replace (65535 <? c) with false by (symmetry; apply N.ltb_ge; lia). reflexivity. Qed.

Lemma units_large c : 65535 < c ->
  utf16_units c = [55296 + (c - 65536) / 1024; 56320 + (c - 65536) mod 1024].
Proof.
  intro H. unfold utf16_units. replace (65535 <? c) with true by (symmetry; apply N.ltb_lt; lia).
  rewrite N.shiftr_div_pow2. change (2 ^ 10) with 1024.
  change 1023 with (N.ones 10). rewrite N.land_ones. change (2 ^ 10) with 1024. reflexivity.
Qed.

(* every unit is a 16-bit value; its \u parameter is in the signed 16-bit range and reads back as the unit *)
Lemma units_range c : c < 1114112 -> Forall (fun u => u < 65536) (utf16_units c).
Proof.
  intro H. destruct (N.le_gt_cases c 65535) as [Hs|Hl].
  - rewrite units_small by exact Hs. constructor; [lia|constructor].
  - rewrite units_large by exact Hl.
    assert ((c - 65536) / 1024 < 1024) by (apply N.div_lt_upper_bound; lia).
    assert ((c - 65536) mod 1024 < 1024) by (apply N.mod_lt; lia).
    repeat constructor; lia.
Qed.

Lemma signed16_range u : u < 65536 -> (-32768 <= signed16 u <= 32767)%Z.
Proof. intro H. unfold signed16. destruct (u <? 32768) eqn:E; [apply N.ltb_lt in E|apply N.ltb_ge in E]; lia. Qed.

Lemma signed16_back u : u < 65536 -> Z.to_N (Z.modulo (signed16 u) 65536) = u.
Proof.
  intro H. unfold signed16. destruct (u <? 32768) eqn:E; [apply N.ltb_lt in E|apply N.ltb_ge in E].
  - rewrite Z.mod_small by lia. lia.
  - replace (Z.of_N u - 65536)%Z with (Z.of_N u + (-1) * 65536)%Z by lia.
    rewrite Z.mod_add by lia. rewrite Z.mod_small by lia. lia.
Qed.

(* surrogate recombination returns the code point *)
Lemma pair_value_units c : 65535 < c -> c < 1114112 ->
  pair_value (55296 + (c - 65536) / 1024) (56320 + (c - 65536) mod 1024) = c.
Proof.
  intros H1 H2. unfold pair_value.
  pose proof (N.div_mod (c - 65536) 1024 ltac:(lia)) as D.
  remember ((c - 65536) / 1024) as q. remember ((c - 65536) mod 1024) as r.
  replace (55296 + q - 55296) with q by lia. replace (56320 + r - 56320) with r by lia.
  lia.
Qed.

(* ---- (ii) token-level round trip, for every string of scalar values ---- *)
Definition unit_tokens (u : N) : list tok :=
  [TCtrl (s2l "uc") (Some 1%Z); TCtrl (s2l "u") (Some (signed16 u)); TText [42]].

Definition esc_tokens_char (c : N) : list tok :=
  if c <? 128 then [TText [c]] else flat_map unit_tokens (utf16_units c).

Definition escape_tokens (s : str) : list tok := flat_map esc_tokens_char s.

Definition units_of_char (c : N) : list N := if c <? 128 then [c] else utf16_units c.

Lemma units_of_unit u rest acc :
  u < 65536 ->
  units_of (unit_tokens u ++ rest) 1 0 false acc = units_of rest 1 0 false (u :: acc).
Proof.
  intro H. unfold unit_tokens. cbn [app units_of].
  change (str_eqb (s2l "uc") (s2l "u")) with false. change (str_eqb (s2l "uc") (s2l "uc")) with true.
  change (str_eqb (s2l "u") (s2l "u")) with true. cbn iota.
  change (Z.to_nat 1) with 1%nat.
  rewrite signed16_back by exact H. cbn [drop length Nat.sub rev_append]. reflexivity.
Qed.

Lemma units_of_units us rest acc :
  Forall (fun u => u < 65536) us ->
  units_of (flat_map unit_tokens us ++ rest) 1 0 false acc = units_of rest 1 0 false (rev_append us acc).
Proof.
  intro H. revert acc; induction H as [|u us Hu _ IH]; intros acc; [reflexivity|].
  cbn [flat_map]. rewrite <- app_assoc. rewrite units_of_unit by exact Hu. rewrite IH. reflexivity.
Qed.

Lemma units_of_char_step c rest acc :
  c < 1114112 ->
  units_of (esc_tokens_char c ++ rest) 1 0 false acc = units_of rest 1 0 false (rev_append (units_of_char c) acc).
Proof.
  intro H. unfold esc_tokens_char, units_of_char. destruct (c <? 128).
  - reflexivity.
  - apply units_of_units. apply units_range. exact H.
Qed.

Lemma units_of_escape_acc s acc :
  Forall (fun c => c < 1114112) s ->
  units_of (escape_tokens s) 1 0 false acc = rev' (rev_append (flat_map units_of_char s) acc).
Proof.
  intro H. revert acc; induction H as [|c s Hc _ IH]; intros acc.
  - reflexivity.
  - unfold escape_tokens in *. cbn [flat_map]. rewrite units_of_char_step by exact Hc. rewrite IH.
    f_equal. rewrite !rev_append_rev. rewrite rev_app_distr. rewrite app_assoc. reflexivity.
Qed.

Lemma comb_units s :
  Forall scalar s -> comb (flat_map units_of_char s) None = s.
Proof.
  induction 1 as [|c s [Hlt Hns] _ IH]; [reflexivity|].
  cbn [flat_map]. unfold units_of_char at 1.
  destruct (c <? 128) eqn:E1.
  - apply N.ltb_lt in E1. cbn [app comb]. unfold is_high.
    replace (55296 <=? c) with false by (symmetry; apply N.leb_gt; lia). cbn [andb]. rewrite IH. reflexivity.
  - destruct (N.le_gt_cases c 65535) as [Hs|Hl].
    + rewrite units_small by exact Hs. cbn [app comb]. unfold is_high.
      destruct ((55296 <=? c) && (c <? 56320)) eqn:E2.
      * apply andb_prop in E2 as [A B]. apply N.leb_le in A. apply N.ltb_lt in B. exfalso. apply Hns. lia.
      * rewrite IH. reflexivity.
    + rewrite units_large by exact Hl.
      assert ((c - 65536) / 1024 < 1024) by (apply N.div_lt_upper_bound; lia).
      assert ((c - 65536) mod 1024 < 1024) by (apply N.mod_lt; lia).
      cbn [app comb].
      assert (Eh : is_high (55296 + (c - 65536) / 1024) = true).
      { generalize dependent ((c - 65536) / 1024). intros q Hq.
        unfold is_high. apply andb_true_intro. split; [apply N.leb_le; lia|apply N.ltb_lt; lia]. }
      assert (El : is_low (56320 + (c - 65536) mod 1024) = true).
      { generalize dependent ((c - 65536) mod 1024). intros r Hr.
        unfold is_low. apply andb_true_intro. split; [apply N.leb_le; lia|apply N.ltb_lt; lia]. }
      rewrite Eh, El.
      rewrite pair_value_units by assumption. rewrite IH. reflexivity.
Qed.

Theorem token_roundtrip s : Forall scalar s -> decode_tokens (escape_tokens s) = s.
Proof.
  intro H. unfold decode_tokens, combine_surrogates.
  rewrite units_of_escape_acc by (eapply Forall_impl; [|exact H]; intros c [A _]; exact A).
  unfold rev'. rewrite !rev_append_rev, !app_nil_r, rev_involutive. apply comb_units. exact H.
Qed.

(* every \u parameter the escaper writes is in range and followed by exactly one fallback character *)
Theorem escape_tokens_unicode_ok s :
  Forall (fun c => c < 1114112) s -> unicode_ok 1 (escape_tokens s) = true.
Proof.
  intro H. unfold escape_tokens. induction H as [|c s Hc _ IH]; [reflexivity|].
  cbn [flat_map]. unfold esc_tokens_char at 1. destruct (c <? 128); [exact IH|].
  pose proof (units_range c Hc) as Hu. induction Hu as [|u us Hu _ IHu]; [exact IH|].
  cbn [flat_map app unit_tokens unicode_ok].
  change (str_eqb (s2l "uc") (s2l "uc")) with true. cbn iota.
  change (str_eqb (s2l "u") (s2l "uc")) with false. change (str_eqb (s2l "u") (s2l "u")) with true. cbn iota.
  change (Z.to_nat 1) with 1%nat.
  pose proof (signed16_range u Hu) as [A B].
  replace (-32768 <=? signed16 u)%Z with true by (symmetry; apply Z.leb_le; exact A).
  replace (signed16 u <=? 32767)%Z with true by (symmetry; apply Z.leb_le; exact B).
  cbn [andb length Nat.leb]. exact IHu.
Qed.

(* ---- (iii) the lexer on every unit, with neighbours (finite: 65536 units, by computation) ---- *)
Definition unit_lex_ok (u : N) : bool :=
  if u <? 128 then true
  else tok_list_eqb (lex (97 :: esc_unit u ++ [98]))
                    [TText [97]; TCtrl (s2l "uc") (Some 1%Z); TCtrl (s2l "u") (Some (signed16 u)); TText [42; 98]]
       && all_b (fun b => b <? 128) (esc_unit u).

Lemma all_units_lex : all_below 65536 unit_lex_ok = true.
Proof. vm_compute. reflexivity. Qed.

Theorem unit_lex u : u < 65536 -> unit_lex_ok u = true.
Proof. apply all_below_spec. exact all_units_lex. Qed.
