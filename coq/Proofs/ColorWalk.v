(* C12 at document level: every colour index the encoder writes (text, background, border) is color_index ctx c for a
   non-empty colour name c that collect_colors d contains - on every path (single-, multi-section, figure, header/footer). *)
From Coq Require Import Ascii String.
From Coq Require Import List NArith ZArith QArith Bool Arith Lia.
From V Require Import Str Num Tok Tables Items Doc Broadcast TextConv Encode Paginate GroupBy Pipeline Figure Document.
From V Require Import ColorProofs DocumentWF.
Import ListNotations.
Local Open Scope string_scope.
Local Open Scope list_scope.
Local Open Scope nat_scope.

(* ---- where matrix entries come from ---- *)
Lemma get_in {A} (o : omat A) r c x : get o r c = Ok (Some x) -> exists v, o = Some v /\ In x (concat v).
Proof.
  unfold get. destruct o as [v|]; [|discriminate]. destruct (iloc v r c) as [y|] eqn:E; [|discriminate].
  intro H. inversion H; subst. exists v. split; [reflexivity|eapply iloc_in_concat; exact E].
Qed.

Lemma repeat_app_in {A} (l : list A) k x : In x (repeat_app l k) -> In x l.
Proof. induction k as [|k IH]; cbn [repeat_app]; [contradiction|]. intro H. apply in_app_or in H as [H|H]; [exact H|apply IH; exact H]. Qed.

Lemma firstn_in {A} n (l : list A) x : In x (firstn n l) -> In x l.
Proof. intro H. rewrite <- (firstn_skipn n l). apply in_or_app. left. exact H. Qed.

Lemma to_list_sub {A} (v : mat A) rows cols x : In x (concat (to_list v rows cols)) -> In x (concat v).
Proof.
  unfold to_list. intro H. apply in_concat in H as (row & Hr & Hx).
  apply in_map_iff in Hr as (row' & <- & Hr'). apply firstn_in in Hx. apply firstn_in in Hr'.
  apply repeat_app_in in Hr'. apply in_map_iff in Hr' as (row0 & <- & Hr0). apply repeat_app_in in Hx.
  apply in_concat. exists row0. split; assumption.
Qed.

Lemma drop_idx_from_in {A} i rem (l : list A) x : In x (drop_idx_from i rem l) -> In x l.
Proof.
  revert i; induction l as [|y l IH]; intro i; cbn [drop_idx_from]; [contradiction|].
  destruct (existsb (Nat.eqb i) rem); intro H; [right; eapply IH; exact H|].
  destruct H as [->|H]; [left; reflexivity|right; eapply IH; exact H].
Qed.

Definition msub {A} (o1 o2 : omat A) : Prop :=
  forall x, In x (match o1 with Some v => concat v | None => [] end) -> In x (match o2 with Some v => concat v | None => [] end).

Lemma slice_cols_sub {A} rows cols rem (o : omat A) : msub (slice_cols rows cols rem o) o.
Proof.
  unfold msub, slice_cols. destruct o as [v|]; [|intros x []]. intros x H.
  apply in_concat in H as (row & Hr & Hx). apply in_map_iff in Hr as (row' & <- & Hr').
  unfold drop_idx in Hx. apply drop_idx_from_in in Hx. apply to_list_sub with (rows := rows) (cols := cols).
  apply in_concat. exists row'. split; assumption.
Qed.

Lemma rebase_sub {A} start h (o : omat A) : msub (rebase start h o) o.
Proof.
  unfold msub, rebase. destruct o as [[|r1 [|r2 v]]|]; try (intros x H; exact H).
  intros x H. apply in_concat in H as (row & Hr & Hx). apply in_flat_map in Hr as (i & _ & Hi).
  destruct (nth_error (r1 :: r2 :: v) ((start + i) mod length (r1 :: r2 :: v))) as [r|] eqn:E; [|contradiction].
  destruct Hi as [<-|[]]. apply in_concat. exists r. split; [eapply nth_error_In; exact E|exact Hx].
Qed.

(* ---- the colour matrices of an attribute record ---- *)
Definition asub (a b : attrs) : Prop :=
  msub (a_color a) (a_color b) /\ msub (a_bg a) (a_bg b) /\ msub (a_bcl a) (a_bcl b) /\ msub (a_bcr a) (a_bcr b)
  /\ msub (a_bct a) (a_bct b) /\ msub (a_bcb a) (a_bcb b).

Lemma msub_refl {A} (o : omat A) : msub o o. Proof. intros x H; exact H. Qed.
Lemma msub_trans {A} (a b c : omat A) : msub a b -> msub b c -> msub a c.
Proof. intros H1 H2 x H. apply H2, H1, H. Qed.
Lemma asub_refl a : asub a a. Proof. repeat split; apply msub_refl. Qed.
Lemma asub_trans a b c : asub a b -> asub b c -> asub a c.
Proof.
  intros (A1 & A2 & A3 & A4 & A5 & A6) (B1 & B2 & B3 & B4 & B5 & B6).
  repeat split; eapply msub_trans; eassumption.
Qed.

Lemma slice_attrs_sub rows cols rem a : asub (slice_attrs rows cols rem a) a.
Proof. repeat split; apply slice_cols_sub. Qed.

Lemma rebase_attrs_sub start h a : asub (rebase_attrs start h a) a.
Proof. unfold rebase_attrs. destruct start; [apply asub_refl|]. repeat split; apply rebase_sub. Qed.

Lemma with_bt_sub a v : asub (with_bt a v) a. Proof. repeat split; apply msub_refl. Qed.
Lemma with_bb_sub a v : asub (with_bb a v) a. Proof. repeat split; apply msub_refl. Qed.

Lemma prepare_sub f b : asub (snd (fst (prepare f b))) (b_attrs b).
Proof. unfold prepare. destruct (removed_names b); cbn [fst snd]; [apply asub_refl|apply slice_attrs_sub]. Qed.

Lemma process_page_sub s pattrs p w : asub (pb_attrs (process_page s pattrs p w)) pattrs.
Proof.
  unfold process_page. destruct (pc_len p); cbn [pb_attrs]; [apply asub_refl|].
  eapply asub_trans; [apply with_bb_sub|]. eapply asub_trans; [apply with_bt_sub|]. apply rebase_attrs_sub.
Qed.

(* ---- provenance of colour indices ---- *)
Section CW.
Variable ctx : option (list str).
Variable P : str -> Prop.

Definition idx_from (o : option Z) : Prop := forall z, o = Some z -> exists c, P c /\ c <> [] /\ z = color_index ctx c.
Definition run_c (r : run) : Prop := idx_from (rn_cf r) /\ idx_from (rn_cb r).
Definition bord_c (o : option bord) : Prop := match o with Some b => idx_from (bd_cf b) | None => True end.
Definition cell_c (c : cell) : Prop :=
  bord_c (ce_bl c) /\ bord_c (ce_bt c) /\ bord_c (ce_br c) /\ bord_c (ce_bb c) /\ run_c (ce_run c).
Definition item_c (i : item) : Prop :=
  match i with
  | IRow r => Forall cell_c (rw_cells r)
  | IPara _ rs => Forall run_c rs
  | _ => True
  end.

(* every entry of the colour matrices of a satisfies P *)
Definition acol (a : attrs) : Prop :=
  forall b, asub b a ->
  (forall x, In x (mat_strs (a_color b)) -> P x) /\ (forall x, In x (mat_strs (a_bg b)) -> P x)
  /\ (forall x, In x (mat_strs (a_bcl b)) -> P x) /\ (forall x, In x (mat_strs (a_bcr b)) -> P x)
  /\ (forall x, In x (mat_strs (a_bct b)) -> P x) /\ (forall x, In x (mat_strs (a_bcb b)) -> P x).

Lemma acol_sub a b : acol a -> asub b a -> acol b.
Proof. intros H Hs c Hc. apply H. eapply asub_trans; eassumption. Qed.

Lemma idx_from_get (o : omat str) r c col :
  (forall x, In x (mat_strs o) -> P x) -> get o r c = Ok col ->
  idx_from (option_map (color_index ctx) (truthy col)).
Proof.
  intros Hp Hg z Hz. destruct col as [[|ch cs]|]; cbn in Hz; try discriminate. inversion Hz; subst.
  exists (ch :: cs). split; [|split; [discriminate|reflexivity]].
  apply Hp. destruct (get_in _ _ _ _ Hg) as (v & -> & Hin). exact Hin.
Qed.

Lemma text_run_c a text r c t rn :
  acol a -> mk_tcontent a text r c = Ok t -> text_run ctx t = Ok rn -> run_c rn.
Proof.
  intros Ha Ht Hr. destruct (Ha a (asub_refl a)) as (H1 & H2 & _).
  unfold mk_tcontent in Ht. do 14 inv_bind Ht. inv_ok Ht.
  unfold text_run in Hr. inv_bind Hr. inv_ok Hr. cbn [rn_cf rn_cb t_color t_bg]. split.
  - eapply idx_from_get; [exact H1|exact E2].
  - eapply idx_from_get; [exact H2|exact E3].
Qed.

Lemma mk_border_c style col w r c b :
  (forall x, In x (mat_strs col) -> P x) -> mk_border ctx style col w r c = Ok b -> idx_from (bd_cf b).
Proof.
  intros Hp H. unfold mk_border in H. do 4 inv_bind H. inv_ok H. cbn [bd_cf]. eapply idx_from_get; [exact Hp|exact E1].
Qed.

Lemma encode_cells_c a widths ncols vals r j cells :
  acol a -> encode_cells ctx a widths ncols vals r j = Ok cells -> Forall cell_c cells.
Proof.
  intro Ha. destruct (Ha a (asub_refl a)) as (_ & _ & H3 & H4 & H5 & H6).
  revert j cells; induction vals as [|v vals IH]; intros j cells H; cbn [encode_cells] in H.
  - inv_ok H. constructor.
  - do 10 inv_bind H. inv_bind H. inv_ok H. constructor; [|eapply IH; eassumption].
    unfold cell_c; cbn. repeat split.
    + eapply mk_border_c; [exact H3|eassumption].
    + eapply mk_border_c; [exact H5|eassumption].
    + destruct (Nat.eqb (S j) ncols).
      * inv_bind E5. inv_ok E5. cbn. eapply mk_border_c; [exact H4|eassumption].
      * inv_ok E5. exact I.
    + eapply mk_border_c; [exact H6|eassumption].
    + eapply (text_run_c a _ _ _ _ _ Ha E E1).
    + eapply (text_run_c a _ _ _ _ _ Ha E E1).
Qed.

Lemma table_encode_c a widths rows off its : acol a -> table_encode ctx a widths rows off = Ok its -> Forall item_c its.
Proof.
  intros Ha H. unfold table_encode in H. inv_bind H. inv_ok H.
  revert off x E; induction rows as [|vals rows IH]; intros off x E; cbn [encode_rows] in E.
  - inv_ok E. constructor.
  - do 2 inv_bind E. inv_ok E. cbn [map]. constructor; [|eapply IH; eassumption].
    unfold encode_row in E0. do 4 inv_bind E0. inv_ok E0. cbn. eapply encode_cells_c; eassumption.
Qed.

Lemma text_runs_c a lines i rs : acol a -> text_runs ctx a lines i = Ok rs -> Forall run_c (map snd rs).
Proof.
  intro Ha. revert i rs; induction lines as [|l lines IH]; intros i rs H; cbn [text_runs] in H.
  - inv_ok H. constructor.
  - do 3 inv_bind H. inv_ok H. cbn [map snd]. constructor; [eapply text_run_c; eassumption|eapply IH; eassumption].
Qed.

Lemma encode_text_line_c a lines its : acol a -> encode_text_line ctx a lines = Ok its -> Forall item_c its.
Proof.
  intros Ha H. unfold encode_text_line in H. inv_bind H. destruct (last_opt x) as [[t rn]|]; [|discriminate].
  inv_bind H. inv_ok H. constructor; [|constructor]. cbn. eapply text_runs_c; eassumption.
Qed.

Lemma encode_text_paragraph_c a lines its : acol a -> encode_text_paragraph ctx a lines = Ok its -> Forall item_c its.
Proof.
  intros Ha H. unfold encode_text_paragraph in H. inv_bind H.
  pose proof (text_runs_c a lines 0 x Ha E) as Hr. clear E.
  revert its H Hr; induction x as [|[t rn] x IH]; intros its H Hr; cbn [paras_of] in H.
  - inv_ok H. constructor.
  - do 2 inv_bind H. inv_ok H. cbn [map snd] in Hr. inversion Hr; subst.
    constructor; [cbn; constructor; [assumption|constructor]|apply IH; assumption].
Qed.
End CW.

Section CW2.
Variable ctx : option (list str).
Variable P : str -> Prop.
Notation item_ok_c := (item_c ctx P).
Notation acolP := (acol P).

Lemma render_textcomp_c o its :
  (forall t, o = Some t -> acolP (tc_attrs t)) -> render_textcomp ctx o = Ok its -> Forall item_ok_c its.
Proof.
  unfold render_textcomp, text_shown. intros Ha H. destruct o as [t|]; [|inv_ok H; constructor].
  destruct (truthy_l (tc_text t)); [|inv_ok H; constructor].
  eapply encode_text_line_c; [apply Ha; reflexivity|exact H].
Qed.

Lemma subline_header_item_c gv : Forall item_ok_c (subline_header_item gv).
Proof.
  unfold subline_header_item. destruct (subline_text gv); [constructor|].
  constructor; [|constructor]. cbn. constructor; [|constructor]. split; intros z Hz; discriminate.
Qed.

Lemma getdef_in {A} (o : omat A) c d x : getdef o c d = Ok x -> x = d \/ In x (match o with Some v => concat v | None => [] end).
Proof.
  unfold getdef. destruct o as [v|]; intro H; [|inv_ok H; left; reflexivity].
  apply of_opt_ok in H. right. eapply iloc_in_concat. exact H.
Qed.

Lemma spanning_row_c s text col its :
  acolP (b_attrs (s_body s)) -> spanning_row ctx s text col = Ok its -> Forall item_ok_c its.
Proof.
  intros Ha H. destruct (Ha _ (asub_refl _)) as (H1 & H2 & _).
  unfold spanning_row in H. do 21 inv_bind H. do 2 inv_bind H. do 4 inv_bind H. do 2 inv_bind H. inv_ok H.
  constructor; [|constructor]. cbn. constructor; [|constructor]. unfold cell_c. cbn.
  assert (B : forall st b, (do code <- of_opt (code_tokens border_codes st) ValueErr;
                            Ok (Some {| bd_style := code; bd_w := default_border_width; bd_cf := None |})) = Ok b ->
                           bord_c ctx P b).
  { intros st b Hb. inv_bind Hb. inv_ok Hb. cbn. intros z Hz. discriminate. }
  repeat split; try (eapply B; eassumption).
  - unfold text_run in E21. inv_bind E21. inv_ok E21. cbn [rn_cf t_color].
    intros z Hz. destruct x2 as [|ch cs]; cbn in Hz; [discriminate|]. inversion Hz; subst.
    exists (ch :: cs). split; [|split; [discriminate|reflexivity]].
    destruct (getdef_in _ _ _ _ E2) as [X|X]; [discriminate|apply H1; exact X].
  - unfold text_run in E21. inv_bind E21. inv_ok E21. cbn [rn_cb t_bg].
    intros z Hz. destruct x3 as [|ch cs]; cbn in Hz; [discriminate|]. inversion Hz; subst.
    exists (ch :: cs). split; [|split; [discriminate|reflexivity]].
    destruct (getdef_in _ _ _ _ E3) as [X|X]; [discriminate|apply H2; exact X].
Qed.

Lemma top_headings_c s gv its : acolP (b_attrs (s_body s)) -> top_headings ctx s gv = Ok its -> Forall item_ok_c its.
Proof.
  intro Ha. revert its; induction gv as [|[k v] gv IH]; intros its H; cbn [top_headings] in H.
  - inv_ok H. constructor.
  - do 2 inv_bind H. inv_ok H. apply Forall_app2; [|apply IH; assumption].
    destruct v; try (eapply spanning_row_c; eassumption). inv_ok E. constructor.
Qed.

Lemma boundary_headings_c s keys new last force its :
  acolP (b_attrs (s_body s)) -> boundary_headings ctx s keys new last force = Ok its -> Forall item_ok_c its.
Proof.
  intro Ha. revert force its; induction keys as [|k keys IH]; intros force its H; cbn [boundary_headings] in H.
  - inv_ok H. constructor.
  - destruct (lookup_val k new) as [v|]; [|eapply IH; eassumption].
    destruct v; try (eapply IH; eassumption).
    all: match type of H with (if ?c then _ else _) = _ => destruct c end; [|eapply IH; eassumption].
    all: do 2 inv_bind H; inv_ok H; apply Forall_app2; [eapply spanning_row_c; eassumption|eapply IH; eassumption].
Qed.

Lemma render_segments_c s a cw rows bounds prev last its :
  acolP (b_attrs (s_body s)) -> acolP a ->
  render_segments ctx s a cw rows bounds prev last = Ok its -> Forall item_ok_c its.
Proof.
  intros Hb Ha. revert prev last its; induction bounds as [|[rel gv] bounds IH]; intros prev last its H; cbn [render_segments] in H.
  - destruct (Nat.ltb prev (length rows)); [eapply table_encode_c; eassumption|inv_ok H; constructor].
  - do 3 inv_bind H. inv_ok H. apply Forall_app2; [|apply Forall_app2].
    + destruct (Nat.ltb prev rel); [eapply table_encode_c; eassumption|inv_ok E; constructor].
    + eapply boundary_headings_c; eassumption.
    + eapply IH; eassumption.
Qed.

Lemma render_headers_c s p cols hs i its :
  (forall h, In (Some h) hs -> acolP (h_attrs h)) ->
  render_headers ctx s p cols hs i = Ok its -> Forall item_ok_c its.
Proof.
  revert i its; induction hs as [|[h|] hs IH]; intros i its Ha H; cbn [render_headers] in H.
  - inv_ok H. constructor.
  - do 2 inv_bind H. inv_ok H. apply Forall_app2; [|eapply IH; [intros h' Hh'; apply Ha; right; exact Hh'|eassumption]].
    match type of E with match ?t with _ => _ end = _ => destruct t end; [|inv_ok E; constructor].
    eapply table_encode_c; [|exact E].
    match goal with |- acol P (if ?c then _ else _) => destruct c end;
      [eapply acol_sub; [apply Ha; left; reflexivity|apply with_bt_sub]|apply Ha; left; reflexivity].
  - eapply IH; [intros h' Hh'; apply Ha; right; exact Hh'|eassumption].
Qed.

Lemma render_tabletext_c t W border its :
  acolP (tt_attrs t) -> render_tabletext ctx t W border = Ok its -> Forall item_ok_c its.
Proof.
  intros Ha H. unfold render_tabletext in H.
  assert (Ha' : acolP (match border with Some ((_ :: _) as st) => with_bb (tt_attrs t) (Some [[st]]) | _ => tt_attrs t end)).
  { destruct border as [[|c0 st]|]; exact Ha. }
  destruct (tt_as_table t).
  - inv_bind H. eapply table_encode_c; eassumption.
  - eapply encode_text_paragraph_c; eassumption.
Qed.

(* the colour-carrying parts of a section *)
Definition sec_col (s : secdoc) : Prop :=
  acolP (b_attrs (s_body s))
  /\ (forall t, s_title s = Some t -> acolP (tc_attrs t))
  /\ (forall t, s_subline s = Some t -> acolP (tc_attrs t))
  /\ (forall h, In (Some h) (flat_headers (s_headers s)) -> acolP (h_attrs h))
  /\ (forall t, s_footnote s = Some t -> acolP (tt_attrs t))
  /\ (forall t, s_source s = Some t -> acolP (tt_attrs t)).

Lemma render_page_c s pf cw rows pattrs p its :
  sec_col s -> asub pattrs (b_attrs (s_body s)) ->
  render_page ctx s pf cw rows pattrs p = Ok its -> Forall item_ok_c its.
Proof.
  intros (Hb & Ht & Hs & Hh & Hf & Hr) Hsub H. unfold render_page in H. do 7 inv_bind H. inv_ok H.
  assert (Hpb : acolP (pb_attrs (process_page s pattrs p (length (f_cols pf)))))
    by (eapply acol_sub; [exact Hb|eapply asub_trans; [apply process_page_sub|exact Hsub]]).
  repeat apply Forall_app2.
  - destruct (pc_first p); constructor; [exact I|constructor].
  - destruct (should_show _ p); [exact (render_textcomp_c _ _ Ht E)|inv_ok E; constructor].
  - destruct (should_show _ p); [exact (render_textcomp_c _ _ Hs E0)|inv_ok E0; constructor].
  - destruct (pc_subline p); [apply subline_header_item_c|constructor].
  - match type of E1 with (if ?c then _ else _) = _ => destruct c end;
      [eapply render_headers_c; eassumption|inv_ok E1; constructor].
  - destruct (pc_pbinfo p); [|inv_ok E2; constructor].
    destruct (spanning_enabled _); [eapply top_headings_c; eassumption|inv_ok E2; constructor].
  - match type of E3 with (if ?c then _ else _) = _ => destruct c end;
      [eapply render_segments_c; eassumption|eapply table_encode_c; eassumption].
  - destruct (s_footnote s) as [t|] eqn:Ef; [|inv_ok E4; constructor].
    match type of E4 with (if ?c then _ else _) = _ => destruct c end;
      [eapply render_tabletext_c; [apply Hf; reflexivity|eassumption]|inv_ok E4; constructor].
  - destruct (s_source s) as [t|] eqn:Es; [|inv_ok E5; constructor].
    match type of E5 with (if ?c then _ else _) = _ => destruct c end;
      [eapply render_tabletext_c; [apply Hr; reflexivity|eassumption]|inv_ok E5; constructor].
Qed.

Lemma encode_section_c s out : sec_col s -> encode_section ctx s = Ok out -> Forall item_ok_c (concat out).
Proof.
  intros Hs H. unfold encode_section in H. inv_bind H. destruct x as [[[[pf pattrs] cw] pages] rows].
  assert (Hsub : asub pattrs (b_attrs (s_body s))).
  { unfold section_pages in E. pose proof (prepare_sub (s_frame s) (s_body s)) as Hp.
    destruct (prepare (s_frame s) (s_body s)) as [[pf0 pattrs0] rem]. cbn [fst snd] in Hp.
    do 2 inv_bind E. destruct x0 as [pg rw]. inv_ok E. exact Hp. }
  clear E. revert out H; induction pages as [|p pages IH]; intros out H; cbn [render_pages] in H.
  - inv_ok H. constructor.
  - do 2 inv_bind H. inv_ok H. cbn [concat]. apply Forall_app2; [eapply render_page_c; eassumption|apply IH; assumption].
Qed.
End CW2.

(* ---- the document: every colour the pipeline can look up is in collect_colors d (or empty) ---- *)
Definition Pd (d : doc) (c : str) : Prop := c = [] \/ In c (collect_colors d).

Lemma acol_of_entries (P : str -> Prop) a :
  (forall x, In x (attr_colors_text a ++ attr_colors_sides a) -> P x) -> acol P a.
Proof.
  intros H b (S1 & S2 & S3 & S4 & S5 & S6).
  unfold attr_colors_text, attr_colors_sides, mat_strs in H.
  repeat split; intros x Hx; apply H.
  - apply in_or_app; left; apply in_or_app; left. apply S1. exact Hx.
  - apply in_or_app; left; apply in_or_app; right. apply S2. exact Hx.
  - apply in_or_app; right; apply in_or_app; left. apply S3. exact Hx.
  - apply in_or_app; right; apply in_or_app; right; apply in_or_app; left. apply S4. exact Hx.
  - apply in_or_app; right; apply in_or_app; right; apply in_or_app; right; apply in_or_app; left. apply S5. exact Hx.
  - apply in_or_app; right; apply in_or_app; right; apply in_or_app; right; apply in_or_app; right. apply S6. exact Hx.
Qed.

Lemma Pd_of_raw d x raw :
  In x raw ->
  (forall y, In y raw -> In y (flat_map (fun b => attr_colors_body (b_attrs b)) (bodies_of (d_content d))
     ++ flat_map (fun o => match o with Some t => attr_colors_text (tc_attrs t) ++ attr_colors_sides (tc_attrs t) | None => [] end)
          [d_title d; d_subline d; d_page_header d; d_page_footer d]
     ++ flat_map (fun o => match o with Some t => attr_colors_text (tt_attrs t) ++ attr_colors_sides (tt_attrs t) | None => [] end)
          [d_footnote d; d_source d]
     ++ flat_map (fun h => attr_colors_text (h_attrs h) ++ attr_colors_sides (h_attrs h)) (all_headers (d_headers d)))) ->
  Pd d x.
Proof.
  intros Hx Hsub. unfold Pd, collect_colors. destruct x as [|c x]; [left; reflexivity|right].
  apply filter_In. split; [apply Hsub; exact Hx|reflexivity].
Qed.

Lemma body_acol d b : In b (bodies_of (d_content d)) -> acol (Pd d) (b_attrs b).
Proof.
  intro Hb. apply acol_of_entries. intros x Hx. eapply Pd_of_raw; [exact Hx|].
  intros y Hy. apply in_or_app; left. apply in_flat_map. exists b. split; [exact Hb|].
  unfold attr_colors_body. rewrite app_assoc. apply in_or_app; left. exact Hy.
Qed.

Lemma textcomp_acol d o t :
  In o [d_title d; d_subline d; d_page_header d; d_page_footer d] -> o = Some t -> acol (Pd d) (tc_attrs t).
Proof.
  intros Ho ->. apply acol_of_entries. intros x Hx. eapply Pd_of_raw; [exact Hx|].
  intros y Hy. apply in_or_app; right. apply in_or_app; left. apply in_flat_map. exists (Some t). split; [exact Ho|exact Hy].
Qed.

Lemma tabletext_acol d o t : In o [d_footnote d; d_source d] -> o = Some t -> acol (Pd d) (tt_attrs t).
Proof.
  intros Ho ->. apply acol_of_entries. intros x Hx. eapply Pd_of_raw; [exact Hx|].
  intros y Hy. apply in_or_app; right. apply in_or_app; right. apply in_or_app; left.
  apply in_flat_map. exists (Some t). split; [exact Ho|exact Hy].
Qed.

Lemma header_acol d h : In h (all_headers (d_headers d)) -> acol (Pd d) (h_attrs h).
Proof.
  intro Hh. apply acol_of_entries. intros x Hx. eapply Pd_of_raw; [exact Hx|].
  intros y Hy. apply in_or_app; right. apply in_or_app; right. apply in_or_app; right.
  apply in_flat_map. exists h. split; [exact Hh|exact Hy].
Qed.

Lemma in_all_headers_flat (l : list (option header)) (h : header) : In (Some h) l -> In h (flat_map (fun o => match o with Some h => [h] | None => [] end) l).
Proof. intro H. apply in_flat_map. exists (Some h). split; [exact H|left; reflexivity]. Qed.

Lemma flat_headers_in hs h : In (Some h) (flat_headers hs) -> In h (all_headers hs).
Proof.
  unfold flat_headers, all_headers. destruct hs as [l|l|]; intro H; try contradiction.
  - apply in_all_headers_flat. exact H.
  - apply in_all_headers_flat. apply in_concat in H as (x & Hx & Hh). apply filter_In in Hx as [Hx _].
    apply in_concat. exists x. split; assumption.
Qed.

Lemma single_sec_col d f b : d_content d = CSingle f b -> sec_col (Pd d) (single_secdoc d f b).
Proof.
  intro Hc. unfold sec_col, single_secdoc; cbn. split; [|split; [|split; [|split; [|split]]]].
  - apply body_acol. rewrite Hc. left. reflexivity.
  - intros t Ht. eapply textcomp_acol; [|exact Ht]. left; reflexivity.
  - intros t Ht. eapply textcomp_acol; [|exact Ht]. right; left; reflexivity.
  - intros h Hh. apply header_acol. apply flat_headers_in. exact Hh.
  - intros t Ht. eapply tabletext_acol; [|exact Ht]. left; reflexivity.
  - intros t Ht. eapply tabletext_acol; [|exact Ht]. right; left; reflexivity.
Qed.

Lemma multi_sec_col d l n i f b :
  d_content d = CMulti l -> In (f, b) l -> sec_col (Pd d) (multi_secdoc d n i f b).
Proof.
  intros Hc Hin. unfold sec_col, multi_secdoc; cbn. split; [|split; [|split; [|split; [|split]]]].
  - apply body_acol. rewrite Hc. cbn. apply in_map_iff. exists (f, b). split; [reflexivity|exact Hin].
  - intros t Ht. destruct (negb (Nat.eqb i 0) && _).
    + unfold no_text in Ht. destruct (d_title d) as [t0|] eqn:E; [|discriminate]. cbn in Ht. inversion Ht; subst. cbn.
      eapply textcomp_acol; [left; reflexivity|exact E].
    + eapply textcomp_acol; [left; reflexivity|exact Ht].
  - intros t Ht. destruct (negb (Nat.eqb i 0) && _).
    + unfold no_text in Ht. destruct (d_subline d) as [t0|] eqn:E; [|discriminate]. cbn in Ht. inversion Ht; subst. cbn.
      eapply textcomp_acol; [right; left; reflexivity|exact E].
    + eapply textcomp_acol; [right; left; reflexivity|exact Ht].
  - intros h Hh. apply header_acol. unfold all_headers.
    destruct (d_headers d) as [hl|hl|]; cbn [flat_headers] in Hh.
    + destruct (Nat.eqb i 0); [apply in_all_headers_flat; exact Hh|contradiction].
    + destruct (nth_error hl i) as [x|] eqn:E; [|contradiction]. cbn [flat_headers] in Hh.
      apply in_all_headers_flat. apply in_concat. exists x. split; [eapply nth_error_In; exact E|exact Hh].
    + contradiction.
  - intros t Ht. match type of Ht with (if ?c then _ else _) = _ => destruct c end.
    + unfold no_tt_text in Ht. destruct (d_footnote d) as [t0|] eqn:E; [|discriminate]. cbn in Ht. inversion Ht; subst. cbn.
      eapply tabletext_acol; [left; reflexivity|exact E].
    + eapply tabletext_acol; [left; reflexivity|exact Ht].
  - intros t Ht. match type of Ht with (if ?c then _ else _) = _ => destruct c end.
    + unfold no_tt_text in Ht. destruct (d_source d) as [t0|] eqn:E; [|discriminate]. cbn in Ht. inversion Ht; subst. cbn.
      eapply tabletext_acol; [right; left; reflexivity|exact E].
    + eapply tabletext_acol; [right; left; reflexivity|exact Ht].
Qed.

Lemma multi_sections_c ctx d l0 n i l out :
  d_content d = CMulti l0 -> (forall fb, In fb l -> In fb l0) ->
  multi_sections ctx d n i l = Ok out -> Forall (item_c ctx (Pd d)) (concat out).
Proof.
  intros Hc. revert i out; induction l as [|[f b] l IH]; intros i out Hin H; cbn [multi_sections] in H.
  - inv_ok H. constructor.
  - do 2 inv_bind H. inv_ok H. rewrite concat_app. apply Forall_app2.
    + eapply encode_section_c; [|exact E]. eapply multi_sec_col; [exact Hc|apply Hin; left; reflexivity].
    + eapply IH; [intros fb Hfb; apply Hin; right; exact Hfb|exact E0].
Qed.

Lemma figure_pages_c ctx d fg figs i n out :
  figure_pages ctx d fg figs i n = Ok out -> Forall (item_c ctx (Pd d)) (concat out).
Proof.
  revert i out; induction figs as [|[fmt data] figs IH]; intros i out H; cbn [figure_pages] in H.
  - inv_ok H. constructor.
  - do 7 inv_bind H. inv_ok H. cbn [concat]. apply Forall_app2; [|eapply IH; eassumption].
    apply Forall_app2; [match type of E with (if ?c then _ else _) = _ => destruct c end;
                        [eapply render_textcomp_c; [|exact E]; intros t Ht; eapply textcomp_acol; [left; reflexivity|exact Ht]|inv_ok E; constructor]|].
    apply Forall_app2; [match type of E0 with (if ?c then _ else _) = _ => destruct c end;
                        [eapply render_textcomp_c; [|exact E0]; intros t Ht; eapply textcomp_acol; [right; left; reflexivity|exact Ht]|inv_ok E0; constructor]|].
    cbn [app]. constructor; [exact I|].
    apply Forall_app2.
    { destruct (d_footnote d) as [t|] eqn:Ef; [|inv_ok E3; constructor].
      match type of E3 with (if ?c then _ else _) = _ => destruct c end; [|inv_ok E3; constructor].
      eapply render_tabletext_c; [|exact E3]. cbn. eapply tabletext_acol; [left; reflexivity|exact Ef]. }
    apply Forall_app2.
    { destruct (d_source d) as [t|] eqn:Es; [|inv_ok E4; constructor].
      match type of E4 with (if ?c then _ else _) = _ => destruct c end; [|inv_ok E4; constructor].
      eapply render_tabletext_c; [|exact E4]. eapply tabletext_acol; [right; left; reflexivity|exact Es]. }
    match goal with |- context [if ?c then [] else _] => destruct c end; constructor; [exact I|constructor].
Qed.

Theorem document_pages_colors ctx d pages :
  document_pages ctx d = Ok pages -> Forall (item_c ctx (Pd d)) (concat pages).
Proof.
  unfold document_pages. destruct (d_content d) as [f b|l|fg] eqn:Hc; intro H.
  - eapply encode_section_c; [apply single_sec_col; exact Hc|exact H].
  - eapply multi_sections_c; [exact Hc|intros fb Hfb; exact Hfb|exact H].
  - eapply figure_pages_c; exact H.
Qed.

(* with the document's own palette as context, every index is the one of a collected, non-empty colour *)
Corollary document_indices d pages :
  document_pages (Some (collect_colors d)) d = Ok pages ->
  Forall (item_c (Some (collect_colors d)) (fun c => In c (collect_colors d))) (concat pages).
Proof.
  intro H. pose proof (document_pages_colors _ _ _ H) as G.
  assert (W : forall o, idx_from (Some (collect_colors d)) (Pd d) o -> idx_from (Some (collect_colors d)) (fun c => In c (collect_colors d)) o).
  { intros o Ho z Hz. destruct (Ho z Hz) as (c & [Hc|Hc] & Hne & Hi); [congruence|]. exists c. repeat split; assumption. }
  eapply Forall_impl; [|exact G]. intros it Hit. destruct it as [r|pf rs|g|p|]; cbn in *; try exact I.
  - eapply Forall_impl; [|exact Hit]. intros c (H1 & H2 & H3 & H4 & [H5 H6]).
    unfold cell_c, bord_c, run_c in *.
    repeat split; try (destruct (ce_bl c); [apply W; assumption|exact I]); try (destruct (ce_bt c); [apply W; assumption|exact I]);
      try (destruct (ce_br c); [apply W; assumption|exact I]); try (destruct (ce_bb c); [apply W; assumption|exact I]); apply W; assumption.
  - eapply Forall_impl; [|exact Hit]. intros r [H1 H2]. split; apply W; assumption.
Qed.

(* page header / footer paragraphs *)
Lemma header_footer_items_c ctx d o t its :
  In o [d_page_header d; d_page_footer d] -> text_shown o = Some t ->
  encode_text_line ctx (tc_attrs t) (opt_list (tc_text t)) = Ok its -> Forall (item_c ctx (Pd d)) its.
Proof.
  intros Ho Ht H. eapply encode_text_line_c; [|exact H].
  unfold text_shown in Ht. destruct o as [t0|]; [|discriminate]. destruct (truthy_l (tc_text t0)); [|discriminate].
  inversion Ht; subst. eapply textcomp_acol; [|reflexivity]. destruct Ho as [<-|[<-|[]]]; [right; right; left|right; right; right; left]; reflexivity.
Qed.

(* together with color_index_resolves: the index points at the requested colour's entry of the document's own table *)
Theorem index_resolves d o :
  all_valid (collect_colors d) = true ->
  idx_from (Some (collect_colors d)) (fun c => In c (collect_colors d)) o ->
  forall z, o = Some z ->
  exists c, In c (collect_colors d) /\ z = color_index (Some (collect_colors d)) c /\
    (significant c = true -> forall m, master_index c = Some m ->
       exists k e, z = Z.of_nat (S k) /\ nth_error (sorted_palette (collect_colors d)) k = Some (c, e) /\ In (c, e) color_table).
Proof.
  intros Hv Ho z Hz. destruct (Ho z Hz) as (c & Hc & Hne & Hi). exists c. split; [exact Hc|]. split; [exact Hi|].
  intros Hs m Hm.
  assert (Hmem : mem_str c (collect_colors d) = true).
  { clear -Hc. induction (collect_colors d) as [|y l IH]; [contradiction|]. cbn [mem_str].
    destruct Hc as [->|Hc]; [rewrite GroupByProofs.str_eqb_refl; reflexivity|]. rewrite (IH Hc). apply orb_true_r. }
  destruct (color_index_resolves (collect_colors d) c Hv Hs Hmem m Hm) as (k & e & H1 & H2 & H3).
  exists k, e. rewrite Hi. repeat split; assumption.
Qed.
