(* C06: placement predicate, order of the blocks of a page, restated geometry. *)
From Coq Require Import Ascii String.
From Coq Require Import List NArith ZArith QArith Bool Arith Lia.
From V Require Import Str Num Tok Items Doc Encode Paginate Pipeline Document Checks GroupByProofs.
Import ListNotations.
Local Open Scope string_scope.
Local Open Scope list_scope.

Definition valid_loc (loc : str) : Prop := loc = s2l "first" \/ loc = s2l "last" \/ loc = s2l "all".

(* the renderer's predicate is the placement rule the checker applies to the implementation *)
Lemma should_show_placement loc p :
  valid_loc loc -> should_show loc p = placement loc (pc_first p) (pc_last p).
Proof.
  intros [-> | [-> | ->]]; unfold should_show, placement; vm_compute (str_eqb _ _);
    cbn [orb andb]; destruct (pc_first p), (pc_last p); reflexivity.
Qed.

(* on a one-page document the three options are indistinguishable *)
Theorem single_page_all_same loc p :
  valid_loc loc -> pc_first p = true -> pc_last p = true -> should_show loc p = true.
Proof.
  intros H Hf Hl. rewrite should_show_placement by exact H. rewrite Hf, Hl.
  destruct H as [-> | [-> | ->]]; vm_compute; reflexivity.
Qed.

Theorem first_only loc p : loc = s2l "first" -> should_show loc p = pc_first p.
Proof. intros ->. unfold should_show. vm_compute (str_eqb _ _). reflexivity. Qed.
Theorem last_only loc p : loc = s2l "last" -> should_show loc p = pc_last p.
Proof. intros ->. unfold should_show. vm_compute (str_eqb _ _). reflexivity. Qed.
Theorem all_pages loc p : loc = s2l "all" -> should_show loc p = true.
Proof. intros ->. unfold should_show. vm_compute (str_eqb _ _). reflexivity. Qed.

(* order of the blocks of one rendered page, and which blocks are empty when not selected *)
Theorem render_page_order ctx s pf cw rows pattrs p its :
  render_page ctx s pf cw rows pattrs p = Ok its ->
  exists title subl hdr tops bodyi fn src,
    its = (if pc_first p then [] else [IBreak (geom_of (s_page s))])
          ++ title ++ subl
          ++ (match pc_subline p with Some gv => subline_header_item gv | None => [] end)
          ++ hdr ++ tops ++ bodyi ++ fn ++ src
    /\ (should_show (p_title (s_page s)) p = false -> title = [] /\ subl = [])
    /\ (pc_needs_header p = false -> hdr = [])
    /\ (tt_shown (s_footnote s) (p_footnote (s_page s)) p = false -> fn = [])
    /\ (tt_shown (s_source s) (p_source (s_page s)) p = false -> src = []).
Proof.
  unfold render_page. intro H.
  destruct (if should_show (p_title (s_page s)) p then render_textcomp ctx (s_title s) else Ok [])
    as [title|] eqn:Et; [|discriminate]. cbn [bind] in H.
  destruct (if should_show (p_title (s_page s)) p then render_textcomp ctx (s_subline s) else Ok [])
    as [subl|] eqn:Es; [|discriminate]. cbn [bind] in H.
  destruct (if pc_needs_header p && has_column_headers (s_headers s) then _ else Ok [])
    as [hdr|] eqn:Eh; [|discriminate]. cbn [bind] in H.
  match type of H with bind ?x _ = _ => destruct x as [tops|] eqn:Etop; [|discriminate] end. cbn [bind] in H.
  match type of H with bind ?x _ = _ => destruct x as [bodyi|] eqn:Eb; [|discriminate] end. cbn [bind] in H.
  match type of H with bind ?x _ = _ => destruct x as [fn|] eqn:Ef; [|discriminate] end. cbn [bind] in H.
  match type of H with bind ?x _ = _ => destruct x as [src|] eqn:Esr; [|discriminate] end. cbn [bind] in H.
  inversion H; subst. exists title, subl, hdr, tops, bodyi, fn, src.
  split; [reflexivity|]. split; [|split; [|split]].
  - intro Hn. rewrite Hn in Et, Es. inversion Et; inversion Es; split; reflexivity.
  - intro Hn. rewrite Hn in Eh. cbn [andb] in Eh. inversion Eh; reflexivity.
  - intro Hn. destruct (s_footnote s); [rewrite Hn in Ef|]; inversion Ef; reflexivity.
  - intro Hn. destruct (s_source s); [rewrite Hn in Esr|]; inversion Esr; reflexivity.
Qed.

(* every page break restates exactly the numbers of the document start: both are geom_of the page *)
Theorem break_restates_geometry pg :
  exists w h ms,
    emit_break (geom_of pg) = tiny_par ++ [ctrl "page"] ++ tiny_par ++ [ctrlz "paperw" w; ctrlz "paperh" h] ++ ms
    /\ page_settings_tokens pg = [ctrlz "paperw" w; ctrlz "paperh" h]
                                 ++ (if p_landscape pg then [ctrl "landscape"] else []) ++ ms
    /\ w = twip (p_width pg) /\ h = twip (p_height pg)
    /\ ms = emit_margins margin_names (map twip (p_margin pg)).
Proof.
  exists (twip (p_width pg)), (twip (p_height pg)), (emit_margins margin_names (map twip (p_margin pg))).
  repeat split; reflexivity.
Qed.

(* column headers: needed on the first page and on every later page exactly when pageby_header *)
Theorem needs_header_rule f b st pages p :
  In p (build_pages f b st pages) -> pc_needs_header p = b_pageby_header b || pc_first p.
Proof.
  unfold build_pages. intro H. apply in_flat_map in H as (n & _ & H).
  destruct (range_of n pages 0 None) as [[lo hi]|]; [|contradiction].
  destruct H as [<-|[]]. reflexivity.
Qed.
