"""Structured generators of document specs (JSON-able dicts understood by rt.build).

All random choices come from one random.Random seeded by the caller, so a seed replays exactly.

Sentinel conventions (used by the Gallina classifiers):
  * the column named "id" of data row i holds a string starting with "#<i>#";
  * grouping values (page_by / subline_by / group_by columns) start with "@";
  * explicit header cells start with "H", title lines with "T", subline with "S",
    footnote with "F", source with "R", page header with "P", page footer with "Q".
"""
from __future__ import annotations

import random
from fractions import Fraction

BORDER_STYLES = ["single", "double", "thick", "dotted", "dashed", ""]
COLORS = ["red", "blue", "green", "gray", "orange", "purple", "black", "white", "gold", "navy"]
WORDS = ["alpha", "beta", "mean", "sd", "n", "pct", "visit", "dose", "mg", "12.5", "0.05", "ci", "x", "placebo", "drug"]
JUST = ["l", "c", "r", "j", "d"]
VJUST = ["top", "center", "bottom"]
FORMATS = ["", "b", "i", "bi", "u", "ib", "s", "^", "_", "bu"]


def words(r: random.Random, n: int) -> str:
    return " ".join(r.choice(WORDS) for _ in range(n))


PRINTABLE = "".join(chr(c) for c in range(32, 127) if chr(c) not in "\\{}")


def ascii_text(r: random.Random) -> str:
    """Printable ASCII incl. ^ _ >= <= (for cells whose text_convert is off)."""
    n = r.choice([0, 1, 2, 5, 9, 20])
    t = "".join(r.choice(PRINTABLE) for _ in range(n))
    if t[:1] in ("#", "@"):
        t = "x" + t[1:]          # free text never starts with a sentinel (#tag# / @group value)
    if r.random() < 0.3:
        t += r.choice([">=", "<=", "^2", "_1", " a>=b ", "x^y_z"])
    return t


def cell_text(r: random.Random, convert_safe: bool = True) -> str:
    k = r.random()
    if k < 0.08:
        return ""
    t = words(r, r.choice([1, 1, 1, 2, 2, 3, 6, 12]))
    if r.random() < 0.1:
        t = " " + t
    if r.random() < 0.1:
        t = t + "  "
    if not convert_safe and r.random() < 0.15:
        t += r.choice([" >= 1", " <= 2", " x^2", " a_1", " \\alpha", " \\pm 2"])
    return t


def shape_value(r: random.Random, nrow: int, ncol: int, pick, scalar_ok: bool = True):
    """A scalar, a per-column vector (one nested row) or a full matrix of values drawn by pick()."""
    k = r.random()
    if scalar_ok and k < 0.4:
        return pick()
    if k < 0.75 or nrow == 0:
        return [[pick() for _ in range(ncol)]]
    return [[pick() for _ in range(ncol)] for _ in range(nrow)]


class DocGen:
    def __init__(self, seed: int):
        self.r = random.Random(seed)
        self.text_mode = "safe"      # "safe": words only; "ascii": arbitrary printable ASCII (conversion off)

    def cell(self, r):
        return ascii_text(r) if self.text_mode == "ascii" else cell_text(r)

    # ------------------------------------------------------------ data
    def frame(self, nrows: int, ncols: int, grouping: dict | None = None, id_col: bool = True) -> dict:
        r = self.r
        grouping = grouping or {}
        names = []
        kinds = []
        gcols = list(grouping.keys())
        others = ncols - len(gcols) - (1 if id_col else 0)
        others = max(others, 0)
        pool = [("id", "id")] if id_col else []
        for g in gcols:
            pool.append((g, "group"))
        for j in range(others):
            pool.append((f"c{j}", r.choice(["str", "str", "int", "float", "strnull"])))
        r.shuffle(pool)
        names = [p[0] for p in pool]
        kinds = [p[1] for p in pool]
        rows = []
        for i in range(nrows):
            row = []
            for name, kind in zip(names, kinds, strict=True):
                if kind == "id":
                    tail = ascii_text(r) if self.text_mode == "ascii" else words(r, r.choice([0, 0, 1, 4, 10]))
                    row.append(f"#{i}#" + (" " + tail if r.random() < 0.5 else ""))
                elif kind == "group":
                    row.append(grouping[name][i])
                elif kind == "int":
                    row.append(r.choice([None, 0, 1, 7, 42, -3, 1000]) if r.random() < 0.2 else r.randint(0, 500))
                elif kind == "float":
                    row.append(r.choice([0.5, 1.25, 12.5, 3.0, -0.75, 100.125, None]))
                elif kind == "strnull":
                    row.append(None if r.random() < 0.3 else self.cell(r))
                else:
                    row.append(self.cell(r))
            rows.append(row)
        return {"cols": names, "rows": rows}

    def group_runs(self, nrows: int, levels: int, contiguous: bool = True, dividers: bool = False, nulls: bool = False):
        """levels columns of group keys; nested runs; returns list of per-level value lists.

        Inner labels restart under every outer run with probability 1/2, so that an outer level can
        change while the inner values stay the same ((A1,B1) -> (A2,B1))."""
        r = self.r
        cols = [[] for _ in range(levels)]
        i = 0
        counters = [0] * levels
        restart = r.random() < 0.5
        # outermost runs
        def fill(level, n, prefix):
            nonlocal cols
            if level == levels:
                return
            if restart and level > 0:
                counters[level] = 0
            left = n
            while left > 0:
                run = r.randint(1, max(1, left)) if r.random() < 0.5 else min(left, r.randint(1, 4))
                counters[level] += 1
                label = f"@{'ABCDEFGH'[level]}{counters[level]}"
                if r.random() < 0.12:
                    # the separators the library itself joins group texts with may occur inside a value
                    label += r.choice([" | x", ", y", ": z", " | @", " -----"])
                if dividers and r.random() < 0.3:
                    label = "-----"
                if nulls and r.random() < 0.15:
                    label = None
                cols[level].extend([label] * run)
                fill(level + 1, run, prefix)
                left -= run

        fill(0, nrows, "")
        if not contiguous and nrows >= 3:
            # repeat an earlier outer label later on
            cols[0][-1] = cols[0][0]
            if all(v == cols[0][0] for v in cols[0]):
                cols[0][len(cols[0]) // 2] = "@Z"
        return cols

    # ------------------------------------------------------------ attributes
    def text_attrs(self, nrow: int, ncol: int, rich: float = 0.3) -> dict:
        r = self.r
        a = {}
        if r.random() < rich:
            a["text_font"] = shape_value(r, nrow, ncol, lambda: r.randint(1, 10))
        if r.random() < rich:
            a["text_font_size"] = shape_value(r, nrow, ncol, lambda: r.choice([6, 8, 9, 9.5, 10, 10.5, 12, 14]))
        if r.random() < rich:
            a["text_format"] = shape_value(r, nrow, ncol, lambda: r.choice(FORMATS))
        if r.random() < rich:
            a["text_color"] = shape_value(r, nrow, ncol, lambda: r.choice(COLORS + [""]))
        if r.random() < rich * 0.7:
            a["text_background_color"] = shape_value(r, nrow, ncol, lambda: r.choice(COLORS + ["", ""]))
        if r.random() < rich:
            a["text_justification"] = shape_value(r, nrow, ncol, lambda: r.choice(JUST))
        if r.random() < rich * 0.5:
            a["text_indent_first"] = shape_value(r, nrow, ncol, lambda: r.choice([0, 100, 360]))
        if r.random() < rich * 0.5:
            a["text_indent_left"] = shape_value(r, nrow, ncol, lambda: r.choice([0, 50, 200]))
        if r.random() < rich * 0.5:
            a["text_indent_right"] = shape_value(r, nrow, ncol, lambda: r.choice([0, 50, 200]))
        if r.random() < rich * 0.5:
            a["text_space"] = shape_value(r, nrow, ncol, lambda: r.choice([1, 1, 2]))
        if r.random() < rich * 0.5:
            a["text_space_before"] = shape_value(r, nrow, ncol, lambda: r.choice([0, 15, 30]))
        if r.random() < rich * 0.5:
            a["text_space_after"] = shape_value(r, nrow, ncol, lambda: r.choice([0, 15, 30]))
        if r.random() < rich * 0.5:
            a["text_hyphenation"] = shape_value(r, nrow, ncol, lambda: r.random() < 0.5)
        return a

    def table_attrs(self, nrow: int, ncol: int, rich: float = 0.3) -> dict:
        r = self.r
        a = self.text_attrs(nrow, ncol, rich)
        for side in ("left", "right", "top", "bottom"):
            if r.random() < rich:
                a[f"border_{side}"] = shape_value(r, nrow, ncol, lambda: r.choice(BORDER_STYLES))
            if r.random() < rich * 0.4:
                a[f"border_color_{side}"] = shape_value(r, nrow, ncol, lambda: r.choice(COLORS + [""]))
        if r.random() < rich * 0.5:
            a["border_width"] = shape_value(r, nrow, ncol, lambda: r.choice([5, 15, 30]))
        if r.random() < rich * 0.5:
            a["cell_height"] = shape_value(r, nrow, ncol, lambda: r.choice([0.15, 0.2, 0.25, 0.5]))
        if r.random() < rich * 0.5:
            a["cell_justification"] = shape_value(r, nrow, ncol, lambda: r.choice(["l", "c", "r", ""]))
        if r.random() < rich * 0.5:
            a["cell_vertical_justification"] = shape_value(r, nrow, ncol, lambda: r.choice(VJUST))
        return a

    # ------------------------------------------------------------ components
    def page(self, nrow_range=(3, 14)) -> dict:
        r = self.r
        p = {}
        if r.random() < 0.3:
            p["orientation"] = "landscape"
        if r.random() < 0.25:
            p["width"], p["height"] = r.choice([(8.27, 11.69), (7.5, 10.0), (11.69, 8.27), (9.0, 12.0)])
        if r.random() < 0.2:
            p["margin"] = [r.choice([0.5, 0.75, 1.0, 1.25]) for _ in range(6)]
        p["nrow"] = r.randint(*nrow_range)
        if r.random() < 0.08:
            p["nrow"] = r.choice([1, 2])      # pages of a single row
        if r.random() < 0.5:
            p["col_width"] = r.choice([4.0, 5.0, 6.0, 6.25, 6.5, 7.0, 8.0, 5.5])
        if r.random() < 0.4:
            p["border_first"] = r.choice(BORDER_STYLES)
        if r.random() < 0.4:
            p["border_last"] = r.choice(BORDER_STYLES)
        for k in ("page_title", "page_footnote", "page_source"):
            if r.random() < 0.5:
                p[k] = r.choice(["first", "last", "all"])
        return p

    def text_component(self, tag: str, rich: float = 0.3) -> dict:
        r = self.r
        n = r.choice([1, 1, 2, 3])
        text = [f"{tag}{i} " + words(r, r.randint(1, 5)) for i in range(n)]
        c = {"text": text if (n > 1 or r.random() < 0.5) else text[0]}
        a = {}
        pick_n = lambda f: [f() for _ in range(n)] if r.random() < 0.5 else f()
        if r.random() < rich:
            a["text_font"] = pick_n(lambda: r.randint(1, 10))
        if r.random() < rich:
            a["text_font_size"] = pick_n(lambda: r.choice([8, 9, 10.5, 12, 14]))
        if r.random() < rich:
            a["text_format"] = pick_n(lambda: r.choice(FORMATS))
        if r.random() < rich:
            a["text_color"] = pick_n(lambda: r.choice(COLORS))
        if r.random() < rich:
            a["text_justification"] = pick_n(lambda: r.choice(JUST))
        if r.random() < rich * 0.5:
            a["text_space_before"] = pick_n(lambda: r.choice([0, 15, 90]))
        c.update(a)
        return c

    def table_text(self, tag: str, rich: float = 0.3) -> dict:
        r = self.r
        n = r.choice([1, 1, 2])
        text = [f"{tag}{i} " + words(r, r.randint(1, 6)) for i in range(n)]
        c = {"text": text if (n > 1 or r.random() < 0.5) else text[0]}
        if r.random() < 0.6:
            c["as_table"] = r.random() < 0.5
        if r.random() < rich:
            c.update(self.table_attrs(1, 1, 0.25))
            c.pop("border_color_left", None)
        return c

    def headers(self, display_cols: list[str], mode: str) -> list | None:
        r = self.r
        k = len(display_cols)
        if mode == "default":
            return None
        if mode == "none":
            return []
        if mode == "explicit":
            h = {"text": [f"H{j} " + words(r, r.randint(0, 2)) for j in range(k)]}
            if r.random() < 0.4:
                h.update(self.table_attrs(1, k, 0.2))
            if r.random() < 0.3:
                h["col_rel_width"] = [r.choice([1, 2, 3]) for _ in range(k)]
            return [h]
        if mode == "multi":
            top_n = r.randint(1, max(1, k))
            top = {"text": [f"HT{j}" for j in range(top_n)], "col_rel_width": [r.choice([1, 2]) for _ in range(top_n)]}
            bot = {"text": [f"H{j}" for j in range(k)]}
            return [top, bot]
        raise ValueError(mode)

    # ------------------------------------------------------------ documents
    def single(self, **force) -> dict:
        r = self.r
        strategy = force.get("strategy", r.choice(["plain", "plain", "page_by", "page_by", "subline", "subline+page_by", "group_by", "page_by+group_by"]))
        nrows = force.get("nrows", r.choice([0, 1, 2, 3, 5, 8, 12, 20, 30]))
        body = {}
        grouping = {}
        levels = 0
        contiguous = force.get("contiguous", r.random() < 0.9)
        dividers = r.random() < 0.35
        pb_nulls = r.random() < 0.15
        if "page_by" in strategy:
            levels = r.choice([1, 1, 2, 3])
            names = [f"g{l}" for l in range(levels)]
            vals = self.group_runs(nrows, levels, True, dividers, nulls=pb_nulls)
            grouping.update(dict(zip(names, vals, strict=True)))
            body["page_by"] = names if (levels > 1 or r.random() < 0.5) else names[0]
            if r.random() < 0.5:
                body["new_page"] = True
                if r.random() < 0.5:
                    body["pageby_row"] = "first_row"
        if "subline" in strategy:
            vals = self.group_runs(nrows, 1, True, False)
            grouping["s0"] = vals[0]
            body["subline_by"] = ["s0"]
        if "group_by" in strategy:
            glev = r.choice([1, 2])
            names = [f"k{l}" for l in range(glev)]
            vals = self.group_runs(nrows, glev, contiguous, False, nulls=r.random() < 0.3)
            grouping.update(dict(zip(names, vals, strict=True)))
            body["group_by"] = names
        ncols = len(grouping) + 1 + r.randint(0, 4)
        df = self.frame(nrows, ncols, grouping)
        if r.random() < 0.3:
            body["pageby_header"] = r.random() < 0.5
        removed = set()
        if "subline_by" in body:
            removed.update(["s0"])
        if "page_by" in body and (not body.get("new_page") or body.get("pageby_row", "column") != "column"):
            removed.update([f"g{l}" for l in range(levels)])
        display = [c for c in df["cols"] if c not in removed]
        all_ncol = len(df["cols"])
        if r.random() < 0.5:
            body.update(self.table_attrs(nrows, all_ncol, 0.25))
        if r.random() < 0.4:
            body["col_rel_width"] = [r.choice([1, 1, 2, 3, 1.5]) for _ in range(all_ncol)]
        spec = {"df": df, "body": body, "page": self.page()}
        hmode = force.get("header_mode", r.choice(["default", "default", "explicit", "multi", "none", "no_colheader"]))
        if hmode == "no_colheader":
            body["as_colheader"] = False
        else:
            hs = self.headers(display, hmode)
            if hs is not None:
                spec["headers"] = hs
        self.decorate(spec)
        spec["kind"] = "single"
        spec["strategy"] = strategy
        spec["header_mode"] = hmode
        return spec

    def decorate(self, spec: dict) -> None:
        r = self.r
        if r.random() < 0.6:
            spec["title"] = self.text_component("T")
        elif r.random() < 0.3:
            spec["title"] = None
        if r.random() < 0.35:
            spec["subline"] = self.text_component("S")
        if r.random() < 0.5:
            spec["footnote"] = self.table_text("F")
        if r.random() < 0.5:
            spec["source"] = self.table_text("R")
        if r.random() < 0.3:
            spec["page_header"] = self.text_component("P") if r.random() < 0.5 else {}
        if r.random() < 0.3:
            spec["page_footer"] = self.text_component("Q")

    def multi(self) -> dict:
        r = self.r
        n = r.choice([2, 2, 3, 4])
        sections = []
        for _ in range(n):
            nrows = r.choice([1, 2, 4, 7, 12])
            ncols = r.randint(1, 5)
            df = self.frame(nrows, ncols)
            body = {}
            if r.random() < 0.5:
                body.update(self.table_attrs(nrows, ncols, 0.2))
            if r.random() < 0.3:
                body["col_rel_width"] = [r.choice([1, 2, 3]) for _ in range(ncols)]
            sections.append({"df": df, "body": body})
        spec = {"sections": sections, "page": self.page((4, 20))}
        hm = r.choice(["nested", "nested", "flat", "default"])
        if hm == "nested":
            hs = []
            for s in sections:
                k = len(s["df"]["cols"])
                hs.append([None] if r.random() < 0.3 else [{"text": [f"H{j}" for j in range(k)]}])
            spec["headers"] = hs
        elif hm == "flat":
            k = len(sections[0]["df"]["cols"])
            spec["headers"] = [{"text": [f"H{j}" for j in range(k)]}]
        self.decorate(spec)
        spec["kind"] = "multi"
        return spec

    def image(self, kind: str) -> dict:
        r = self.r
        w, h = r.randint(1, 4000), r.randint(1, 4000)
        tail = bytes(r.randrange(256) for _ in range(r.randint(0, 120)))
        if kind == "png":
            data = b"\x89PNG\r\n\x1a\n" + b"\x00\x00\x00\rIHDR" + w.to_bytes(4, "big") + h.to_bytes(4, "big") + b"\x08\x02\x00\x00\x00" + tail
            suffix = ".png"
        elif kind == "jpeg":
            segs = b""
            for _ in range(r.randint(0, 3)):
                payload = bytes(r.randrange(256) for _ in range(r.randint(0, 20)))
                segs += b"\xff" + bytes([r.choice([0xE0, 0xE1, 0xDB, 0xC4])]) + (len(payload) + 2).to_bytes(2, "big") + payload
            sof = b"\xff" + bytes([r.choice([0xC0, 0xC2])]) + (17).to_bytes(2, "big") + b"\x08" + h.to_bytes(2, "big") + w.to_bytes(2, "big") + b"\x03" + bytes(9)
            data = b"\xff\xd8" + segs + sof + tail + bytes(10)
            suffix = r.choice([".jpg", ".jpeg"])
        else:
            data = bytes(r.randrange(256) for _ in range(r.randint(1, 100)))
            suffix = ".emf"
        return {"suffix": suffix, "hex": data.hex(), "w": w, "h": h, "kind": kind}

    def figure(self) -> dict:
        r = self.r
        n = r.randint(1, 6)
        files = [self.image(r.choice(["png", "png", "jpeg", "jpeg", "emf"])) for _ in range(n)]
        fig = {"files": files}
        dim = lambda: r.choice([2.0, 3.5, 5.0, 6.25, 4.1])
        for k in ("fig_width", "fig_height"):
            m = r.random()
            if m < 0.3:
                fig[k] = dim()
            elif m < 0.8:
                fig[k] = [dim() for _ in range(r.randint(1, n + 1))]
        if r.random() < 0.6:
            fig["fig_align"] = r.choice(["left", "center", "right"])
        spec = {"figure": fig, "page": self.page()}
        self.decorate(spec)
        for k in ("footnote", "source"):
            if k in spec and spec[k] is not None:
                spec[k]["as_table"] = False
        spec["kind"] = "figure"
        return spec

    def figure_grid(self, quick: bool) -> list:
        """Figure documents of 1, 2 and 3 figures with title, footnote and source present under every combination of the three
        placement options (quick: all 27 for one figure, the three diagonal ones for two figures)."""
        import itertools

        out = []
        for n in (1, 2, 3):
            for pt, pf, ps in itertools.product(["first", "last", "all"], repeat=3):
                if quick and not (n == 1 or (n == 2 and pt == pf == ps)):
                    continue
                files = [self.image("png" if k % 2 == 0 else "jpeg") for k in range(n)]
                out.append({"figure": {"files": files, "fig_width": 4.0, "fig_height": [3.0, 2.5]},
                            "page": {"page_title": pt, "page_footnote": pf, "page_source": ps},
                            "title": {"text": "T0 figure title"}, "footnote": {"text": "F0 note", "as_table": False},
                            "source": {"text": "R0 src", "as_table": False}, "kind": "figure"})
        return out

    def any_doc(self) -> dict:
        k = self.r.random()
        if k < 0.7:
            return self.single()
        if k < 0.85:
            return self.multi()
        return self.figure()
