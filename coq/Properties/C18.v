(* C18: exports are all-or-nothing and leave no debris (Model/Export.v). *)
From Coq Require Import Ascii String.
From Coq Require Import List NArith ZArith Bool Arith.
Local Open Scope string_scope.
Local Open Scope list_scope.
From V Require Import Str Doc Export PathLemmas ExportProofs.
Import ListNotations.

(* For EVERY scenario c (format, target path, what rtf_encode does, converter behaviour, resource folder or not, the
   library phase in which an exception is injected, any contents, any temporary directory names) and EVERY file system s
   satisfying wf (the fresh temporary directories are empty and apart from the target and its resource folder):
   - if anything fails, the export raises, EVERY file is what it was before, and nothing is left below the temporary
     directories;
   - otherwise it returns, the target holds the output, the resource folder holds exactly the converter's resources,
     every other file is what it was, and nothing is left below the temporary directories. *)
Theorem C18_all_or_nothing :
  forall c s, wf c s -> sc_fixed c = true ->
    (fails c -> exists s' e, export c s = (s', Some e) /\ (forall q, file s' q = file s q) /\ tmp_clean c s') /\
    (~ fails c -> exists s', export c s = (s', None) /\ (forall q, file s' q = done_all c s q) /\ tmp_clean c s').
Proof. exact export_all_or_nothing. Qed.
Print Assumptions C18_all_or_nothing.

(* a concrete non-trivial state: an earlier HTML export with its resource folder, nested once (what the old code produced) *)
Definition demo_fs : fsys :=
  {| file := fun q =>
       if path_eqb q [s2l "out"; s2l "rep.html"] then Some (s2l "OLD")
       else if path_eqb q [s2l "out"; s2l "rep.html_files"; s2l "old.png"] then Some (s2l "OLDRES")
       else if path_eqb q [s2l "out"; s2l "rep.html_files"; s2l "rep.html_files"; s2l "x.png"] then Some (s2l "NEST")
       else None;
     isdir := fun q =>
       path_eqb q [s2l "out"] || path_eqb q [s2l "tmp"] || path_eqb q [s2l "out"; s2l "rep.html_files"]
       || path_eqb q [s2l "out"; s2l "rep.html_files"; s2l "rep.html_files"] |}.

Definition demo_scen (fixed : bool) : scen :=
  {| sc_fmt := FHtml; sc_target := [s2l "out"; s2l "rep.html"]; sc_stem := s2l "rep"; sc_code := Ok (s2l "RTF");
     sc_beh := BOk; sc_resdir := true; sc_fault := FNone; sc_conv := s2l "CONV"; sc_resfile := s2l "RES";
     sc_t1 := [s2l "tmp"; s2l "t1"]; sc_t2 := [s2l "tmp"; s2l "t2"]; sc_fixed := fixed |}.

Lemma demo_fresh t : (t = s2l "t1" \/ t = s2l "t2") ->
  forall q, is_prefix [s2l "tmp"; t] q = true -> file demo_fs q = None /\ isdir demo_fs q = false.
Proof.
  intros Ht q H. apply is_prefix_spec in H as [r ->]. destruct Ht as [-> | ->]; split; vm_compute; reflexivity.
Qed.

Example C18_hypotheses_satisfiable : forall fixed, wf (demo_scen fixed) demo_fs.
Proof.
  intro fixed. constructor; try (vm_compute; reflexivity); try (vm_compute; discriminate).
  - apply demo_fresh. left; reflexivity.
  - apply demo_fresh. right; reflexivity.
Qed.

Example C18_demo_done :
  let '(s', o) := export (demo_scen true) demo_fs in
  o = None /\ file s' [s2l "out"; s2l "rep.html"] = Some (s2l "CONV")
  /\ file s' [s2l "out"; s2l "rep.html_files"; s2l "img0.png"] = Some (s2l "RES")
  /\ file s' [s2l "out"; s2l "rep.html_files"; s2l "old.png"] = None.
Proof. vm_compute. repeat split; reflexivity. Qed.

(* write_html before the repair (sc_fixed = false): on the same state it raises AFTER replacing the target *)
Theorem C18_old_write_html_refuted :
  let '(s', o) := export (demo_scen false) demo_fs in
  o = Some OtherErr /\ file s' [s2l "out"; s2l "rep.html"] <> file demo_fs [s2l "out"; s2l "rep.html"].
Proof. vm_compute. split; [reflexivity|discriminate]. Qed.
Print Assumptions C18_old_write_html_refuted.

(* The hypotheses survive: whatever an export did (raised or returned), the state it leaves satisfies wf again, so
   C18_all_or_nothing applies to a retry after a failure and to a re-export over the previous output - for every
   scenario and every well-formed starting state. *)
Theorem C18_wf_preserved : forall c s s' o,
  wf c s -> sc_fixed c = true -> export c s = (s', o) -> wf c s'.
Proof. exact export_wf_preserved. Qed.
Print Assumptions C18_wf_preserved.

Theorem C18_again : forall c s s1 o1,
  wf c s -> sc_fixed c = true -> export c s = (s1, o1) ->
    (fails c -> exists s' e, export c s1 = (s', Some e) /\ (forall q, file s' q = file s1 q) /\ tmp_clean c s') /\
    (~ fails c -> exists s', export c s1 = (s', None) /\ (forall q, file s' q = done_all c s1 q) /\ tmp_clean c s').
Proof.
  intros c s s1 o1 W F E. apply export_all_or_nothing; [exact (export_wf_preserved c s s1 o1 W F E)|exact F].
Qed.
Print Assumptions C18_again.
