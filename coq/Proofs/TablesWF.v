(* Finite facts about the regenerated code tables (re-checked by vm_compute whenever the code's tables change). *)
From Coq Require Import Ascii String.
From Coq Require Import List NArith ZArith Bool Arith.
From V Require Import Str Tok Tables WellFormed.
Import ListNotations.

Definition structural_names : list str :=
  map s2l ["trowd"; "cellx"; "cell"; "row"; "page"; "par"; "pard"; "u"; "uc"]%string.

(* a code string is a (possibly empty) sequence of lower-case control words, none of them structural *)
Definition simple_ctrl (t : tok) : bool :=
  match t with
  | TCtrl n _ => nonempty_lower n && negb (mem_str n structural_names)
  | _ => false
  end.
Definition simple_code (s : str) : bool := all_b simple_ctrl (lex s).

Definition table_simple (tbl : list (str * str)) : bool := all_b (fun kv => simple_code (snd kv)) tbl.

Lemma border_codes_simple : table_simple border_codes = true. Proof. vm_compute. reflexivity. Qed.
Lemma format_codes_simple : table_simple format_codes = true. Proof. vm_compute. reflexivity. Qed.
Lemma text_just_codes_simple : table_simple text_just_codes = true. Proof. vm_compute. reflexivity. Qed.
Lemma row_just_codes_simple : table_simple row_just_codes = true. Proof. vm_compute. reflexivity. Qed.
Lemma vert_codes_simple : table_simple vert_codes = true. Proof. vm_compute. reflexivity. Qed.

(* the replacement strings of pass 1 are balanced, lexically valid RTF fragments *)
Definition fragment_ok (s : str) : bool :=
  let ts := lex s in balanced ts && all_b tok_lexical ts.
Lemma rtf_char_mapping_fragments : all_b (fun kv => fragment_ok (snd kv)) rtf_char_mapping = true.
Proof. vm_compute. reflexivity. Qed.

(* the font table has exactly the ten fonts 1..10, and every style / charset code is a simple control word *)
Lemma font_table_numbers : map fst font_table = [1; 2; 3; 4; 5; 6; 7; 8; 9; 10]%Z.
Proof. vm_compute. reflexivity. Qed.
Lemma font_table_codes_simple :
  all_b (fun e => simple_code (fst (snd e)) && simple_code (fst (snd (snd e)))) font_table = true.
Proof. vm_compute. reflexivity. Qed.
