(* Decoding of harness cases (S-expressions) into the model's document state. *)
From Coq Require Import Ascii String.
From Coq Require Import List NArith ZArith QArith Bool.
From V Require Import Str Num Tok Doc.
Import ListNotations.
Local Open Scope string_scope.
Local Open Scope list_scope.

Inductive sexp := SNum (digits : str) | SStr (s : str) | SList (l : list sexp).

Definition dec (A : Type) := sexp -> option A.

Definition dZ : dec Z := fun e =>
  match e with
  | SNum (45%N :: ds) => Some (Z.opp (Z.of_N (digits_to_N ds 0)))
  | SNum ds => Some (Z.of_N (digits_to_N ds 0))
  | _ => None
  end.
Definition dNat : dec nat := fun e => option_map Z.to_nat (dZ e).
Definition dBool : dec bool := fun e => option_map (fun z => negb (Z.eqb z 0)) (dZ e).
Definition dStr : dec str := fun e => match e with SStr s => Some s | _ => None end.
Definition dQ : dec Q := fun e =>
  match e with
  | SList [n; d] =>
    match dZ n, dZ d with
    | Some a, Some (Zpos p) => Some (Qred (a # p))
    | _, _ => None
    end
  | _ => None
  end.

Fixpoint mapO {A B} (f : A -> option B) (l : list A) : option (list B) :=
  match l with
  | [] => Some []
  | x :: r => match f x, mapO f r with Some y, Some ys => Some (y :: ys) | _, _ => None end
  end.

Definition dList {A} (d : dec A) : dec (list A) := fun e =>
  match e with SList l => mapO d l | _ => None end.
Definition dOpt {A} (d : dec A) : dec (option A) := fun e =>
  match e with
  | SList [] => Some None
  | SList [x] => option_map Some (d x)
  | _ => None
  end.
Definition dPair {A B} (da : dec A) (db : dec B) : dec (A * B) := fun e =>
  match e with
  | SList [a; b] => match da a, db b with Some x, Some y => Some (x, y) | _, _ => None end
  | _ => None
  end.
Definition dMat {A} (d : dec A) : dec (omat A) := dOpt (dList (dList d)).

Definition dVal : dec val := fun e =>
  match e with
  | SList [t] => match dZ t with Some 0%Z => Some VNull | _ => None end
  | SList [t; x] =>
    match dZ t with
    | Some 1%Z => option_map VStr (dStr x)
    | Some 2%Z => option_map VInt (dZ x)
    | Some 3%Z => option_map VFloat (dStr x)
    | _ => None
    end
  | _ => None
  end.

Definition dFrame : dec frame := fun e =>
  match e with
  | SList [c; r] =>
    match dList dStr c, dList (dList dVal) r with
    | Some cols, Some rows => Some {| f_cols := cols; f_rows := rows |}
    | _, _ => None
    end
  | _ => None
  end.

Notation "'let?' x := e 'in' k" := (match e with Some x => k | None => None end)
  (at level 200, x pattern, e at level 100, k at level 200).

Definition dAttrs : dec attrs := fun e =>
  match e with
  | SList [x1; x2; x3; x4; x5; x6; x7; x8; x9; x10; x11; x12; x13; x14; x15; x16; x17; x18; x19; x20;
           x21; x22; x23; x24; x25; x26; x27; x28; x29; x30; x31] =>
    let? font := dMat dZ x1 in
    let? format := dMat dStr x2 in
    let? size := dMat dQ x3 in
    let? color := dMat dStr x4 in
    let? bg := dMat dStr x5 in
    let? just := dMat dStr x6 in
    let? i1 := dMat dZ x7 in
    let? i2 := dMat dZ x8 in
    let? i3 := dMat dZ x9 in
    let? sp := dMat dZ x10 in
    let? sb := dMat dZ x11 in
    let? sa := dMat dZ x12 in
    let? hy := dMat dBool x13 in
    let? cv := dMat dBool x14 in
    let? crw := dOpt (dList dQ) x15 in
    let? bl := dMat dStr x16 in
    let? br := dMat dStr x17 in
    let? bt := dMat dStr x18 in
    let? bb := dMat dStr x19 in
    let? bf := dMat dStr x20 in
    let? bla := dMat dStr x21 in
    let? bcl := dMat dStr x22 in
    let? bcr := dMat dStr x23 in
    let? bct := dMat dStr x24 in
    let? bcb := dMat dStr x25 in
    let? bcf := dMat dStr x26 in
    let? bcla := dMat dStr x27 in
    let? bw := dMat dZ x28 in
    let? ch := dMat dQ x29 in
    let? cj := dMat dStr x30 in
    let? cvj := dMat dStr x31 in
    Some {| a_font := font; a_format := format; a_size := size; a_color := color; a_bg := bg; a_just := just;
            a_ifirst := i1; a_ileft := i2; a_iright := i3; a_space := sp; a_sb := sb; a_sa := sa;
            a_hyph := hy; a_conv := cv; a_crw := crw;
            a_bl := bl; a_br := br; a_bt := bt; a_bb := bb; a_bfirst := bf; a_blast := bla;
            a_bcl := bcl; a_bcr := bcr; a_bct := bct; a_bcb := bcb; a_bcfirst := bcf; a_bclast := bcla;
            a_bw := bw; a_ch := ch; a_cj := cj; a_cvj := cvj |}
  | _ => None
  end.

Definition dTextcomp : dec textcomp := fun e =>
  match e with
  | SList [t; a] =>
    let? text := dOpt (dList dStr) t in
    let? at_ := dAttrs a in
    Some {| tc_text := text; tc_attrs := at_ |}
  | _ => None
  end.

Definition dTabletext : dec tabletext := fun e =>
  match e with
  | SList [t; tb; a] =>
    let? text := dOpt dStr t in
    let? ast := dBool tb in
    let? at_ := dAttrs a in
    Some {| tt_text := text; tt_as_table := ast; tt_attrs := at_ |}
  | _ => None
  end.

Definition dHeader : dec header := fun e =>
  match e with
  | SList [t; a] =>
    let? text := dOpt (dList dStr) t in
    let? at_ := dAttrs a in
    Some {| h_text := text; h_attrs := at_ |}
  | _ => None
  end.

Definition dBody : dec body := fun e =>
  match e with
  | SList [a; ach; gb; pb; np; ph; pr; sl] =>
    let? at_ := dAttrs a in
    let? x1 := dBool ach in
    let? x2 := dOpt (dList dStr) gb in
    let? x3 := dOpt (dList dStr) pb in
    let? x4 := dBool np in
    let? x5 := dBool ph in
    let? x6 := dStr pr in
    let? x7 := dOpt (dList dStr) sl in
    Some {| b_attrs := at_; b_as_colheader := x1; b_group_by := x2; b_page_by := x3; b_new_page := x4;
            b_pageby_header := x5; b_pageby_row := x6; b_subline_by := x7 |}
  | _ => None
  end.

Definition dPage : dec page := fun e =>
  match e with
  | SList [ls; w; h; m; n; bf; bl; cw; pt; pf; ps] =>
    let? x1 := dBool ls in
    let? x2 := dQ w in
    let? x3 := dQ h in
    let? x4 := dList dQ m in
    let? x5 := dZ n in
    let? x6 := dOpt dStr bf in
    let? x7 := dOpt dStr bl in
    let? x8 := dQ cw in
    let? x9 := dStr pt in
    let? x10 := dStr pf in
    let? x11 := dStr ps in
    Some {| p_landscape := x1; p_width := x2; p_height := x3; p_margin := x4; p_nrow := x5;
            p_border_first := x6; p_border_last := x7; p_col_width := x8;
            p_title := x9; p_footnote := x10; p_source := x11 |}
  | _ => None
  end.

Definition dFigure : dec figure := fun e =>
  match e with
  | SList [dt; w; h; al] =>
    let? x1 := dList (dPair dStr dStr) dt in
    let? x2 := dList dQ w in
    let? x3 := dList dQ h in
    let? x4 := dStr al in
    Some {| fg_data := x1; fg_width := x2; fg_height := x3; fg_align := x4 |}
  | _ => None
  end.

Definition dHeaders : dec headers := fun e =>
  match e with
  | SList [t] => match dZ t with Some 0%Z => Some HNone | _ => None end
  | SList [t; x] =>
    match dZ t with
    | Some 1%Z => option_map HFlat (dList (dOpt dHeader) x)
    | Some 2%Z => option_map HNested (dList (dList (dOpt dHeader)) x)
    | _ => None
    end
  | _ => None
  end.

Definition dContent : dec content := fun e =>
  match e with
  | SList [t; x] =>
    match dZ t with
    | Some 1%Z => match x with
                  | SList [f; b] => let? fr := dFrame f in let? bo := dBody b in Some (CSingle fr bo)
                  | _ => None
                  end
    | Some 2%Z => option_map CMulti (dList (dPair dFrame dBody) x)
    | Some 3%Z => option_map CFigure (dFigure x)
    | _ => None
    end
  | _ => None
  end.

Definition dDoc : dec doc := fun e =>
  match e with
  | SList [c; pg; ph; pf; ti; su; hs; fn; so; ws] =>
    let? x1 := dContent c in
    let? x2 := dPage pg in
    let? x3 := dOpt dTextcomp ph in
    let? x4 := dOpt dTextcomp pf in
    let? x5 := dOpt dTextcomp ti in
    let? x6 := dOpt dTextcomp su in
    let? x7 := dHeaders hs in
    let? x8 := dOpt dTabletext fn in
    let? x9 := dOpt dTabletext so in
    let? x10 := dList (dPair dStr dQ) ws in
    Some {| d_content := x1; d_page := x2; d_page_header := x3; d_page_footer := x4; d_title := x5;
            d_subline := x6; d_headers := x7; d_footnote := x8; d_source := x9; d_widths := x10 |}
  | _ => None
  end.
