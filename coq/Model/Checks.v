(* Property predicates, evaluated on what a reader sees (pdoc) for a given document state. *)
From Coq Require Import Ascii String.
From Coq Require Import List NArith ZArith QArith Bool Arith.
From V Require Import Str Num Tok Tables Items Read Decode WellFormed Doc Broadcast TextConv Encode
     Paginate GroupBy Pipeline Figure Document.
Import ListNotations.
Local Open Scope string_scope.
Local Open Scope list_scope.

(* ---- shared: pagination facts of a single section as the model derives them from the document ---- *)
Record secinfo := {
  si_sec : secdoc; si_pf : frame; si_pattrs : attrs; si_removed : list nat; si_cw : list Q;
  si_metas : list rowmeta; si_avail : Z; si_new_page : bool
}.

Definition section_info (s : secdoc) : res secinfo :=
  let '(pf, pattrs, rem) := prepare (s_frame s) (s_body s) in
  let W := p_col_width (s_page s) in
  let cw := match a_crw pattrs with
            | Some ((_ :: _) as l) => col_widths l W
            | _ => col_widths (repeat (1 # 1) (length (f_cols pf))) W
            end in
  let b := s_body s in
  let st := choose_strategy b in
  do ms <- match st with
           | SDefault => row_metadata (s_widths s) (s_frame s) rem cw None None
           | SPageBy => row_metadata (s_widths s) (s_frame s) rem cw (b_page_by b) None
           | SSubline => row_metadata (s_widths s) (s_frame s) rem cw (b_page_by b) (b_subline_by b)
           end;
  Ok {| si_sec := s; si_pf := pf; si_pattrs := pattrs; si_removed := rem; si_cw := cw; si_metas := ms;
        si_avail := Z.max 1 (p_nrow (s_page s) - additional_rows s);
        si_new_page := match st with SDefault => false | SPageBy => b_new_page b | SSubline => true end |}.

(* data-row tags per page of the observed document *)
Definition observed_pages (pd : pdoc) : list (list item) := pages_of (pd_items pd).
Definition page_tags (pd : pdoc) : list (list nat) := map (fun p => map fst (data_rows p)) (observed_pages pd).

Fixpoint number_pages (pages : list (list nat)) (k : Z) : list Z :=
  match pages with
  | [] => []
  | p :: r => map (fun _ => k) p ++ number_pages r (k + 1)%Z
  end.

Definition nat_list_eqb := list_eqb Nat.eqb.

(* ---- C04 ---- *)
(* clause ids: 1 rows not the original order exactly once; 2 empty page; 3 break rule; 4 model error *)
Definition check_c04 (d : doc) (pd : pdoc) : nat * list Z :=
  match d_content d with
  | CSingle f b =>
    let s := single_secdoc d f b in
    let tags := page_tags pd in
    let n := length (f_rows f) in
    let pages := number_pages tags 1 in
    if negb (nat_list_eqb (concat tags) (seq 0 n)) then (1%nat, pages)
    else if Nat.ltb 0 n && any_b (fun p => match p with [] => true | _ => false end) tags then (2%nat, pages)
    else match section_info s with
         | Err _ => (4%nat, pages)
         | Ok si => if check_assign (si_avail si) (si_new_page si) (si_metas si) pages then (0%nat, pages) else (3%nat, pages)
         end
  | _ => (0%nat, [])
  end.

Definition model_pages_c04 (d : doc) : option (list Z) :=
  match d_content d with
  | CSingle f b =>
    match section_info (single_secdoc d f b) with
    | Ok si => Some (assign_loop (si_avail si) (si_new_page si) (si_metas si) true 1 0)
    | Err _ => None
    end
  | _ => None
  end.

(* ---- C02 ---- *)
Definition kept_display (f : frame) (b : body) : list (list str) :=
  let rem := removed_indices f b in
  map (fun row => map display (drop_idx rem row)) (f_rows f).

Definition sections_of (d : doc) : list (frame * body) :=
  match d_content d with
  | CSingle f b => [(f, b)]
  | CMulti l => l
  | CFigure _ => []
  end.

Definition all_data_rows (pd : pdoc) : list (nat * row) := flat_map data_rows (observed_pages pd).

Definition str_list_eqb := list_eqb str_eqb.

(* clause ids: 1 tags are not each section's 0..n-1 in order; 2 some cell text differs; 0 ok *)
Definition check_c02 (d : doc) (pd : pdoc) : nat :=
  let secs := sections_of d in
  let obs := all_data_rows pd in
  let want_tags := flat_map (fun fb => seq 0 (length (f_rows (fst fb)))) secs in
  let want_text := flat_map (fun fb => kept_display (fst fb) (snd fb)) secs in
  if negb (nat_list_eqb (map fst obs) want_tags) then 1
  else if negb (list_eqb str_list_eqb (map (fun tr => map cell_text (rw_cells (snd tr))) obs) want_text) then 2
  else 0.
