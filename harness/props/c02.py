"""C02: no data cell is lost, duplicated, reordered or altered."""
from . import common

TRUSTED = ["C02 predicate check_c02 (Model/Checks.v): tagged rows read back from rtf_encode() vs the frame's display texts"]
ASSUMPTIONS = ["text without conversion-triggering sequences when text_convert is on; printable ASCII without \\ { } when it is off; group_by absent"]

STRATS = ["plain", "plain", "page_by", "page_by", "subline", "subline+page_by"]


def generate(g, i):
    r = g.r
    g.text_mode = "ascii" if r.random() < 0.4 else "safe"
    if r.random() < 0.8:
        spec = g.single(strategy=r.choice(STRATS))
        if g.text_mode == "ascii":
            spec["body"]["text_convert"] = False
    else:
        spec = g.multi()
        if g.text_mode == "ascii":
            for s in spec["sections"]:
                s["body"]["text_convert"] = False
    g.text_mode = "safe"
    return spec


def run(ctx):
    return common.run_docprop(ctx, "c02", generate, None, n_quick=160, n_thorough=3000,
                              nontrivial=lambda rec: int((rec["result"] or {}).get("nrows", "0")) > 0)
