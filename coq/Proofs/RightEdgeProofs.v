(* C08: every row rendered from a width list that has one entry per value ends at twip(col_width). *)
From Coq Require Import Ascii String.
From Coq Require Import List NArith ZArith QArith Bool Arith Lia.
From V Require Import Str Num Tok Items Doc Broadcast Encode Paginate Pipeline.
From V Require Import WidthProofs DocumentWF.
Import ListNotations.
Local Open Scope list_scope.
Local Open Scope nat_scope.

Definition row_end (r : row) : option Z := option_map ce_x (last_opt (rw_cells r)).

Lemma encode_cells_last ctx a widths ncols vals r j cells x :
  encode_cells ctx a widths ncols vals r j = Ok cells -> vals <> [] ->
  nth_error widths (j + length vals - 1) = Some x ->
  option_map ce_x (last_opt cells) = Some (twip x).
Proof.
  revert j cells; induction vals as [|v vals IH]; intros j cells H Hne Hn; [congruence|].
  cbn [encode_cells] in H. do 10 inv_bind H. inv_bind H. inv_ok H.
  destruct vals as [|v2 vals2].
  - cbn [encode_cells] in E9. inv_ok E9. cbn [last_opt option_map ce_x].
    cbn [length] in Hn. replace (j + 1 - 1) with j in Hn by lia.
    unfold nth_res in E8. rewrite Hn in E8. cbn in E8. inv_ok E8. reflexivity.
  - assert (Hl : option_map ce_x (last_opt x10) = Some (twip x)).
    { eapply (IH (S j)); [exact E9|discriminate|].
      cbn [length] in *. replace (S j + S (length vals2) - 1) with (j + S (S (length vals2)) - 1) by lia. exact Hn. }
    destruct x10 as [|c cs]; [cbn in Hl; discriminate|]. cbn [last_opt] in *. exact Hl.
Qed.

Lemma last_opt_nth {A} (l : list A) : forall y, last_opt l = Some y -> nth_error l (length l - 1) = Some y.
Proof.
  induction l as [|a l IH]; intros y H; [discriminate|]. destruct l as [|b l2].
  - cbn in H. inversion H; reflexivity.
  - change (last_opt (a :: b :: l2)) with (last_opt (b :: l2)) in H. specialize (IH y H).
    cbn [length] in *. replace (S (S (length l2)) - 1) with (S (S (length l2) - 1)) by lia. exact IH.
Qed.

Theorem encode_row_right_edge ctx a crw W vals r rw :
  encode_row ctx a (col_widths crw W) vals r = Ok rw ->
  vals <> [] -> length vals = length crw -> ~ (qsum crw == 0)%Q ->
  row_end rw = Some (twip W).
Proof.
  unfold encode_row, row_end. intros H Hne Hlen Hq. do 4 inv_bind H. inv_ok H. cbn [rw_cells].
  destruct (last_opt (col_widths crw W)) as [xl|] eqn:El.
  - rewrite <- (right_edge crw W xl El Hq).
    eapply encode_cells_last; [exact E|exact Hne|].
    cbn [Nat.add]. rewrite Hlen, <- (col_widths_length crw W). apply last_opt_nth. exact El.
  - exfalso. destruct vals as [|v vals]; [congruence|].
    pose proof (col_widths_length crw W) as L. destruct (col_widths crw W) as [|q qs]; [cbn in L, Hlen; lia|].
    clear -El. revert q El. induction qs as [|q2 qs IH]; intros q El; cbn [last_opt] in El; [discriminate|]. exact (IH q2 El).
Qed.

Theorem table_rows_right_edge ctx a crw W rows off its :
  table_encode ctx a (col_widths crw W) rows off = Ok its ->
  ~ (qsum crw == 0)%Q -> Forall (fun vals => vals <> [] /\ length vals = length crw) rows ->
  Forall (fun i => match i with IRow r => row_end r = Some (twip W) | _ => True end) its.
Proof.
  unfold table_encode. intros H Hq Hr. inv_bind H. inv_ok H.
  revert off x E; induction Hr as [|vals rows [Hne Hl] _ IH]; intros off x E; cbn [encode_rows] in E.
  - inv_ok E. constructor.
  - do 2 inv_bind E. inv_ok E. cbn [map]. constructor; [|eapply IH; eassumption].
    eapply encode_row_right_edge; eassumption.
Qed.

(* the spanning heading rows use the table width directly *)
Theorem spanning_row_right_edge ctx s text col its :
  spanning_row ctx s text col = Ok its ->
  Forall (fun i => match i with IRow r => row_end r = Some (twip (p_col_width (s_page s))) | _ => True end) its.
Proof.
  unfold spanning_row. intro H. do 21 inv_bind H. do 2 inv_bind H. do 4 inv_bind H. do 2 inv_bind H. inv_ok H.
  constructor; [reflexivity|constructor].
Qed.
