#!/venv/bin/python
"""Operation histories over a pool of documents (C14): interpreter + fresh-process worker.

As a script: reads {"pool": [specs], "ops": [["C"|"E", i], ...], "share": bool, "palettes": bool} on stdin, runs the
operations in THIS fresh interpreter and prints one JSON object with the per-operation results."""
from __future__ import annotations

import hashlib
import json
import os
import sys
import threading

HERE = os.path.dirname(os.path.abspath(__file__))
sys.path.insert(0, HERE)


def pool(seed: int) -> list[dict]:
    """Documents of every kind the property names; component specs repeat so that they can be shared."""
    import gen

    g = gen.DocGen(1000 + seed)
    f3 = {"cols": ["id", "a", "b"], "rows": [[f"#{i}# r{i}", f"a{i}", i] for i in range(4)]}
    f3b = {"cols": ["id", "x", "y"], "rows": [[f"#{i}# q{i}", f"x{i}", 1.5 * i] for i in range(5)]}
    f5 = {"cols": ["id", "a", "b", "c", "d"], "rows": [[f"#{i}# r{i}", "u", "v", i, "w"] for i in range(3)]}
    bad = {"cols": ["g", "id", "v"], "rows": [["A", "#0#", "1"], ["B", "#1#", "2"], ["A", "#2#", "3"]]}
    paged = {"cols": ["id", "p", "v"], "rows": [[f"#{i}#", "@P" + "ABC"[i // 5], f"v{i}"] for i in range(15)]}
    fig = g.figure()
    fig["title"] = {"text": ["T fig"], "text_color": "navy"}
    fig.pop("kind", None)
    # texts of graded length around the width of their column: some cell is always close to a wrap threshold, so that a width
    # measured with another document's font or size moves a page break
    graded = {"cols": ["id", "t"], "rows": [[f"#{i}#", ("mean sd pct ci " * 8)[: 48 + i].rstrip() + "."] for i in range(14)]}
    hdr = {"text": ["H id", "H a", "H b"]}
    bmat = [["single", "", "dotted"], ["", "single", ""], ["dashed", "", "single"], ["", "", ""]]
    return [
        # 0/1: plain, same (shareable) RTFBody()/RTFPage(), different column counts
        {"df": f3, "body": {}, "page": {}},
        {"df": f5, "body": {}, "page": {}},
        # 2/3: coloured single-section documents with different palettes
        {"df": f3, "body": {"text_color": [["red", "blue", "gold"]], "text_background_color": "gray90"},
         "title": {"text": ["T two"], "text_color": "purple"}, "page": {}},
        {"df": f3b, "body": {"text_color": "darkgreen", "border_color_left": "orange", "col_rel_width": [3, 2, 1]},
         "headers": [hdr], "footnote": {"text": ["F three"], "text_color": "tan"}, "page": {}},
        # 4: multi-section, coloured, footnote on every page
        {"sections": [{"df": f3, "body": {"text_color": "blue"}}, {"df": f3b, "body": {"text_color": "gold"}}],
         "footnote": {"text": ["F multi"]}, "source": {"text": ["R multi"], "text_color": "red"},
         "page": {"page_footnote": "all", "nrow": 12}},
        # 5: figure, coloured title
        fig,
        # 6: grouped, not contiguous -> rtf_encode raises ValueError; coloured so that a palette is in play
        {"df": bad, "body": {"group_by": ["g"], "text_color": "green", "text_background_color": "pink"}, "page": {}},
        # 7: paginated with page_by
        {"df": paged, "body": {"page_by": ["p"], "text_color": "purple"}, "page": {"nrow": 8},
         "title": {"text": ["T paged"]}},
        # 8: shares the header object of 3 (same spec) but other widths; shares RTFPage()
        {"df": f3, "body": {"col_rel_width": [1, 2, 3], "text_color": "black"}, "headers": [hdr], "page": {}},
        # 9: multi-section without colours
        {"sections": [{"df": f5, "body": {}}, {"df": f3, "body": {}}], "page": {}},
        # 10: footnote table on every page of a paginated document whose body closes pages with an empty border_last
        {"df": paged, "body": {"border_last": ""}, "page": {"nrow": 8, "page_footnote": "all"}, "footnote": {"text": ["F all"]}},
        # 11: the footnote spec of 3 (one shared object) but closed by a table-rendered source; shares that source with 12
        {"df": f3, "body": {}, "footnote": {"text": ["F three"], "text_color": "tan"},
         "source": {"text": ["R shared"], "as_table": True}, "page": {}},
        # 12: the shared source, on a page that ends without a closing border
        {"df": f3b, "body": {}, "source": {"text": ["R shared"], "as_table": True}, "page": {"border_last": ""}},
        # 13/14: one RTFBody (shareable) with cell-by-cell border matrices of the frame's own shape; 14 closes its table differently
        {"df": f3, "body": {"border_top": bmat, "border_bottom": bmat}, "page": {}},
        {"df": f3, "body": {"border_top": bmat, "border_bottom": bmat}, "footnote": {"text": ["F closes"], "as_table": True},
         "page": {"border_last": "", "border_first": "dotted"}},
        # 15/16/17: one frame, tight pages, measured in Times 10pt, Times 9.5pt and Courier New 14pt
        {"df": graded, "body": {"text_font_size": 10}, "page": {"nrow": 6}},
        {"df": graded, "body": {"text_font_size": 9.5}, "page": {"nrow": 6}},
        {"df": graded, "body": {"text_font": 9, "text_font_size": 14}, "page": {"nrow": 6}},
    ]


def ctx_str(v) -> str:
    return "N" if v is None else "S:" + ",".join(sorted(v))


class Recorder:
    """Records every read and write of the colour context, per thread, without touching /repo."""

    def __init__(self):
        from rtflite.services.color_service import ColorService, color_service

        self.events = []          # (thread ident, 'set'|'get', ctx_str)
        self.on_event = None
        self.service = color_service
        base = ColorService
        base_prop = None
        for k in base.__mro__:
            if "_current_document_colors" in k.__dict__ and isinstance(k.__dict__["_current_document_colors"], property):
                base_prop = k.__dict__["_current_document_colors"]
                break
        rec = self

        def getter(obj):
            v = base_prop.fget(obj) if base_prop else obj.__dict__.get("_current_document_colors")
            rec.events.append((threading.get_ident(), "get", ctx_str(v)))
            if rec.on_event:
                rec.on_event()
            return v

        def setter(obj, v):
            if base_prop:
                base_prop.fset(obj, v)
            else:
                obj.__dict__["_current_document_colors"] = v
            rec.events.append((threading.get_ident(), "set", ctx_str(v)))
            if rec.on_event:
                rec.on_event()

        self.kind = "property" if base_prop else "attribute"
        sub = type("RecordingColorService", (type(color_service),), {"_current_document_colors": property(getter, setter)})
        color_service.__class__ = sub

    def peek(self) -> str:
        n = len(self.events)
        v = self.service._current_document_colors
        del self.events[n:]
        return ctx_str(v)


def frames_of(doc_inputs):
    df = doc_inputs.get("df")
    if df is None:
        return []
    return df if isinstance(df, list) else [df]


def run_ops(pool_specs, ops, share: bool, palettes: bool = False) -> dict:
    import rt

    rec = Recorder()
    cache = {} if share else None
    docs = {}
    inputs = {}
    snaps = {}
    results = []

    def construct(i):
        inp = {}
        doc = rt.build(pool_specs[i], share=cache, inputs=inp)
        docs[i] = doc
        inputs[i] = inp
        snaps[i] = [f.clone() for f in frames_of(inp)]

    for kind, i in ops:
        start = len(rec.events)
        res = {"op": kind, "i": i}
        try:
            if kind == "C":
                construct(i)
            else:
                if i not in docs:
                    construct(i)
                try:
                    out = docs[i].rtf_encode()
                    res.update(ok=True, sha=hashlib.sha1(out.encode("utf-8", "surrogatepass")).hexdigest(), n=len(out))
                except Exception as e:  # noqa: BLE001
                    res.update(ok=False, exc=rt.exc_class(e))
                now = frames_of(inputs[i])
                res["df_same"] = all(a.schema == b.schema and a.equals(b, null_equal=True) for a, b in zip(now, snaps[i], strict=True))
        except Exception as e:  # noqa: BLE001
            res.update(ok=False, exc="construct:" + rt.exc_class(e))
        evs = rec.events[start:]
        gets = sorted({v for _t, k, v in evs if k == "get"})
        sets = [v for _t, k, v in evs if k == "set"]
        res["gets"] = gets
        res["first_set"] = sets[0] if sets else None
        res["after"] = rec.peek()
        results.append(res)
    out = {"results": results, "recorder": rec.kind}
    if palettes:
        from rtflite.services.color_service import color_service

        pals = {}
        for i, spec in enumerate(pool_specs):
            try:
                pals[i] = sorted(color_service.collect_document_colors(rt.build(spec)) or [])
            except Exception:  # noqa: BLE001
                pals[i] = None
        out["palettes"] = pals
    return out


def main():
    req = json.load(sys.stdin)
    out = run_ops(req["pool"], req["ops"], req.get("share", False), req.get("palettes", False))
    json.dump(out, sys.stdout)


if __name__ == "__main__":
    main()
