From Coq Require Import Ascii String.
From Coq Require Import List NArith ZArith QArith Bool Arith Lia.
From V Require Import Str Num Doc Paginate.
From V Require Import DocumentWF.
Import ListNotations.
Local Open Scope list_scope.

(* "divider values never cost a data row": a row all of whose grouping values are the divider is budgeted with its data
   lines only, whether or not it starts a group *)
Definition all_divider (cols keys : list str) (row : list val) : Prop :=
  Forall (fun k => str_eqb (py_str (col_val cols row k)) divider = true) keys.

Lemma heading_text_all_divider cols keys row : all_divider cols keys row -> heading_text cols keys row = [].
Proof.
  intro H. unfold heading_text.
  replace (flat_map _ keys) with (@nil str); [reflexivity|].
  symmetry. induction H as [|k keys Hk _ IH]; [reflexivity|]. cbn [flat_map]. rewrite Hk. exact IH.
Qed.

Theorem divider_row_costs_its_lines widths fonts sizes i cols removed cw pb sl row rest pbc slc m ms :
  metas widths fonts sizes i cols removed cw pb sl (row :: rest) pbc slc = Ok (m :: ms) ->
  (forall keys, pb = Some keys -> all_divider cols keys row) ->
  (forall keys, sl = Some keys -> all_divider cols keys row) ->
  rm_pb m = 0%Z /\ rm_sl m = 0%Z /\ rm_total m = rm_data m.
Proof.
  intros H Hpb Hsl. cbn [metas] in H.
  inv_bind H. inv_bind H. inv_bind H. inv_bind H. inv_ok H. cbn [rm_pb rm_sl rm_total rm_data].
  assert (Z1 : x0 = 0%Z).
  { destruct pb as [keys|]; [|inv_ok E0; reflexivity].
    rewrite (heading_text_all_divider cols keys row (Hpb keys eq_refl)) in E0.
    destruct (hd true pbc && negb match keys with [] => true | _ => false end); inv_ok E0; reflexivity. }
  assert (Z2 : x1 = 0%Z).
  { destruct sl as [keys|]; [|inv_ok E1; reflexivity].
    rewrite (heading_text_all_divider cols keys row (Hsl keys eq_refl)) in E1.
    destruct (hd true slc && negb match keys with [] => true | _ => false end); inv_ok E1; reflexivity. }
  subst. repeat split; lia.
Qed.
