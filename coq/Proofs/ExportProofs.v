(* C18: exports are all-or-nothing and leave no temporary files, for every scenario of Model/Export.v. *)
From Coq Require Import Ascii String.
From Coq Require Import List NArith ZArith Bool Arith Lia.
Local Open Scope string_scope.
Local Open Scope list_scope.
From V Require Import Str Doc GroupByProofs Export PathLemmas.
Import ListNotations.

(* what the caller's file system must look like: the two fresh temporary directories are empty and apart,
   the target (and the resource folder beside it) is not inside them nor they inside the resource folder,
   and no regular FILE sits where the resource folder goes *)
Record wf (c : scen) (s : fsys) : Prop := {
  wf_t1_fresh : forall q, is_prefix (sc_t1 c) q = true -> file s q = None /\ isdir s q = false;
  wf_t2_fresh : forall q, is_prefix (sc_t2 c) q = true -> file s q = None /\ isdir s q = false;
  wf_t12 : is_prefix (sc_t1 c) (sc_t2 c) = false;
  wf_t21 : is_prefix (sc_t2 c) (sc_t1 c) = false;
  wf_target1 : is_prefix (sc_t1 c) (sc_target c) = false;
  wf_target2 : is_prefix (sc_t2 c) (sc_target c) = false;
  wf_res1 : is_prefix (sc_t1 c) (res_target c) = false;
  wf_res2 : is_prefix (sc_t2 c) (res_target c) = false;
  wf_res_t1 : is_prefix (res_target c) (sc_t1 c) = false;
  wf_res_t2 : is_prefix (res_target c) (sc_t2 c) = false;
  wf_target_nonempty : sc_target c <> [];
  wf_target_not_res : is_prefix (res_target c) (sc_target c) = false;
  wf_res_not_file : file s (res_target c) = None
}.

Section Proofs.
  Variable c : scen.
  Variable s : fsys.
  Hypothesis W : wf c s.
  Hypothesis Hfixed : sc_fixed c = true.

  Local Notation t1 := (sc_t1 c).
  Local Notation t2 := (sc_t2 c).
  Local Notation tg := (sc_target c).
  Local Notation rt := (res_target c).
  Local Notation outp := (sc_t2 c ++ [out_name c]).
  Local Notation rd := (sc_t2 c ++ [res_name c]).
  Local Notation img := ((sc_t2 c ++ [res_name c]) ++ [s2l "img0.png"]).

  (* a state that differs from s only below t1 / t2 *)
  Definition same_out (s0 : fsys) : Prop :=
    forall q, is_prefix t1 q = false -> is_prefix t2 q = false -> file s0 q = file s q.

  Lemma same_out_cleanup s0 : same_out s0 -> forall q, file (rmtree t1 (rmtree t2 s0)) q = file s q.
  Proof.
    intros H q. cbn [rmtree file].
    destruct (is_prefix t1 q) eqn:E1; [symmetry; apply (wf_t1_fresh c s W q E1)|].
    destruct (is_prefix t2 q) eqn:E2; [symmetry; apply (wf_t2_fresh c s W q E2)|].
    apply H; assumption.
  Qed.

  Lemma outside_outp q : is_prefix t2 q = false -> path_eqb q outp = false.
  Proof. intro H. apply under_neq. exact H. Qed.

  Lemma outside_img q : is_prefix t2 q = false -> path_eqb q img = false.
  Proof. intro H. rewrite <- app_assoc. apply under_neq. exact H. Qed.

  Lemma same_out_conv_files s0 : same_out s0 -> same_out (conv_files c s0).
  Proof.
    intros H q E1 E2. unfold conv_files.
    assert (G : (if path_eqb q outp then Some (sc_conv c) else file s0 q) = file s q).
    { rewrite outside_outp by exact E2. apply H; assumption. }
    destruct (sc_fmt c); try exact G. destruct (sc_resdir c); [|exact G].
    cbn [file]. rewrite outside_img by exact E2. exact G.
  Qed.

  (* ---- conversions ---- *)
  Lemma convert_same_out s0 s5 r : same_out s0 -> convert c s0 = (s5, r) -> same_out s5.
  Proof.
    intros H E. unfold convert in E.
    destruct (sc_beh c); inversion E; subst; try exact H; apply same_out_conv_files; exact H.
  Qed.

  (* ---- the state handed to the conversion step ---- *)
  Definition t2_empty (s0 : fsys) : Prop :=
    (forall q, is_prefix t2 q = true -> file s0 q = None) /\
    (forall q, is_prefix t2 q = true -> q <> t2 -> isdir s0 q = false).

  Definition pre (s0 : fsys) : Prop := same_out s0 /\ t2_empty s0.

  Local Notation img0 := [s2l "img0.png"].

  Definition done_file (q : path) : option str :=
    if path_eqb q tg then Some (sc_conv c)
    else match sc_fmt c, sc_resdir c with
         | FHtml, true =>
           match strip rt q with
           | Some r => if path_eqb r img0 then Some (sc_resfile c) else None
           | None => file s q
           end
         | _, _ => file s q
         end.

  Lemma tg_out1 : is_prefix t1 tg = false. Proof. exact (wf_target1 c s W). Qed.
  Lemma tg_out2 : is_prefix t2 tg = false. Proof. exact (wf_target2 c s W). Qed.

  Lemma res_out_neq : res_name c <> out_name c.
  Proof.
    unfold res_name. intro H. apply (f_equal (@length _)) in H. rewrite app_length in H. cbn in H. lia.
  Qed.

  Lemma rd_neq_t2 : rd <> t2. Proof. apply snoc_neq_self. Qed.
  Lemma rd_under_t2 : is_prefix t2 rd = true. Proof. apply is_prefix_app. Qed.
  Lemma outp_under_t2 : is_prefix t2 outp = true. Proof. apply is_prefix_app. Qed.

  Lemma outp_neq_img : path_eqb outp img = false.
  Proof.
    apply path_eqb_neq. rewrite <- app_assoc. intro H. apply app_inv_head in H. discriminate H.
  Qed.

  (* prefixes of a common path are comparable *)
  Lemma prefix_comparable (a b x : path) : is_prefix a (b ++ x) = true -> is_prefix a b = true \/ is_prefix b a = true.
  Proof.
    revert b; induction a as [|u a IH]; intros b H; [left; reflexivity|].
    destruct b as [|v b]; [right; reflexivity|].
    cbn in H. apply andb_prop in H as [H1 H2]. cbn. rewrite H1. cbn.
    apply str_eqb_eq in H1; subst v. rewrite str_eqb_refl. cbn. apply IH. exact H2.
  Qed.

  Lemma rt_not_over_t2 r : is_prefix rt (t2 ++ r) = false.
  Proof.
    destruct (is_prefix rt (t2 ++ r)) eqn:E; [|reflexivity].
    apply prefix_comparable in E as [E|E].
    - rewrite (wf_res_t2 c s W) in E. discriminate.
    - rewrite (wf_res2 c s W) in E. discriminate.
  Qed.

  Lemma rt_not_over_rd r : is_prefix rt (rd ++ r) = false.
  Proof. rewrite <- app_assoc. apply rt_not_over_t2. Qed.

  Lemma rt_neq_tg : path_eqb rt tg = false.
  Proof.
    apply path_eqb_neq. intro H. pose proof (wf_target_not_res c s W) as N.
    rewrite H, is_prefix_refl in N. discriminate.
  Qed.

  (* the converter succeeded: the output is placed *)
  Lemma inner_ok s2 :
    pre s2 -> sc_fault c <> FConvert -> sc_beh c = BOk ->
    exists s3, inner c s2 = (s3, None) /\
      forall q, is_prefix t1 q = false -> is_prefix t2 q = false -> file s3 q = done_file q.
  Proof.
    intros [Hs [He1 He2]] Hf Hb. unfold inner.
    destruct (sc_fault c) eqn:Ef; try congruence; clear Hf.
    all: unfold convert; rewrite Hb; unfold place, move_file.
    all: assert (Eo : file (conv_files c s2) outp = Some (sc_conv c))
      by (unfold conv_files; destruct (sc_fmt c), (sc_resdir c); cbn [file];
          rewrite ?outp_neq_img, path_eqb_refl; reflexivity).
    all: rewrite Eo.
    all: rewrite parent_snoc, base_snoc; fold (res_name c); change (list N) with str.
    all: destruct (sc_fmt c) eqn:Efmt.
    all: try (eexists; split; [reflexivity|]; intros q E1 E2; unfold done_file; rewrite Efmt; cbn [file];
              destruct (path_eqb q tg); [reflexivity|]; rewrite outside_outp by exact E2;
              apply (same_out_conv_files s2 Hs q E1 E2)).
    (* html *)
    all: set (s6 := {| file := _; isdir := isdir (conv_files c s2) |}).
    all: assert (Hrd : isdir s6 rd = sc_resdir c)
      by (subst s6; cbn [isdir]; unfold conv_files; rewrite Efmt; destruct (sc_resdir c); cbn [isdir];
          rewrite (He2 rd rd_under_t2 rd_neq_t2); [rewrite path_eqb_refl|]; reflexivity).
    all: rewrite Hrd; destruct (sc_resdir c) eqn:Er.
    all: try (eexists; split; [reflexivity|]; intros q E1 E2; unfold done_file; rewrite Efmt, Er; subst s6; cbn [file];
              destruct (path_eqb q tg); [reflexivity|]; rewrite outside_outp by exact E2;
              apply (same_out_conv_files s2 Hs q E1 E2)).
    all: rewrite Hfixed; cbn [andb].
    all: assert (Hfrt : file s6 rt = None)
      by (subst s6; cbn [file]; rewrite rt_neq_tg; rewrite outside_outp by exact (wf_res2 c s W);
          rewrite (same_out_conv_files s2 Hs rt (wf_res1 c s W) (wf_res2 c s W)); exact (wf_res_not_file c s W)).
    all: set (s7 := if isdir s6 rt then rmtree rt s6 else s6).
    all: assert (H7 : isdir s7 rt = false /\ file s7 rt = None)
      by (subst s7; destruct (isdir s6 rt) eqn:Ed; [cbn [rmtree isdir file]; rewrite is_prefix_refl; split; reflexivity|split; assumption]).
    all: destruct H7 as [H7d H7f]; unfold move_dir; rewrite H7d; unfold exists_at; rewrite H7d, H7f; cbn [orb].
    all: eexists; split; [reflexivity|]; intros q E1 E2; unfold done_file; rewrite Efmt, Er; cbn [rename_tree file].
    all: destruct (path_eqb q tg) eqn:Eq.
    all: try (apply path_eqb_eq in Eq; subst q;
              replace (strip rt tg) with (@None path) by (symmetry; apply strip_none; exact (wf_target_not_res c s W));
              rewrite (under_strip t2 tg rd E2 rd_under_t2);
              assert (G : file s6 tg = Some (sc_conv c)) by (subst s6; cbn [file]; rewrite path_eqb_refl; reflexivity);
              subst s7; destruct (isdir s6 rt); [cbn [rmtree file]; rewrite (wf_target_not_res c s W)|]; exact G).
    all: destruct (strip rt q) as [r|] eqn:Es;
      [ assert (G : file s6 (rd ++ r) = if path_eqb r img0 then Some (sc_resfile c) else None);
        [ subst s6; cbn [file];
          assert (X0 : path_eqb (rd ++ r) tg = false)
            by (apply path_eqb_neq; intro X; pose proof tg_out2 as N; rewrite <- X in N;
                rewrite <- app_assoc, is_prefix_app in N; discriminate);
          assert (X1 : path_eqb (rd ++ r) outp = false)
            by (apply path_eqb_neq; rewrite <- app_assoc; intro X; apply app_inv_head in X;
                inversion X; apply res_out_neq; assumption);
          rewrite X0, X1; unfold conv_files; rewrite Efmt, Er; cbn [file];
          destruct (path_eqb r img0) eqn:Ei;
          [ apply path_eqb_eq in Ei; subst r; rewrite path_eqb_refl; reflexivity |];
          rewrite (path_eqb_neq (rd ++ r) (rd ++ img0))
            by (intro X; apply app_inv_head in X; subst r; rewrite path_eqb_refl in Ei; discriminate);
          rewrite X1; apply He1; rewrite <- app_assoc; apply is_prefix_app
        | subst s7; destruct (isdir s6 rt);
          [ cbn [rmtree file]; rewrite rt_not_over_rd |]; exact G ]
      | rewrite (under_strip t2 q rd E2 rd_under_t2);
        assert (G : file s6 q = file s q)
          by (subst s6; cbn [file]; rewrite Eq; rewrite outside_outp by exact E2; apply (same_out_conv_files s2 Hs q E1 E2));
        subst s7; destruct (isdir s6 rt); [cbn [rmtree file]; apply strip_none in Es; rewrite Es|]; exact G ].
  Qed.

  (* the converter (or an injected fault) failed: nothing outside the temporary directories changed *)
  Lemma inner_fail s2 :
    pre s2 -> (sc_fault c = FConvert \/ sc_beh c <> BOk) ->
    exists s3 e, inner c s2 = (s3, Some e) /\ same_out s3.
  Proof.
    intros [Hs [He1 He2]] Hc. unfold inner.
    destruct (sc_fault c) eqn:Ef; try (eexists; eexists; split; [reflexivity|exact Hs]).
    all: destruct Hc as [Hc|Hc]; [discriminate|].
    all: unfold convert; destruct (sc_beh c) eqn:Eb; try congruence.
    all: try (eexists; eexists; split; [reflexivity|]; first [exact Hs | apply same_out_conv_files; exact Hs]).
    all: unfold place, move_file; rewrite (He1 (t2 ++ [s2l "missing"]) (is_prefix_app _ _)).
    all: eexists; eexists; split; [reflexivity|exact Hs].
  Qed.

  (* ---- the state after mkdir -p of the target's parent and mkdtemp t1 ---- *)
  Local Notation s1 := (mkdir_p (parent tg) s).
  Local Notation s0 := (mkdir t1 (mkdir_p (parent tg) s)).

  Lemma tg_split : tg = parent tg ++ [base tg].
  Proof. apply parent_base. exact (wf_target_nonempty c s W). Qed.

  Lemma not_over_parent t q :
    is_prefix t tg = false -> is_prefix t q = true -> is_prefix q (parent tg) = false.
  Proof.
    intros H1 H2. destruct (is_prefix q (parent tg)) eqn:E; [|reflexivity].
    pose proof (is_prefix_trans _ _ _ H2 E) as H3.
    pose proof (is_prefix_trans _ _ _ H3 (is_prefix_app (parent tg) [base tg])) as H4.
    rewrite <- tg_split in H4. rewrite H4 in H1. discriminate.
  Qed.

  Lemma s1_dirs_tmp q : is_prefix t1 q = true \/ is_prefix t2 q = true -> isdir s1 q = false.
  Proof.
    intros [H|H]; cbn [mkdir_p isdir].
    - rewrite (proj2 (wf_t1_fresh c s W q H)). exact (not_over_parent t1 q tg_out1 H).
    - rewrite (proj2 (wf_t2_fresh c s W q H)). exact (not_over_parent t2 q tg_out2 H).
  Qed.

  Lemma s0_dirs_t2 q : is_prefix t2 q = true -> isdir s0 q = false.
  Proof.
    intro H. cbn [mkdir isdir]. change (isdir s1 q || path_eqb q t1 = false).
    rewrite (s1_dirs_tmp q (or_intror H)). cbn [orb].
    apply path_eqb_neq. intros ->. rewrite (wf_t21 c s W) in H. discriminate.
  Qed.

  Lemma rtf_tmp_neq_under_t2 x q : is_prefix t2 q = true -> path_eqb q (t1 ++ [x]) = false.
  Proof.
    intro H. apply path_eqb_neq. intros ->. apply prefix_comparable in H as [H|H].
    - rewrite (wf_t21 c s W) in H. discriminate.
    - rewrite (wf_t12 c s W) in H. discriminate.
  Qed.

  Definition fails : Prop :=
    match sc_fmt c with
    | FRtf => sc_fault c = FEncode \/ (exists e, sc_code c = Err e)
    | _ => sc_fault c <> FNone \/ (exists e, sc_code c = Err e) \/ sc_beh c <> BOk
    end.

  Definition done_all (q : path) : option str :=
    match sc_fmt c, sc_code c with
    | FRtf, Ok code => if path_eqb q tg then Some code else file s q
    | _, _ => done_file q
    end.

  Definition tmp_clean (s' : fsys) : Prop :=
    forall q, is_prefix t1 q = true \/ is_prefix t2 q = true -> file s' q = None /\ isdir s' q = false.

  Lemma rt_not_over_t1 r : is_prefix rt (t1 ++ r) = false.
  Proof.
    destruct (is_prefix rt (t1 ++ r)) eqn:E; [|reflexivity].
    apply prefix_comparable in E as [E|E].
    - rewrite (wf_res_t1 c s W) in E. discriminate.
    - rewrite (wf_res1 c s W) in E. discriminate.
  Qed.

  Lemma done_file_tmp q : is_prefix t1 q = true \/ is_prefix t2 q = true -> done_file q = None.
  Proof.
    intro H. unfold done_file.
    assert (Hq : path_eqb q tg = false).
    { apply path_eqb_neq. intros ->. destruct H as [H|H]; [rewrite tg_out1 in H|rewrite tg_out2 in H]; discriminate. }
    assert (Hf : file s q = None) by (destruct H as [H|H]; [apply (wf_t1_fresh c s W q H)|apply (wf_t2_fresh c s W q H)]).
    assert (Hs : strip rt q = None).
    { apply strip_none. destruct H as [H|H]; apply is_prefix_spec in H as [r ->]; [apply rt_not_over_t1|apply rt_not_over_t2]. }
    rewrite Hq. destruct (sc_fmt c), (sc_resdir c); try exact Hf. rewrite Hs. exact Hf.
  Qed.

  (* ---- the converting exports ---- *)
  Theorem conv_fail :
    sc_fmt c <> FRtf -> fails ->
    exists s' e, export c s = (s', Some e) /\ (forall q, file s' q = file s q) /\ tmp_clean s'.
  Proof.
    intros Hfmt Hfail.
    assert (E : export c s = write_conv c s) by (unfold export; destruct (sc_fmt c); congruence).
    rewrite E. unfold fails in Hfail.
    assert (Hfail' : sc_fault c <> FNone \/ (exists e, sc_code c = Err e) \/ sc_beh c <> BOk)
      by (destruct (sc_fmt c); congruence). clear Hfail.
    unfold write_conv.
    destruct (sc_fault c) eqn:Ef.
    2:{ eexists; eexists; split; [reflexivity|]. split; [reflexivity|].
        intros q Hq. split; [destruct Hq as [H|H]; [apply (wf_t1_fresh c s W q H)|apply (wf_t2_fresh c s W q H)]|apply s1_dirs_tmp; exact Hq]. }
    all: unfold middle; rewrite Ef.
    (* raised before the second temporary directory exists *)
    2:{ eexists; eexists; split; [reflexivity|]. split.
        - intro q. cbn [rmtree file mkdir]. destruct (is_prefix t1 q) eqn:E1; [symmetry; apply (wf_t1_fresh c s W q E1)|reflexivity].
        - intros q Hq. cbn [rmtree file isdir]. destruct (is_prefix t1 q) eqn:E1; [split; reflexivity|].
          destruct Hq as [H|H]; [congruence|]. split; [apply (wf_t2_fresh c s W q H)|apply s0_dirs_t2; exact H]. }
    all: destruct (sc_code c) as [code|e0] eqn:Ec.
    all: try (eexists; eexists; split; [reflexivity|]; split;
              [ intro q; cbn [rmtree file mkdir]; destruct (is_prefix t1 q) eqn:E1; [symmetry; apply (wf_t1_fresh c s W q E1)|reflexivity]
              | intros q Hq; cbn [rmtree file isdir]; destruct (is_prefix t1 q) eqn:E1; [split; reflexivity|];
                destruct Hq as [H|H]; [congruence|]; split; [apply (wf_t2_fresh c s W q H)|apply s0_dirs_t2; exact H] ]).
    all: unfold write; rewrite parent_snoc.
    all: assert (Hd : isdir s0 t1 = true) by (cbn [mkdir isdir]; rewrite path_eqb_refl; apply orb_true_r).
    all: rewrite Hd.
    all: match goal with |- context [inner c ?st] => set (s2 := st) end.
    all: assert (Hpre : pre s2)
      by (subst s2; split; [intros q E1 E2; cbn [mkdir file]; rewrite under_neq by exact E1; reflexivity|];
          split; [intros q H; cbn [mkdir file]; rewrite rtf_tmp_neq_under_t2 by exact H; apply (wf_t2_fresh c s W q H)
                 |intros q H N; cbn [mkdir isdir]; change (isdir s0 q || path_eqb q t2 = false);
                  rewrite (s0_dirs_t2 q H), (path_eqb_neq q t2 N); reflexivity]).
    all: assert (Hc : sc_fault c = FConvert \/ sc_beh c <> BOk)
      by (destruct Hfail' as [X|[[e X]|X]]; [congruence|congruence|right; exact X] || (left; exact Ef)).
    all: destruct (inner_fail s2 Hpre Hc) as [s3 [e [Ei Hs3]]]; rewrite Ei.
    all: eexists; eexists; split; [reflexivity|]; split; [apply same_out_cleanup; exact Hs3|].
    all: intros q Hq; cbn [rmtree file isdir]; destruct (is_prefix t1 q) eqn:E1; [split; reflexivity|].
    all: destruct Hq as [H|H]; [congruence|]; rewrite H; split; reflexivity.
  Qed.

  Theorem conv_done :
    sc_fmt c <> FRtf -> ~ fails ->
    exists s', export c s = (s', None) /\ (forall q, file s' q = done_all q) /\ tmp_clean s'.
  Proof.
    intros Hfmt Hnf.
    assert (E : export c s = write_conv c s) by (unfold export; destruct (sc_fmt c); congruence).
    rewrite E. unfold fails in Hnf.
    assert (Hf : sc_fault c = FNone).
    { destruct (sc_fault c) eqn:Ef; [reflexivity| | |]; exfalso; apply Hnf; destruct (sc_fmt c); try congruence; left; discriminate. }
    assert (Hb : sc_beh c = BOk).
    { destruct (sc_beh c) eqn:Eb; [reflexivity| | | | | | |]; exfalso; apply Hnf; destruct (sc_fmt c); try congruence; right; right; discriminate. }
    assert (Hc : exists code, sc_code c = Ok code).
    { destruct (sc_code c) as [code|e] eqn:Ec; [exists code; reflexivity|]. exfalso; apply Hnf; destruct (sc_fmt c); try congruence; right; left; exists e; reflexivity. }
    destruct Hc as [code Hc].
    assert (Hda : forall q, done_all q = done_file q) by (intro q; unfold done_all; destruct (sc_fmt c); congruence).
    unfold write_conv. rewrite Hf. unfold middle. rewrite Hf, Hc. unfold write. rewrite parent_snoc.
    assert (Hd : isdir s0 t1 = true) by (cbn [mkdir isdir]; rewrite path_eqb_refl; apply orb_true_r).
    rewrite Hd.
    match goal with |- context [inner c ?st] => set (s2 := st) end.
    assert (Hpre : pre s2).
    { subst s2; split; [intros q E1 E2; cbn [mkdir file]; rewrite under_neq by exact E1; reflexivity|].
      split; [intros q H; cbn [mkdir file]; rewrite rtf_tmp_neq_under_t2 by exact H; apply (wf_t2_fresh c s W q H)
             |intros q H N; cbn [mkdir isdir]; change (isdir s0 q || path_eqb q t2 = false);
              rewrite (s0_dirs_t2 q H), (path_eqb_neq q t2 N); reflexivity]. }
    assert (Hnc : sc_fault c <> FConvert) by congruence.
    destruct (inner_ok s2 Hpre Hnc Hb) as [s3 [Ei Hs3]]. rewrite Ei.
    eexists. split; [reflexivity|]. split.
    - intro q. rewrite Hda. cbn [rmtree file].
      destruct (is_prefix t1 q) eqn:E1; [symmetry; apply done_file_tmp; left; exact E1|].
      destruct (is_prefix t2 q) eqn:E2; [symmetry; apply done_file_tmp; right; exact E2|].
      apply Hs3; assumption.
    - intros q Hq; cbn [rmtree file isdir]; destruct (is_prefix t1 q) eqn:E1; [split; reflexivity|].
      destruct Hq as [H|H]; [congruence|]; rewrite H; split; reflexivity.
  Qed.

  (* ---- write_rtf ---- *)
  Theorem rtf_fail :
    sc_fmt c = FRtf -> fails ->
    exists s' e, export c s = (s', Some e) /\ (forall q, file s' q = file s q) /\ tmp_clean s'.
  Proof.
    intros Hfmt Hfail. unfold export, fails in *. rewrite Hfmt in *. unfold write_rtf.
    assert (Hclean : tmp_clean s1).
    { intros q Hq. split; [destruct Hq as [H|H]; [apply (wf_t1_fresh c s W q H)|apply (wf_t2_fresh c s W q H)]|apply s1_dirs_tmp; exact Hq]. }
    destruct Hfail as [Hf|[e He]].
    - rewrite Hf. eexists; eexists; split; [reflexivity|]. split; [reflexivity|exact Hclean].
    - rewrite He. destruct (sc_fault c); eexists; eexists; (split; [reflexivity|]); (split; [reflexivity|exact Hclean]).
  Qed.

  Theorem rtf_done :
    sc_fmt c = FRtf -> ~ fails ->
    exists s', export c s = (s', None) /\ (forall q, file s' q = done_all q) /\ tmp_clean s'.
  Proof.
    intros Hfmt Hnf. unfold export, fails, done_all in *. rewrite Hfmt in *. unfold write_rtf.
    assert (Hc : exists code, sc_code c = Ok code).
    { destruct (sc_code c) as [code|e] eqn:Ec; [exists code; reflexivity|]. exfalso; apply Hnf; right; exists e; reflexivity. }
    destruct Hc as [code Hc]. rewrite Hc.
    assert (Hd : isdir s1 (parent tg) = true) by (cbn [mkdir_p isdir]; rewrite is_prefix_refl; apply orb_true_r).
    assert (Hclean : forall q, is_prefix t1 q = true \/ is_prefix t2 q = true -> path_eqb q tg = false).
    { intros q Hq. apply path_eqb_neq. intros ->. destruct Hq as [H|H]; [rewrite tg_out1 in H|rewrite tg_out2 in H]; discriminate. }
    destruct (sc_fault c) eqn:Ef; try (exfalso; apply Hnf; left; reflexivity).
    all: unfold write; rewrite Hd; eexists; (split; [reflexivity|]); split; [intro q; reflexivity|].
    all: intros q Hq; cbn [file isdir]; rewrite (Hclean q Hq); split;
      [destruct Hq as [H|H]; [apply (wf_t1_fresh c s W q H)|apply (wf_t2_fresh c s W q H)]|apply s1_dirs_tmp; exact Hq].
  Qed.
End Proofs.

(* ---- the statements of C18, for every scenario and every well-formed file system ---- *)
Theorem export_all_or_nothing c s :
  wf c s -> sc_fixed c = true ->
  (fails c -> exists s' e, export c s = (s', Some e) /\ (forall q, file s' q = file s q) /\ tmp_clean c s') /\
  (~ fails c -> exists s', export c s = (s', None) /\ (forall q, file s' q = done_all c s q) /\ tmp_clean c s').
Proof.
  intros W F. split; intro H; destruct (sc_fmt c) eqn:E.
  - apply rtf_fail; first [assumption|congruence].
  - apply conv_fail; first [assumption|congruence].
  - apply conv_fail; first [assumption|congruence].
  - apply conv_fail; first [assumption|congruence].
  - apply rtf_done; first [assumption|congruence].
  - apply conv_done; first [assumption|congruence].
  - apply conv_done; first [assumption|congruence].
  - apply conv_done; first [assumption|congruence].
Qed.

(* ---- the hypotheses survive an export: the theorem applies again to the state an export leaves, whether it
   failed (a retry) or succeeded (a re-export over the previous output) ---- *)
Lemma fails_dec c : fails c \/ ~ fails c.
Proof.
  unfold fails.
  destruct (sc_fmt c); destruct (sc_fault c); destruct (sc_code c) as [code|e]; destruct (sc_beh c);
    first [ left; solve [ left; discriminate | left; reflexivity | right; eexists; reflexivity
                        | right; left; eexists; reflexivity | right; right; discriminate ]
          | right; intro H; repeat (destruct H as [H|H]); solve [ congruence | destruct H as [x H]; discriminate ] ].
Qed.

Lemma done_all_res c s : wf c s -> done_all c s (res_target c) = None.
Proof.
  intro W. unfold done_all, done_file. rewrite (rt_neq_tg c s W).
  assert (E : strip (res_target c) (res_target c) = Some []).
  { induction (res_target c) as [|x r IH]; cbn [strip]; [reflexivity|]. rewrite str_eqb_refl. exact IH. }
  destruct (sc_fmt c); destruct (sc_code c); destruct (sc_resdir c); rewrite ?E; cbn [path_eqb];
    first [exact (wf_res_not_file c s W) | reflexivity].
Qed.

Theorem export_wf_preserved c s s' o :
  wf c s -> sc_fixed c = true -> export c s = (s', o) -> wf c s'.
Proof.
  intros W F E. destruct (export_all_or_nothing c s W F) as [Hf Hd].
  assert (G : (forall q, is_prefix (sc_t1 c) q = true \/ is_prefix (sc_t2 c) q = true ->
                         file s' q = None /\ isdir s' q = false) /\ file s' (res_target c) = None).
  { destruct (fails_dec c) as [H|H].
    - destruct (Hf H) as [s1 [e [E1 [E2 E3]]]]. rewrite E in E1. injection E1 as <- _.
      split; [exact E3|]. rewrite E2. exact (wf_res_not_file c s W).
    - destruct (Hd H) as [s1 [E1 [E2 E3]]]. rewrite E in E1. injection E1 as <- _.
      split; [exact E3|]. rewrite E2. exact (done_all_res c s W). }
  destruct G as [G1 G2]. destruct W. constructor; try assumption.
  - intros q Hq. apply G1. left; exact Hq.
  - intros q Hq. apply G1. right; exact Hq.
Qed.
