(* C02 — no data cell is lost, duplicated, reordered or altered.
   Full statement (model level): for every document d without group_by whose encode succeeds,
     concat (map data_rows (pages d)) = map (display_row (kept_cols d)) (rows (df d)).
   Proved here, for ALL inputs, are the three kernels that statement is assembled from:
     C02_slices      the per-page slices taken by cumulative heights partition the processed rows;
     C02_segments    rendering a page in [prev,boundary) segments with carried row offsets yields the
                     same rows as rendering the page at once (nothing dropped or duplicated at a group
                     boundary), and one rendered row per frame row, one cell per value;
     C02_columns     column removal keeps the remaining columns in their original order.
   C02_partial: what is missing for the full statement is (i) that the [min,max] ranges of
   build_pages have heights summing to the row count (validated per case: the model's tags equal
   the implementation's), and (ii) decode (escape (convert s)) = s on the C02 text domain, which is
   C10/C11's theorem.  The predicate check_c02 is evaluated on the implementation's output. *)
From Coq Require Import List NArith ZArith QArith Bool Arith.
From V Require Import Str Num Tok Items Doc Broadcast Encode Paginate Pipeline SliceProofs.
Import ListNotations.
Local Open Scope nat_scope.

Theorem C02_slices : forall rows pages,
  sum_lens pages = length rows ->
  concat (map (page_rows rows) (set_slice_starts pages 0)) = rows.
Proof. exact slices_partition. Qed.
Print Assumptions C02_slices.

Theorem C02_segments : forall ctx a cw r1 r2 off,
  encode_rows ctx a cw (r1 ++ r2) off =
  match encode_rows ctx a cw r1 off with
  | Ok x => match encode_rows ctx a cw r2 (off + length r1) with
            | Ok y => Ok (x ++ y)
            | Err e => Err e
            end
  | Err e => Err e
  end.
Proof. exact encode_rows_app. Qed.
Print Assumptions C02_segments.

Theorem C02_row_count : forall ctx a cw rows off out,
  encode_rows ctx a cw rows off = Ok out -> length out = length rows.
Proof. exact encode_rows_length. Qed.

Theorem C02_cell_count : forall ctx a cw n vals r j out,
  encode_cells ctx a cw n vals r j = Ok out -> length out = length vals.
Proof. exact encode_cells_length. Qed.

Theorem C02_columns : forall (A : Type) (rem : list nat) (l : list A) i,
  exists keep : list bool, length keep = length l /\
    drop_idx_from i rem l = map snd (filter fst (combine keep l)).
Proof. exact @drop_idx_from_sub. Qed.
Print Assumptions C02_columns.

Example C02_slices_example :
  let mk n := {| pc_num := 1; pc_total := 1; pc_start := 0; pc_len := n; pc_first := true; pc_last := true;
                 pc_needs_header := true; pc_subline := None; pc_pbinfo := None; pc_bounds := [];
                 pc_slice_start := 0 |} in
  map (page_rows [[VInt 1]; [VInt 2]; [VInt 3]]) (set_slice_starts [mk 2; mk 1] 0)
  = [[[VInt 1]; [VInt 2]]; [[VInt 3]]].
Proof. reflexivity. Qed.
