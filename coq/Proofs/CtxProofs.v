(* C14 / C15: encoding is independent of the history and of other threads' encodes. *)
From Coq Require Import Ascii String.
From Coq Require Import List NArith ZArith Bool Arith Lia.
Local Open Scope string_scope.
Local Open Scope list_scope.
From V Require Import Str Doc Ctx.
Import ListNotations.

Section Shell.
  Variables (D O : Type).
  Variable pal : D -> list str.
  Variable enc : option (list str) -> D -> res O.

  (* ---- C14: any history leaves no context behind, and an encode's result does not depend on it ---- *)
  Lemma step_encode s d :
    step D O pal enc s (Encode d) = (None, Some (enc (Some (pal d)) d)).
  Proof. reflexivity. Qed.

  Lemma run_app s h1 h2 :
    run D O pal enc s (h1 ++ h2)
    = let '(s1, o1) := run D O pal enc s h1 in
      let '(s2, o2) := run D O pal enc s1 h2 in (s2, o1 ++ o2).
  Proof.
    revert s; induction h1 as [|o h1 IH]; intros s; cbn [app run].
    - destruct (run D O pal enc s h2); reflexivity.
    - destruct (step D O pal enc s o) as [s1 out]. rewrite IH.
      destruct (run D O pal enc s1 h1) as [s2 o1]. destruct (run D O pal enc s2 h2) as [s3 o2]. reflexivity.
  Qed.

  (* the result of encoding t after ANY history equals its result in a fresh process *)
  Theorem encode_pure s h t :
    snd (run D O pal enc s (h ++ [Encode t])) = snd (run D O pal enc s h) ++ [Some (enc (Some (pal t)) t)].
  Proof.
    rewrite run_app. destruct (run D O pal enc s h) as [s1 o1]. cbn [run step snd]. reflexivity.
  Qed.

  Corollary encode_twice_same s h t :
    let outs := snd (run D O pal enc s (h ++ [Encode t; Encode t])) in
    nth_error outs (length h) = nth_error outs (S (length h)).
  Proof.
    cbv zeta. rewrite run_app. destruct (run D O pal enc s h) as [s1 o1] eqn:E. cbn [run step snd].
    assert (Hl : length o1 = length h).
    { clear -E. revert s s1 o1 E; induction h as [|o h IH]; intros s s1 o1 E; cbn [run] in E.
      - inversion E; reflexivity.
      - destruct (step D O pal enc s o) as [s2 out]. destruct (run D O pal enc s2 h) as [s3 outs] eqn:E2.
        inversion E; subst. cbn. f_equal. eapply IH; exact E2. }
    rewrite <- Hl. rewrite !nth_error_app2 by lia. rewrite Nat.sub_diag.
    replace (S (length o1) - length o1) with 1 by lia. reflexivity.
  Qed.

  (* no history — with successful or failing encodes — leaves a context behind *)
  Theorem context_cleared h : fst (run D O pal enc None h) = None.
  Proof.
    assert (G : forall s, s = None -> fst (run D O pal enc s h) = None).
    { induction h as [|o r IH]; intros s Hs; cbn [run]; [exact Hs|].
      destruct o as [d|d]; cbn [step].
      - specialize (IH s Hs). destruct (run D O pal enc s r); exact IH.
      - specialize (IH None eq_refl). destruct (run D O pal enc None r); exact IH. }
    apply G. reflexivity.
  Qed.

  Lemma run_last_encode s h d : fst (run D O pal enc s (h ++ [Encode d])) = None.
  Proof.
    rewrite run_app. destruct (run D O pal enc s h) as [s1 o1]. reflexivity.
  Qed.

  (* ---- C15: with a context per thread, what a thread's colour look-ups observe is what IT set ---- *)
  Lemma tget_tset_same t v s : tget t (tset t v s) = v.
  Proof.
    induction s as [|[k w] s IH]; cbn [tset tget]; [rewrite Nat.eqb_refl; reflexivity|].
    destruct (Nat.eqb k t) eqn:E; cbn [tget]; rewrite E; [reflexivity|exact IH].
  Qed.

  Lemma tget_tset_other t u v s : t <> u -> tget t (tset u v s) = tget t s.
  Proof.
    intro H. induction s as [|[k w] s IH]; cbn [tset tget].
    - destruct (Nat.eqb u t) eqn:E; [apply Nat.eqb_eq in E; congruence|reflexivity].
    - destruct (Nat.eqb k u) eqn:E; cbn [tget].
      + apply Nat.eqb_eq in E; subst k. destruct (Nat.eqb u t) eqn:E2; [apply Nat.eqb_eq in E2; congruence|reflexivity].
      + destruct (Nat.eqb k t); [reflexivity|exact IH].
  Qed.

  (* events of thread t only *)
  Definition of_thread (t : nat) (e : ev D) : bool :=
    match e with ESet u _ | EGet u | EClear u => Nat.eqb u t end.

  Definition thread_obs (t : nat) (l : list (nat * ctx)) : list ctx :=
    map snd (filter (fun p => Nat.eqb (fst p) t) l).

  (* the observations of thread t in ANY interleaving equal its observations when its events run alone
     from the same own-context *)
  Theorem isolated t sched s s' :
    tget t s = tget t s' ->
    thread_obs t (observe D pal s sched) = thread_obs t (observe D pal s' (filter (of_thread t) sched)).
  Proof.
    revert s s'; induction sched as [|e sched IH]; intros s s' H; [reflexivity|].
    destruct e as [u d|u|u]; cbn [observe filter of_thread].
    - destruct (Nat.eqb u t) eqn:E.
      + apply Nat.eqb_eq in E; subst u. cbn [observe]. apply IH. rewrite !tget_tset_same. reflexivity.
      + apply IH. rewrite tget_tset_other by (apply Nat.eqb_neq in E; congruence). exact H.
    - destruct (Nat.eqb u t) eqn:E.
      + apply Nat.eqb_eq in E; subst u. cbn [observe]. unfold thread_obs in *. cbn [filter fst].
        rewrite Nat.eqb_refl. cbn [map snd]. rewrite H. f_equal. apply IH. exact H.
      + unfold thread_obs in *. cbn [filter fst]. rewrite E. apply IH. exact H.
    - destruct (Nat.eqb u t) eqn:E.
      + apply Nat.eqb_eq in E; subst u. cbn [observe]. apply IH. rewrite !tget_tset_same. reflexivity.
      + apply IH. rewrite tget_tset_other by (apply Nat.eqb_neq in E; congruence). exact H.
  Qed.

  (* a thread's own events during one encode: Set, n look-ups, Clear — every look-up sees its own palette *)
  Definition one_encode (t : nat) (d : D) (n : nat) : list (ev D) :=
    ESet t d :: repeat (EGet t) n ++ [EClear t].

  Lemma observe_gets t s n rest :
    observe D pal s (repeat (EGet t) n ++ rest) = repeat (t, tget t s) n ++ observe D pal s rest.
  Proof. induction n as [|n IH]; cbn [repeat app observe]; [reflexivity|]. rewrite IH. reflexivity. Qed.

  Lemma thread_obs_repeat t c n : thread_obs t (repeat (t, c) n) = repeat c n.
  Proof.
    unfold thread_obs. induction n as [|n IH]; [reflexivity|]. cbn [repeat filter fst].
    rewrite Nat.eqb_refl. cbn [map snd]. rewrite IH. reflexivity.
  Qed.

  Theorem interleaved_lookups t d n sched s :
    filter (of_thread t) sched = one_encode t d n ->
    thread_obs t (observe D pal s sched) = repeat (Some (pal d)) n.
  Proof.
    intro H. rewrite (isolated t sched s s eq_refl). rewrite H. unfold one_encode. cbn [observe].
    rewrite observe_gets. cbn [observe]. rewrite app_nil_r. rewrite tget_tset_same. apply thread_obs_repeat.
  Qed.

  (* any number of encodes by the same thread, one after another: each look-up sees the palette of the encode in
     progress, in every interleaving with the other threads *)
  Definition many_encodes (t : nat) (jobs : list (D * nat)) : list (ev D) :=
    flat_map (fun j => one_encode t (fst j) (snd j)) jobs.

  Lemma thread_obs_app t a b : thread_obs t (a ++ b) = thread_obs t a ++ thread_obs t b.
  Proof. unfold thread_obs. rewrite filter_app, map_app. reflexivity. Qed.

  Lemma sequential_lookups t jobs s :
    thread_obs t (observe D pal s (many_encodes t jobs)) = flat_map (fun j => repeat (Some (pal (fst j))) (snd j)) jobs.
  Proof.
    revert s; induction jobs as [|[d n] jobs IH]; intro s; [reflexivity|].
    unfold many_encodes. cbn [flat_map fst snd]. unfold one_encode. cbn [app observe].
    rewrite <- app_assoc. rewrite observe_gets. cbn [app observe].
    rewrite thread_obs_app, thread_obs_repeat, tget_tset_same. f_equal. apply IH.
  Qed.

  Theorem interleaved_many t jobs sched s :
    filter (of_thread t) sched = many_encodes t jobs ->
    thread_obs t (observe D pal s sched) = flat_map (fun j => repeat (Some (pal (fst j))) (snd j)) jobs.
  Proof. intro H. rewrite (isolated t sched s s eq_refl), H. apply sequential_lookups. Qed.
End Shell.

(* ---- the same statements are FALSE of the code before the repairs (documented, not used by the checks) ---- *)
Definition demo_pal (d : nat) : list str := match d with 0 => [s2l "red"] | _ => [s2l "blue"] end.
Definition demo_enc (c : option (list str)) (d : nat) : res (option (list str)) :=
  match d with 0 => Err ValueErr | _ => Ok c end.
Definition demo_uses (d : nat) : bool := Nat.eqb d 0.

(* document 0: a coloured single-section document whose encode raises; document 1: a multi-section document *)
Theorem old_shell_history_dependent :
  snd (run_old nat _ demo_pal demo_enc demo_uses None [Encode 0; Encode 1])
  <> snd (run_old nat _ demo_pal demo_enc demo_uses None [Encode 0]) ++ snd (run_old nat _ demo_pal demo_enc demo_uses None [Encode 1]).
Proof. vm_compute. intro H. discriminate H. Qed.

Theorem shared_context_interferes :
  thread_obs 0 (observe_shared nat demo_pal None [ESet 0 0; ESet 1 1; EGet 0; EClear 1; EClear 0])
  <> [Some (demo_pal 0)].
Proof. vm_compute. intro H. discriminate H. Qed.

(* ---- every output of every history is its fresh-process result (the whole output list characterised) ---- *)
Definition fresh_out {D O : Type} (pal : D -> list str) (enc : option (list str) -> D -> res O) (o : op D)
  : option (res O) :=
  match o with Construct _ => None | Encode d => Some (enc (Some (pal d)) d) end.

Theorem run_outputs_fresh (D O : Type) (pal : D -> list str) (enc : option (list str) -> D -> res O) s h :
  snd (run D O pal enc s h) = map (fresh_out pal enc) h.
Proof.
  revert s; induction h as [|o h IH]; intro s; [reflexivity|].
  cbn [run map]. destruct o as [d|d]; cbn [step fresh_out].
  - specialize (IH s). destruct (run D O pal enc s h) as [s2 outs]. cbn [snd] in *. rewrite IH. reflexivity.
  - specialize (IH None). destruct (run D O pal enc None h) as [s2 outs]. cbn [snd] in *. rewrite IH. reflexivity.
Qed.
