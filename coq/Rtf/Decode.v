(* What a reader sees: text of a run (token level), and tags of sentinel-carrying rows. *)
From Coq Require Import Ascii String.
From Coq Require Import List NArith ZArith Bool Arith.
From V Require Import Str Tok Items Read Bytes.
Import ListNotations.
Local Open Scope list_scope.

(* decode the text of a run body: \uN -> UTF-16 unit (N mod 2^16) followed by skipping uc fallback
   characters; other control words and braces carry no text *)
Fixpoint units_of (ts : list tok) (uc : nat) (skip : nat) (hex : bool) (acc : list N) : list N :=
  match ts with
  | [] => rev' acc
  | TText s :: r =>
    (* after \'  the first two characters are hex digits of one ANSI-code-page character *)
    let '(s1, skip1, acc1) :=
        if hex then
          match s with
          | a :: b :: s' =>
            match hexval a, hexval b with
            | Some x, Some y =>
              match skip with
              | O => (s', O, cp1252 (x * 16 + y)%N :: acc)
              | S k => (s', k, acc)
              end
            | _, _ => (s, skip, acc)
            end
          | _ => (s, skip, acc)
          end
        else (s, skip, acc) in
    units_of r uc (skip1 - length s1) false (rev_append (drop skip1 s1) acc1)
  | TSym 39%N :: r => units_of r uc skip true acc
  | TCtrl n (Some z) :: r =>
    if str_eqb n (s2l "u") then units_of r uc uc false (Z.to_N (Z.modulo z 65536) :: acc)
    else if str_eqb n (s2l "uc") then units_of r (Z.to_nat z) 0 false acc
    else units_of r uc 0 false acc
  | _ :: r => units_of r uc 0 false acc
  end.

(* recombine surrogate pairs *)
Definition is_high (u : N) : bool := ((55296 <=? u) && (u <? 56320))%N.
Definition is_low (u : N) : bool := ((56320 <=? u) && (u <? 57344))%N.
Definition pair_value (h l : N) : N := (65536 + (h - 55296) * 1024 + (l - 56320))%N.

Fixpoint comb (us : list N) (pending : option N) : list N :=
  match us with
  | [] => match pending with Some h => [h] | None => [] end
  | u :: r =>
    match pending with
    | Some h =>
      if is_low u then pair_value h u :: comb r None
      else if is_high u then h :: comb r (Some u)
      else h :: u :: comb r None
    | None => if is_high u then comb r (Some u) else u :: comb r None
    end
  end.
Definition combine_surrogates (us : list N) : list N := comb us None.

Definition decode_tokens (ts : list tok) : str := combine_surrogates (units_of ts 1 0 false []).

(* character-formatting control words that may precede the text inside a run group *)
Definition cell_text (c : cell) : str := decode_tokens (rn_body (ce_run c)).
Definition run_text (r : run) : str := decode_tokens (rn_body r).

(* "#<digits>#..." -> row index *)
Definition parse_tag (s : str) : option nat :=
  match s with
  | 35%N :: r =>
    let '(ds, rest) := span is_digit r [] in
    match ds, rest with
    | _ :: _, 35%N :: _ => Some (N.to_nat (digits_to_N ds 0))
    | _, _ => None
    end
  | _ => None
  end.

Fixpoint first_some {A B} (f : A -> option B) (l : list A) : option B :=
  match l with
  | [] => None
  | x :: r => match f x with Some y => Some y | None => first_some f r end
  end.

Definition row_tag (r : row) : option nat := first_some (fun c => parse_tag (cell_text c)) (rw_cells r).

Definition rows_of (its : list item) : list row :=
  flat_map (fun i => match i with IRow r => [r] | _ => [] end) its.

(* tagged data rows of a page, in order *)
Definition data_rows (its : list item) : list (nat * row) :=
  flat_map (fun r => match row_tag r with Some t => [(t, r)] | None => [] end) (rows_of its).

Definition starts_with_char (c : N) (s : str) : bool := match s with x :: _ => N.eqb x c | [] => false end.
