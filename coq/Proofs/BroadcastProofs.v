(* K3 / C09: attribute binding survives expansion, column removal and per-page re-basing. *)
From Coq Require Import List NArith ZArith Bool Arith Lia.
From V Require Import Str Doc Broadcast Pipeline.
Import ListNotations.
Local Open Scope nat_scope.

(* ---- repeat_app ---- *)
Lemma repeat_app_length {A} (l : list A) k : length (repeat_app l k) = k * length l.
Proof. induction k as [|k IH]; cbn [repeat_app]; [reflexivity|]. rewrite app_length, IH. lia. Qed.

Lemma nth_error_repeat_app {A} (l : list A) k i :
  i < k * length l -> nth_error (repeat_app l k) i = nth_error l (i mod length l).
Proof.
  revert i; induction k as [|k IH]; intros i Hi; [lia|].
  cbn [repeat_app].
  assert (Hl : 0 < length l).
  { destruct l as [|x l']; [cbn [length] in Hi; rewrite Nat.mul_0_r in Hi; lia|cbn [length]; lia]. }
  destruct (Nat.lt_ge_cases i (length l)) as [Hlt|Hge].
  - rewrite nth_error_app1 by exact Hlt. rewrite Nat.mod_small by exact Hlt. reflexivity.
  - rewrite nth_error_app2 by exact Hge. rewrite IH by lia.
    f_equal. replace i with ((i - length l) + 1 * length l) at 2 by lia.
    rewrite Nat.mod_add by lia. reflexivity.
Qed.

Lemma ceil_div_ok a b : 0 < b -> a <= Nat.max 1 (ceil_div a b) * b.
Proof.
  intro Hb. unfold ceil_div.
  destruct a as [|a']; [lia|].
  replace (S a' + b - 1) with (a' + b) by lia.
  pose proof (Nat.div_mod (a' + b) b ltac:(lia)) as D.
  pose proof (Nat.mod_upper_bound (a' + b) b ltac:(lia)) as M.
  remember ((a' + b) / b) as q. remember ((a' + b) mod b) as m.
  assert (Hq : 1 <= q).
  { destruct q as [|q']; [|lia]. rewrite Nat.mul_0_r in D. lia. }
  rewrite Nat.max_r by exact Hq. nia.
Qed.

Lemma nth_error_firstn_lt {A} (l : list A) n i : i < n -> nth_error (firstn n l) i = nth_error l i.
Proof.
  revert l i; induction n as [|n IH]; intros l i Hi; [lia|].
  destruct l as [|x l]; [destruct i; reflexivity|]. destruct i as [|i]; [reflexivity|].
  cbn [firstn nth_error]. apply IH. lia.
Qed.

(* ---- to_list: entry (r, c) of the expanded grid is value[r mod R][c mod C] ---- *)
Definition rect {A} (v : mat A) (C : nat) : Prop := Forall (fun row => length row = C) v.

Lemma to_list_entry {A} (v : mat A) rows cols r c C :
  v <> [] -> 0 < C -> rect v C -> r < rows -> c < cols ->
  match nth_error (to_list v rows cols) r with
  | Some row => nth_error row c
  | None => None
  end = iloc v r c.
Proof.
  intros Hv HC Hrect Hr Hc. unfold to_list, iloc.
  destruct v as [|row0 v'] eqn:Ev; [congruence|]. rewrite <- Ev in *.
  assert (Hrow0 : length row0 = C) by (subst v; inversion Hrect; assumption).
  assert (HR : 0 < length v) by (subst v; cbn; lia).
  replace (length (hd [] v)) with C by (subst v; cbn; symmetry; exact Hrow0).
  rewrite Hrow0. destruct C as [|C']; [lia|]. set (C := S C') in *.
  set (rr := Nat.max 1 (ceil_div rows (length v))).
  set (cr := Nat.max 1 (ceil_div cols C)).
  set (wide := map (fun row => repeat_app row cr) v).
  assert (Hwl : length wide = length v) by (unfold wide; apply map_length).
  rewrite nth_error_map.
  rewrite nth_error_firstn_lt by exact Hr.
  rewrite nth_error_repeat_app by (rewrite Hwl; pose proof (ceil_div_ok rows (length v) HR); unfold rr; lia).
  rewrite Hwl. unfold wide. rewrite nth_error_map.
  destruct (nth_error v (r mod length v)) as [row|] eqn:En; cbn [option_map]; [|reflexivity].
  assert (Hlen : length row = C).
  { apply nth_error_In in En. unfold rect in Hrect. rewrite Forall_forall in Hrect. apply Hrect. exact En. }
  rewrite nth_error_firstn_lt by exact Hc.
  rewrite nth_error_repeat_app by (rewrite Hlen; pose proof (ceil_div_ok cols C ltac:(unfold C; lia)); unfold cr; lia).
  rewrite Hlen. reflexivity.
Qed.

(* ---- column removal: displayed column j is original column (kept j) ---- *)
Definition kept (rem : list nat) (i n : nat) : list nat :=
  filter (fun k => negb (existsb (Nat.eqb k) rem)) (seq i n).

Lemma drop_idx_from_nth {A} (rem : list nat) (l : list A) i j :
  nth_error (drop_idx_from i rem l) j
  = match nth_error (kept rem i (length l)) j with
    | Some k => nth_error l (k - i)
    | None => None
    end.
Proof.
  revert i j; induction l as [|x l IH]; intros i j; cbn [drop_idx_from length kept seq filter].
  - destruct j; reflexivity.
  - destruct (existsb (Nat.eqb i) rem) eqn:E; cbn [negb].
    + rewrite IH. unfold kept.
      destruct (nth_error (filter _ (seq (S i) (length l))) j) as [k|] eqn:Ek; [|reflexivity].
      assert (Hk : S i <= k).
      { apply nth_error_In in Ek. apply filter_In in Ek as [Ek _]. apply in_seq in Ek. lia. }
      replace (k - i) with (S (k - S i)) by lia. reflexivity.
    + destruct j as [|j]; cbn [nth_error].
      * rewrite Nat.sub_diag. reflexivity.
      * rewrite IH. unfold kept.
        destruct (nth_error (filter _ (seq (S i) (length l))) j) as [k|] eqn:Ek; [|reflexivity].
        assert (Hk : S i <= k).
        { apply nth_error_In in Ek. apply filter_In in Ek as [Ek _]. apply in_seq in Ek. lia. }
        replace (k - i) with (S (k - S i)) by lia. reflexivity.
Qed.

Corollary drop_idx_nth {A} (rem : list nat) (l : list A) j :
  nth_error (drop_idx rem l) j
  = match nth_error (kept rem 0 (length l)) j with Some k => nth_error l k | None => None end.
Proof.
  unfold drop_idx. rewrite drop_idx_from_nth.
  destruct (nth_error (kept rem 0 (length l)) j); [rewrite Nat.sub_0_r|]; reflexivity.
Qed.

(* ---- per-page re-basing: row i of the page's matrix is row start+i of the table's matrix ---- *)
Lemma nth_error_nth_lt {A} (l : list A) i d : i < length l -> nth_error l i = Some (nth i l d).
Proof.
  revert i; induction l as [|x l IH]; intros i Hi; [cbn in Hi; lia|].
  destruct i; [reflexivity|]. cbn. apply IH. cbn in Hi. lia.
Qed.

Lemma flat_map_singletons {A B} (f : A -> list B) (g : A -> B) (l : list A) :
  (forall x, In x l -> f x = [g x]) -> flat_map f l = map g l.
Proof.
  induction l as [|x l IH]; intro H; [reflexivity|].
  cbn [flat_map map]. rewrite (H x (or_introl eq_refl)). cbn [app]. f_equal.
  apply IH. intros y Hy. apply H. right. exact Hy.
Qed.

Lemma rebase_row {A} (start h : nat) (v : mat A) i :
  2 <= length v -> i < h ->
  match rebase start h (Some v) with
  | Some m => nth_error m i
  | None => None
  end = nth_error v ((start + i) mod length v).
Proof.
  intros Hv Hi. unfold rebase.
  destruct v as [|a [|b v']]; cbn [length] in Hv; try lia.
  set (w := a :: b :: v') in *.
  assert (Hw : 0 < length w) by (unfold w; cbn; lia).
  rewrite (flat_map_singletons _ (fun k => nth ((start + k) mod length w) w a)).
  - rewrite nth_error_map. rewrite (nth_error_nth_lt (seq 0 h) i 0) by (rewrite seq_length; exact Hi).
    rewrite seq_nth by exact Hi. cbn [option_map Nat.add].
    symmetry. apply nth_error_nth_lt. apply Nat.mod_upper_bound. lia.
  - intros k _. rewrite (nth_error_nth_lt w _ a) by (apply Nat.mod_upper_bound; lia). reflexivity.
Qed.

(* a scalar or single-row attribute is not touched by re-basing (it applies to every row anyway) *)
Lemma rebase_small {A} (start h : nat) (v : mat A) : length v <= 1 -> rebase start h (Some v) = Some v.
Proof. intro H. destruct v as [|a [|b v']]; cbn in H; try lia; reflexivity. Qed.

Lemma In_firstn {A} (l : list A) n x : In x (firstn n l) -> In x l.
Proof.
  revert l; induction n as [|n IH]; intros l H; [contradiction|].
  destruct l as [|y l]; [contradiction|]. cbn in H. destruct H as [->|H]; [left; reflexivity|right; apply IH; exact H].
Qed.

(* ---- dimensions of the expanded grid ---- *)
Lemma to_list_rows {A} (v : mat A) rows cols : v <> [] -> length (to_list v rows cols) = rows.
Proof.
  intro Hv. unfold to_list. rewrite map_length, firstn_length.
  rewrite repeat_app_length, map_length.
  assert (HR : 0 < length v) by (destruct v; [congruence|cbn; lia]).
  pose proof (ceil_div_ok rows (length v) HR). lia.
Qed.

Lemma to_list_row_length {A} (v : mat A) rows cols C row :
  0 < C -> rect v C -> In row (to_list v rows cols) -> length row = cols.
Proof.
  intros HC Hrect Hin. unfold to_list in Hin. apply in_map_iff in Hin as (wrow & <- & Hin).
  apply In_firstn in Hin.
  assert (G : forall k, In wrow (repeat_app (map (fun row0 => repeat_app row0 (Nat.max 1 (ceil_div cols (length (hd [] v))))) v) k) ->
              exists r0, In r0 v /\ wrow = repeat_app r0 (Nat.max 1 (ceil_div cols (length (hd [] v))))).
  { induction k as [|k IHk]; cbn [repeat_app]; [contradiction|]. intro H.
    apply in_app_or in H as [H|H]; [|exact (IHk H)].
    apply in_map_iff in H as (r0 & <- & Hr0). exists r0. split; [exact Hr0|reflexivity]. }
  destruct (G _ Hin) as (r0 & Hr0 & ->).
  unfold rect in Hrect. rewrite Forall_forall in Hrect.
  assert (Hh : length (hd [] v) = C).
  { destruct v as [|x v']; [contradiction|]. cbn. apply Hrect. left; reflexivity. }
  rewrite firstn_length, repeat_app_length, (Hrect r0 Hr0), Hh.
  pose proof (ceil_div_ok cols C HC). lia.
Qed.

(* ---- the binding theorem: after expansion to the full grid and removal of columns, the value at
   (row r, displayed column j) is the value the user's attribute has at (r, original column of j) ---- *)
Theorem slice_binding {A} (v : mat A) rows cols C rem r j k :
  v <> [] -> 0 < C -> rect v C -> r < rows ->
  nth_error (kept rem 0 cols) j = Some k ->
  iloc (map (drop_idx rem) (to_list v rows cols)) r j = iloc v r k.
Proof.
  intros Hv HC Hrect Hr Hk.
  assert (Hkc : k < cols).
  { apply nth_error_In in Hk. unfold kept in Hk. apply filter_In in Hk as [Hk _]. apply in_seq in Hk. lia. }
  set (M := to_list v rows cols).
  assert (HMr : length M = rows) by (apply to_list_rows; exact Hv).
  assert (Hrow : exists row, nth_error M r = Some row).
  { destruct (nth_error M r) eqn:E; [eauto|]. apply nth_error_None in E. lia. }
  destruct Hrow as (row & Erow).
  assert (Hrl : length row = cols).
  { eapply to_list_row_length; [exact HC|exact Hrect|]. eapply nth_error_In; exact Erow. }
  pose proof (to_list_entry v rows cols r k C Hv HC Hrect Hr Hkc) as Hent.
  fold M in Hent. rewrite Erow in Hent.
  (* the sliced matrix *)
  unfold iloc at 1.
  destruct (map (drop_idx rem) M) as [|row0' M'] eqn:EM.
  { apply (f_equal (@length _)) in EM. rewrite map_length, HMr in EM. cbn in EM. lia. }
  rewrite <- EM.
  assert (Hrow0 : length row0' = length (kept rem 0 cols)).
  { assert (Hin0 : In row0' (map (drop_idx rem) M)) by (rewrite EM; left; reflexivity).
    apply in_map_iff in Hin0 as (r0 & <- & Hr0).
    assert (length r0 = cols) by (eapply to_list_row_length; [exact HC|exact Hrect|exact Hr0]).
    clear -H. unfold drop_idx. revert H. generalize 0 as i. revert cols.
    induction r0 as [|x r0 IH]; intros cols i H; cbn in H; subst cols; cbn [drop_idx_from kept seq filter length]; [reflexivity|].
    destruct (existsb (Nat.eqb i) rem); cbn [negb length]; [apply (IH (length r0) (S i) eq_refl)|].
    f_equal. apply (IH (length r0) (S i) eq_refl). }
  assert (Hj : j < length (kept rem 0 cols)) by (apply nth_error_Some; congruence).
  rewrite Hrow0. destruct (length (kept rem 0 cols)) as [|c'] eqn:Ec; [lia|].
  rewrite map_length, HMr. rewrite Nat.mod_small by exact Hr. rewrite Nat.mod_small by exact Hj.
  rewrite nth_error_map, Erow. cbn [option_map].
  rewrite drop_idx_nth, Hrl, Hk. exact Hent.
Qed.
