(* C14: encoding is a pure function of the document — the process shell around the encoder.
   The encoder itself (Document.encode) is a Gallina function, hence pure by construction; these theorems are about
   the only process state the real encoder reads, the colour context, modelled in Model/Ctx.v. *)
From Coq Require Import Ascii String.
From Coq Require Import List NArith ZArith Bool Arith.
Local Open Scope string_scope.
Local Open Scope list_scope.
From V Require Import Str Doc Ctx CtxProofs.
Import ListNotations.

(* for EVERY history h (any length, any mix of constructions, successful and failing encodes, from any starting
   context s) the result of then encoding t is enc (Some (pal t)) t — the result in a fresh process *)
Theorem C14_history_independent :
  forall (D O : Type) (pal : D -> list str) (enc : option (list str) -> D -> res O) s h t,
    snd (run D O pal enc s (h ++ [Encode t])) = snd (run D O pal enc s h) ++ [Some (enc (Some (pal t)) t)].
Proof. exact encode_pure. Qed.
Print Assumptions C14_history_independent.

Theorem C14_encode_twice_same :
  forall (D O : Type) (pal : D -> list str) (enc : option (list str) -> D -> res O) s h t,
    let outs := snd (run D O pal enc s (h ++ [Encode t; Encode t])) in
    nth_error outs (length h) = nth_error outs (S (length h)).
Proof. exact encode_twice_same. Qed.
Print Assumptions C14_encode_twice_same.

Theorem C14_no_residue :
  forall (D O : Type) (pal : D -> list str) (enc : option (list str) -> D -> res O) h,
    fst (run D O pal enc None h) = None.
Proof. exact context_cleared. Qed.
Print Assumptions C14_no_residue.

(* the WHOLE output list of any history from any starting context: every encode in it returns what a fresh process
   returns for that document, every construction returns nothing - independent of position, of what ran before, and of
   which earlier encodes failed *)
Theorem C14_every_output :
  forall (D O : Type) (pal : D -> list str) (enc : option (list str) -> D -> res O) s h,
    snd (run D O pal enc s h) = map (fresh_out pal enc) h.
Proof. exact run_outputs_fresh. Qed.
Print Assumptions C14_every_output.

(* the shell before the repairs (context set on one path only, not cleared on failure) does NOT have the property *)
Theorem C14_old_shell_refuted :
  snd (run_old nat _ demo_pal demo_enc demo_uses None [Encode 0; Encode 1])
  <> snd (run_old nat _ demo_pal demo_enc demo_uses None [Encode 0]) ++ snd (run_old nat _ demo_pal demo_enc demo_uses None [Encode 1]).
Proof. exact old_shell_history_dependent. Qed.
Print Assumptions C14_old_shell_refuted.

Example C14_nonvacuous :
  snd (run nat _ demo_pal demo_enc None [Encode 0; Construct 1; Encode 1; Encode 1])
  = [Some (Err ValueErr); None; Some (Ok (Some [s2l "blue"])); Some (Ok (Some [s2l "blue"]))].
Proof. vm_compute. reflexivity. Qed.
