(* Byte-level view of an RTF file declared \ansi (no \ansicpg): bytes >= 0x80 denote Windows-1252 characters. *)
From Coq Require Import List NArith ZArith Bool.
From V Require Import Str Tok.
Import ListNotations.
Local Open Scope N_scope.

(* Windows-1252, 0x80..0x9F (undefined positions map to the C1 control of the same value) *)
Definition cp1252_high : list N :=
  [8364; 129; 8218; 402; 8222; 8230; 8224; 8225; 710; 8240; 352; 8249; 338; 141; 381; 143;
   144; 8216; 8217; 8220; 8221; 8226; 8211; 8212; 732; 8482; 353; 8250; 339; 157; 382; 376].

Definition cp1252 (b : N) : N :=
  if (128 <=? b) && (b <? 160) then nth (N.to_nat (b - 128)) cp1252_high b else b.

Definition chars_of_bytes (bs : list N) : str := map cp1252 bs.

Definition hexval (c : N) : option N :=
  if (48 <=? c) && (c <=? 57) then Some (c - 48)
  else if (97 <=? c) && (c <=? 102) then Some (c - 87)
  else if (65 <=? c) && (c <=? 70) then Some (c - 55)
  else None.
