(* C05 — every data row sits under its own group heading on its own page.
   Model: Paginate.group_values / boundaries (ports of _get_group_headers / _detect_group_boundaries) and
   Pipeline.boundary_headings / render_segments (the force_render loop of PageRenderer._render_body).
   For ALL frames, key lists and boundary states:
     C05_plan        the force_render loop renders exactly heading_plan, in that order;
     C05_order       the rendered levels are a subsequence of the page_by columns: outer before inner;
     C05_changed     a level whose value differs from the state carried from the previous rows is always
                     rendered; C05_forced: once a level is rendered, every inner level with a value is
                     re-rendered; C05_unchanged: nothing is rendered when no level changed;
     C05_divider     '-----' values are filtered from the heading values (page top and in-page);
     C05_divider_cost  (Proofs/DividerProofs.v) a row whose grouping values are all '-----' is budgeted with its data lines only;
     C05_followed    in-page boundaries are strictly increasing and lie strictly inside the page, so the
                     headings of a boundary are directly followed by the first data row of the new group.
   The page-top headings are group_values of the page's FIRST row (pc_pbinfo), rendered by top_headings
   before the body (C06_order).
     C05_state       (Proofs/StateProofs.v) the LOOP INVARIANT: for every page, at every row j of the page, the
                     heading state in force (the page's first-row values with every boundary up to j applied,
                     which is the `last` that render_segments carries) agrees with row j on EVERY page_by level
                     whose value is not the divider - so each boundary compares the new row with the true values
                     of the rows above it, and by C05_changed / C05_forced every level whose text changed gets its
                     heading, outer before inner (C05_order), directly above the first row of the group
                     (C05_followed).
   What is still checked rather than proved: the reading of these facts off the rendered ITEMS ("the nearest
   preceding level-l heading row on the page shows v_l(r)"), which check_c05 evaluates on the implementation. *)
From Coq Require Import Ascii String.
From Coq Require Import List NArith ZArith QArith Bool Arith.
From V Require Import Str Num Tok Items Doc Encode Paginate Pipeline Checks HeadingProofs StateProofs DividerProofs.
Import ListNotations.
Local Open Scope string_scope.
Local Open Scope list_scope.
Local Open Scope nat_scope.

Theorem C05_plan : forall ctx s keys new last force,
  boundary_headings ctx s keys new last force = render_plan ctx s (heading_plan keys new last force).
Proof. exact boundary_headings_plan. Qed.
Print Assumptions C05_plan.

Theorem C05_order : forall keys new last force, subseq (map fst (heading_plan keys new last force)) keys.
Proof. exact plan_order. Qed.

Theorem C05_changed : forall keys new last force k v,
  NoDup keys -> In k keys -> lookup_val k new = Some v -> v <> VNull ->
  str_eqb (py_str v) (opt_py_str (lookup_val k last)) = false ->
  In (k, v) (heading_plan keys new last force).
Proof. exact plan_changed. Qed.
Print Assumptions C05_changed.

Theorem C05_forced : forall keys new last k v,
  lookup_val k new = Some v -> v <> VNull -> In k keys -> In (k, v) (heading_plan keys new last true).
Proof. exact plan_forced. Qed.

Theorem C05_unchanged : forall keys new last,
  (forall k v, lookup_val k new = Some v -> v <> VNull ->
               str_eqb (py_str v) (opt_py_str (lookup_val k last)) = true) ->
  heading_plan keys new last false = [].
Proof. exact plan_unchanged. Qed.

Theorem C05_divider : forall cols keys row k v,
  In (k, v) (group_values cols keys row) -> str_eqb (py_str v) divider = false.
Proof. exact group_values_no_divider. Qed.

(* ... and never cost a data row: a row all of whose page_by and subline_by values are the divider is budgeted with its data
   lines only (the metadata that the page assignment of C04 consumes), whether or not it starts a group *)
Theorem C05_divider_cost : forall widths fonts sizes i cols removed cw pb sl row rest pbc slc m ms,
  metas widths fonts sizes i cols removed cw pb sl (row :: rest) pbc slc = Ok (m :: ms) ->
  (forall keys, pb = Some keys -> all_divider cols keys row) ->
  (forall keys, sl = Some keys -> all_divider cols keys row) ->
  rm_pb m = 0%Z /\ rm_sl m = 0%Z /\ rm_total m = rm_data m.
Proof. exact divider_row_costs_its_lines. Qed.
Print Assumptions C05_divider_cost.

(* hence the greedy page assignment never closes a page before an all-divider row that still fits: the predicate's clause 8
   (c05_divider_cost, evaluated on the implementation's pages) is false on the model's own pages *)
Theorem C05_divider_loop : forall avail np f keys ms t page cur,
  (forall i m, nth_error ms i = Some m -> all_divider_row f keys (t + i) = true -> rm_total m = rm_data m) ->
  c05_divider_cost avail np f keys ms (assign_loop avail np ms false page cur) t page cur = false.
Proof. exact loop_never_charges_dividers. Qed.
Print Assumptions C05_divider_loop.

Theorem C05_followed : forall f keys start len,
  (Forall (fun b => 1 <= fst b < len) (boundaries f keys start len) \/ boundaries f keys start len = [])
  /\ increasing (map fst (boundaries f keys start len)).
Proof. intros. split; [apply boundaries_inside|apply boundaries_increasing]. Qed.
Print Assumptions C05_followed.

Theorem C05_state : forall f keys start len j row,
  nth_error (firstn len (skipn start (f_rows f))) j = Some row ->
  match firstn len (skipn start (f_rows f)) with
  | r0 :: _ => agrees (f_cols f) keys (state_at keys (boundaries f keys start len) (group_values (f_cols f) keys r0) j) row
  | [] => True
  end.
Proof. exact page_state_invariant. Qed.
Print Assumptions C05_state.

(* two levels, the outer one changes: both are rendered, outer first *)
Example C05_example :
  let a := s2l "g0" in let b := s2l "g1" in
  map fst (heading_plan [a; b] [(a, VStr (s2l "@A2")); (b, VStr (s2l "@B1"))]
                        [(a, VStr (s2l "@A1")); (b, VStr (s2l "@B1"))] false) = [a; b].
Proof. vm_compute. reflexivity. Qed.
