(* C02 at section level: the pages the model's pagination produces partition the frame rows - every row is on
   exactly one page, in order - for every frame, body, page settings and width oracle. *)
From Coq Require Import Ascii String.
From Coq Require Import List NArith ZArith QArith Bool Arith Lia.
From V Require Import Str Num Items Doc Broadcast Encode Paginate GroupBy Pipeline HeadingProofs.
From V Require Import PaginateProofs SliceProofs DocumentWF.
Import ListNotations.
Local Open Scope list_scope.
Local Open Scope nat_scope.

(* ---- counting occurrences ---- *)
Fixpoint countz (p : Z) (l : list Z) : nat :=
  match l with [] => 0 | q :: r => (if Z.eqb p q then 1 else 0) + countz p r end.

Lemma range_none p pages i acc : (forall q, In q pages -> q <> p) -> range_of p pages i acc = acc.
Proof.
  revert i acc; induction pages as [|q r IH]; intros i acc H; cbn [range_of]; [reflexivity|].
  replace (Z.eqb p q) with false by (symmetry; apply Z.eqb_neq; intro E; apply (H q); [left; reflexivity|congruence]).
  apply IH. intros x Hx. apply H. right. exact Hx.
Qed.

Lemma countz_none p l : (forall q, In q l -> q <> p) -> countz p l = 0.
Proof.
  induction l as [|q r IH]; intro H; cbn [countz]; [reflexivity|].
  replace (Z.eqb p q) with false by (symmetry; apply Z.eqb_neq; intro E; apply (H q); [left; reflexivity|congruence]).
  apply IH. intros x Hx. apply H. right. exact Hx.
Qed.

(* non-decreasing lists *)
Fixpoint nondecr (prev : Z) (l : list Z) : Prop :=
  match l with [] => True | p :: r => (prev <= p)%Z /\ nondecr p r end.

Lemma steps_nondecr prev l : steps_from prev l -> nondecr prev l.
Proof.
  revert prev; induction l as [|p r IH]; intros prev H; cbn in *; [exact I|].
  destruct H as [[H|H] H2]; (split; [lia|apply IH; exact H2]).
Qed.

Lemma nondecr_ge prev l : nondecr prev l -> forall q, In q l -> (prev <= q)%Z.
Proof.
  revert prev; induction l as [|p r IH]; intros prev H q Hq; [contradiction|].
  cbn in H. destruct H as [H1 H2]. destruct Hq as [->|Hq]; [exact H1|].
  specialize (IH p H2 q Hq). lia.
Qed.

Lemma nondecr_weaken a b l : (a <= b)%Z -> nondecr b l -> nondecr a l.
Proof. destruct l as [|p r]; cbn; [trivial|]. intros H [H1 H2]. split; [lia|exact H2]. Qed.

(* the run of p continues *)
Lemma range_run p pages lo hi :
  lo <= hi -> nondecr p pages ->
  range_of p pages (S hi) (Some (lo, hi)) = Some (lo, hi + countz p pages).
Proof.
  revert hi; induction pages as [|q r IH]; intros hi Hl Hs; cbn [range_of countz].
  - rewrite Nat.add_0_r. reflexivity.
  - cbn in Hs. destruct Hs as [H1 H2]. destruct (Z.eqb p q) eqn:E.
    + apply Z.eqb_eq in E; subst q.
      replace (Nat.min lo (S hi)) with lo by lia. replace (Nat.max hi (S hi)) with (S hi) by lia.
      rewrite IH by (try lia; exact H2). f_equal. f_equal. lia.
    + apply Z.eqb_neq in E.
      rewrite range_none, countz_none.
      * f_equal. f_equal. lia.
      * intros x Hx. pose proof (nondecr_ge q r H2 x Hx). lia.
      * intros x Hx. pose proof (nondecr_ge q r H2 x Hx). lia.
Qed.

Lemma range_first p pages i prev :
  nondecr prev pages ->
  match range_of p pages i None with
  | Some (lo, hi) => hi - lo + 1 = countz p pages /\ lo <= hi
  | None => countz p pages = 0
  end.
Proof.
  revert i prev; induction pages as [|q r IH]; intros i prev Hs; cbn [range_of countz]; [reflexivity|].
  cbn in Hs. destruct Hs as [H1 H2]. destruct (Z.eqb p q) eqn:E.
  - apply Z.eqb_eq in E; subst q. rewrite range_run by (try lia; exact H2). split; lia.
  - cbn [Nat.add]. exact (IH (S i) q H2).
Qed.

(* ---- unique_sorted lists every page number exactly once ---- *)
Lemma insert_z_in z l x : In x (insert_z z l) <-> z = x \/ In x l.
Proof.
  induction l as [|y r IH]; cbn [insert_z].
  - cbn. tauto.
  - destruct (Z.eqb z y) eqn:E1; [apply Z.eqb_eq in E1; subst; cbn; tauto|].
    destruct (Z.ltb z y); cbn [In]; [tauto|]. rewrite IH. tauto.
Qed.

Fixpoint strictly_incr (l : list Z) : Prop :=
  match l with
  | [] => True
  | x :: r => (forall y, In y r -> (x < y)%Z) /\ strictly_incr r
  end.

Lemma insert_z_incr z l : strictly_incr l -> strictly_incr (insert_z z l).
Proof.
  induction l as [|y r IH]; intro H; cbn [insert_z].
  - cbn. split; [intros ? []|exact I].
  - destruct H as [H1 H2]. destruct (Z.eqb z y) eqn:E1; [split; assumption|].
    apply Z.eqb_neq in E1. destruct (Z.ltb z y) eqn:E2.
    + apply Z.ltb_lt in E2. split; [|split; assumption].
      intros x [->|Hx]; [exact E2|]. specialize (H1 x Hx). lia.
    + apply Z.ltb_ge in E2. split; [|apply IH; exact H2].
      intros x Hx. apply insert_z_in in Hx as [<-|Hx]; [lia|apply H1; exact Hx].
Qed.

Lemma unique_sorted_in l x : In x (unique_sorted l) <-> In x l.
Proof.
  induction l as [|y r IH]; [reflexivity|]. unfold unique_sorted in *. cbn [fold_right].
  rewrite insert_z_in, IH. cbn. intuition.
Qed.

Lemma unique_sorted_incr l : strictly_incr (unique_sorted l).
Proof. induction l as [|y r IH]; [exact I|]. unfold unique_sorted in *. cbn [fold_right]. apply insert_z_incr. exact IH. Qed.

Definition sum_over (f : Z -> nat) (u : list Z) : nat := fold_right (fun p acc => f p + acc) 0 u.

Lemma sum_indicator x u : strictly_incr u -> In x u -> sum_over (fun p => if Z.eqb p x then 1 else 0) u = 1.
Proof.
  induction u as [|y r IH]; intros Hs Hin; [contradiction|].
  destruct Hs as [H1 H2]. cbn [sum_over fold_right]. fold (sum_over (fun p => if Z.eqb p x then 1 else 0) r).
  destruct Hin as [->|Hin].
  - rewrite Z.eqb_refl.
    assert (Z0 : sum_over (fun p => if Z.eqb p x then 1 else 0) r = 0).
    { clear IH H2. induction r as [|z r IHr]; [reflexivity|]. cbn [sum_over fold_right].
      fold (sum_over (fun p => if Z.eqb p x then 1 else 0) r).
      replace (Z.eqb z x) with false by (symmetry; apply Z.eqb_neq; specialize (H1 z (or_introl eq_refl)); lia).
      apply IHr. intros w Hw. apply H1. right. exact Hw. }
    rewrite Z0. reflexivity.
  - replace (Z.eqb y x) with false by (symmetry; apply Z.eqb_neq; specialize (H1 x Hin); lia).
    apply IH; assumption.
Qed.

Lemma sum_over_add f g u : sum_over (fun p => f p + g p) u = sum_over f u + sum_over g u.
Proof. unfold sum_over. induction u as [|y r IH]; [reflexivity|]. cbn [fold_right]. rewrite IH. lia. Qed.

Lemma sum_over_ext f g u : (forall p, f p = g p) -> sum_over f u = sum_over g u.
Proof. intro H. unfold sum_over. induction u as [|y r IH]; [reflexivity|]. cbn [fold_right]. rewrite IH, H. reflexivity. Qed.

Lemma sum_counts l u : strictly_incr u -> (forall x, In x l -> In x u) -> sum_over (fun p => countz p l) u = length l.
Proof.
  intros Hs. induction l as [|x l IH]; intro Hin.
  - cbn [countz length]. clear. unfold sum_over. induction u as [|y r IHr]; [reflexivity|]. cbn [fold_right]. exact IHr.
  - cbn [length].
    rewrite (sum_over_ext _ (fun p => (if Z.eqb p x then 1 else 0) + countz p l)) by (intro p; reflexivity).
    rewrite sum_over_add, sum_indicator by (try exact Hs; apply Hin; left; reflexivity).
    rewrite IH by (intros y Hy; apply Hin; right; exact Hy). reflexivity.
Qed.

(* ---- build_pages: the page lengths add up to the number of rows ---- *)
Lemma sum_lens_app a b : sum_lens (a ++ b) = sum_lens a + sum_lens b.
Proof. induction a as [|p a IH]; [reflexivity|]. cbn [app sum_lens fold_right] in *. fold (sum_lens (a ++ b)) (sum_lens a). rewrite IH. lia. Qed.

Lemma sum_lens_flat_map (g : Z -> list pagectx) (h : Z -> nat) u :
  (forall p, sum_lens (g p) = h p) -> sum_lens (flat_map g u) = sum_over h u.
Proof.
  intro H. unfold sum_over. induction u as [|p u IH]; [reflexivity|].
  cbn [flat_map fold_right]. rewrite sum_lens_app, IH, H. reflexivity.
Qed.

Theorem build_pages_lens f b st pages prev :
  nondecr prev pages -> sum_lens (build_pages f b st pages) = length pages.
Proof.
  intro Hs. unfold build_pages.
  rewrite <- (sum_counts pages (unique_sorted pages) (unique_sorted_incr pages))
    by (intros x Hx; apply unique_sorted_in; exact Hx).
  apply sum_lens_flat_map. intro p.
  pose proof (range_first p pages 0 prev Hs) as R.
  destruct (range_of p pages 0 None) as [[lo hi]|]; [|cbn; symmetry; exact R].
  cbn [sum_lens fold_right pc_len]. lia.
Qed.

(* ---- row metadata has one entry per frame row ---- *)
Lemma metas_length widths fonts sizes i cols rem cw pb sl rows pbc slc ms :
  metas widths fonts sizes i cols rem cw pb sl rows pbc slc = Ok ms -> length ms = length rows.
Proof.
  revert i pbc slc ms; induction rows as [|row rows IH]; intros i pbc slc ms H; cbn [metas] in H.
  - inv_ok H. reflexivity.
  - do 4 inv_bind H. inv_ok H. cbn [length]. f_equal. eapply IH. eassumption.
Qed.

Lemma row_metadata_length widths fonts sizes f rem cw pb sl ms :
  row_metadata widths fonts sizes f rem cw pb sl = Ok ms -> length ms = length (f_rows f).
Proof. unfold row_metadata. apply metas_length. Qed.

Lemma paginate_lens s pattrs rem cw pages :
  paginate s pattrs rem cw = Ok pages -> sum_lens pages = length (f_rows (s_frame s)).
Proof.
  unfold paginate. intro H. inv_bind H. inv_ok H.
  rewrite (build_pages_lens _ _ _ _ 1%Z) by (apply steps_nondecr, assign_steps).
  rewrite assign_length.
  destruct (choose_strategy (s_body s)); eapply row_metadata_length; eassumption.
Qed.

Lemma prepare_rows f b : length (f_rows (fst (fst (prepare f b)))) = length (f_rows f).
Proof.
  unfold prepare. destruct (removed_names b); cbn [fst f_rows]; [reflexivity|apply map_length].
Qed.

Lemma set_slice_starts_lens pages c : sum_lens (set_slice_starts pages c) = sum_lens pages.
Proof.
  revert c; induction pages as [|p pages IH]; intros c; [reflexivity|].
  cbn [set_slice_starts sum_lens fold_right pc_len]. fold (sum_lens (set_slice_starts pages (c + pc_len p))) (sum_lens pages).
  rewrite IH. reflexivity.
Qed.

(* ---- the section's pages partition its rows (no group_by: the rows are the frame's own) ---- *)
Definition no_group_by (b : body) : Prop :=
  match b_group_by b with Some (_ :: _) => False | _ => True end.

Theorem section_rows_partition s pf pattrs cw pages rows :
  section_pages s = Ok (pf, pattrs, cw, pages, rows) -> no_group_by (s_body s) ->
  rows = f_rows pf /\ length rows = length (f_rows (s_frame s)) /\ concat (map (page_rows rows) pages) = rows.
Proof.
  unfold section_pages, no_group_by. intros H Hg.
  pose proof (prepare_rows (s_frame s) (s_body s)) as Hp.
  destruct (prepare (s_frame s) (s_body s)) as [[pf0 pattrs0] rem] eqn:Ep. cbn [fst] in Hp.
  do 2 inv_bind H.
  unfold post_process in E0.
  destruct (b_group_by (s_body s)) as [[|k ks]|]; try contradiction; inv_ok E0; inv_ok H.
  all: split; [reflexivity|]; split; [exact Hp|].
  all: pose proof (paginate_lens _ _ _ _ _ E) as Hl.
  all: destruct x as [|p0 ps].
  all: try (cbn [sum_lens fold_right] in Hl;
            assert (Hr : f_rows pf = []) by (destruct (f_rows pf); [reflexivity|cbn in Hp; rewrite <- Hl in Hp; discriminate]);
            rewrite Hr; reflexivity).
  all: apply slices_partition; rewrite Hp; exact Hl.
Qed.

(* ---- within a page: the data rows rendered around the group headings are the page's rows, once each, in order ---- *)
Inductive Shuffle {A : Type} : list A -> list A -> list A -> Prop :=
| sh_nil : Shuffle [] [] []
| sh_l x a b c : Shuffle a b c -> Shuffle (x :: a) b (x :: c)
| sh_r x a b c : Shuffle a b c -> Shuffle a (x :: b) (x :: c).

Lemma shuffle_left {A} (a : list A) : Shuffle a [] a.
Proof. induction a; constructor; assumption. Qed.
Lemma shuffle_right {A} (b : list A) : Shuffle [] b b.
Proof. induction b; constructor; assumption. Qed.
Lemma shuffle_app {A} (a b c a' b' c' : list A) :
  Shuffle a b c -> Shuffle a' b' c' -> Shuffle (a ++ a') (b ++ b') (c ++ c').
Proof. induction 1; intro H'; cbn [app]; [exact H'| |]; constructor; apply IHShuffle; exact H'. Qed.

Lemma shuffle_app_l {A} (p a b c : list A) : Shuffle a b c -> Shuffle (p ++ a) b (p ++ c).
Proof. intro H. induction p; cbn [app]; [exact H|constructor; exact IHp]. Qed.
Lemma shuffle_app_r {A} (q a b c : list A) : Shuffle a b c -> Shuffle a (q ++ b) (q ++ c).
Proof. intro H. induction q; cbn [app]; [exact H|constructor; exact IHq]. Qed.

Lemma table_encode_app ctx a cw r1 r2 off x y :
  table_encode ctx a cw r1 off = Ok x -> table_encode ctx a cw r2 (off + length r1) = Ok y ->
  table_encode ctx a cw (r1 ++ r2) off = Ok (x ++ y).
Proof.
  unfold table_encode. intros H1 H2. inv_bind H1. inv_ok H1. inv_bind H2. inv_ok H2.
  rewrite encode_rows_app, E, E0. cbn. rewrite map_app. reflexivity.
Qed.

Lemma table_encode_nil ctx a cw off : table_encode ctx a cw [] off = Ok [].
Proof. reflexivity. Qed.

Theorem render_segments_rows ctx s a cw rows bounds prev last its :
  prev <= length rows -> increasing (prev :: map fst bounds) -> Forall (fun b => fst b <= length rows) bounds ->
  render_segments ctx s a cw rows bounds prev last = Ok its ->
  exists data heads, table_encode ctx a cw (skipn prev rows) prev = Ok data /\ Shuffle data heads its.
Proof.
  revert prev last its; induction bounds as [|[rel gv] bounds IH]; intros prev last its Hp Hi Hf H; cbn [render_segments] in H.
  - destruct (Nat.ltb prev (length rows)) eqn:E.
    + exists its, []. split; [exact H|apply shuffle_left].
    + inv_ok H. apply Nat.ltb_ge in E. exists [], []. split; [|constructor].
      rewrite skipn_all2 by exact E. reflexivity.
  - do 3 inv_bind H. inv_ok H.
    cbn [map fst increasing] in Hi. destruct Hi as [Hlt Hi].
    inversion Hf as [|? ? Hrel Hf']; subst. cbn [fst] in Hrel.
    replace (Nat.ltb prev rel) with true in E by (symmetry; apply Nat.ltb_lt; exact Hlt).
    destruct (IH rel _ x1 Hrel Hi Hf' E1) as (data' & heads' & Hd & Hs).
    exists (x ++ data'), (x0 ++ heads'). split.
    + rewrite <- (firstn_skipn (rel - prev) (skipn prev rows)).
      apply table_encode_app; [exact E|].
      rewrite skipn_skipn. replace (prev + (rel - prev)) with rel by lia.
      rewrite firstn_length, skipn_length. replace (prev + Nat.min (rel - prev) (length rows - prev)) with rel by lia.
      exact Hd.
    + apply shuffle_app_l, shuffle_app_r. exact Hs.
Qed.

(* ---- C06: the pages are numbered 1..n, know their total, and only the first / last carry the first / last flag ---- *)
Fixpoint zrange (a : Z) (n : nat) : list Z :=
  match n with O => [] | S k => a :: zrange (a + 1) k end.

Lemma zrange_S a n : zrange a (S n) = a :: zrange (a + 1) n.
Proof. reflexivity. Qed.

Lemma zrange_length a n : length (zrange a n) = n.
Proof. revert a; induction n as [|n IH]; intro a; [reflexivity|]. cbn. f_equal. apply IH. Qed.

Lemma zrange_nth a n i x : nth_error (zrange a n) i = Some x -> x = (a + Z.of_nat i)%Z /\ (i < n)%nat.
Proof.
  revert a i; induction n as [|n IH]; intros a i H; [destruct i; discriminate|].
  destruct i as [|i]; cbn in H.
  - inversion H; subst. split; lia.
  - destruct (IH _ _ H) as [-> Hi]. split; lia.
Qed.

Lemma insert_z_head z x r : insert_z z (x :: r) = if Z.eqb z x then x :: r else if Z.ltb z x then z :: x :: r else x :: insert_z z r.
Proof. reflexivity. Qed.

(* a step sequence starting at p covers the interval from p to its last value *)
Lemma unique_sorted_steps p r :
  steps_from p r -> exists n, unique_sorted (p :: r) = zrange p (S n) /\ last (p :: r) p = (p + Z.of_nat n)%Z.
Proof.
  revert p; induction r as [|q r IH]; intros p H.
  - exists 0%nat. split; [reflexivity|cbn; lia].
  - cbn [steps_from] in H. destruct H as [Hq Hs]. destruct (IH q Hs) as (n & Hu & Hl).
    change (unique_sorted (p :: q :: r)) with (insert_z p (unique_sorted (q :: r))).
    rewrite Hu, zrange_S, insert_z_head. destruct Hq as [-> | ->].
    + rewrite Z.eqb_refl. exists n. split; [rewrite zrange_S; reflexivity|].
      change (last (p :: p :: r) p) with (last (p :: r) p). exact Hl.
    + replace (Z.eqb p (p + 1)) with false by (symmetry; apply Z.eqb_neq; lia).
      replace (Z.ltb p (p + 1)) with true by (symmetry; apply Z.ltb_lt; lia).
      exists (S n). split; [rewrite (zrange_S p (S n)), (zrange_S (p + 1) n); reflexivity|].
      change (last (p :: (p + 1)%Z :: r) p) with (last ((p + 1)%Z :: r) p).
      replace (last ((p + 1)%Z :: r) p) with (last ((p + 1)%Z :: r) (p + 1)%Z)
        by (clear; generalize (p + 1)%Z at 1 3 as a; intro a; revert a; induction r as [|x r IHr]; intro a; [reflexivity|apply (IHr x)]).
      rewrite Hl. lia.
Qed.

Lemma countz_in p l : In p l -> (0 < countz p l)%nat.
Proof.
  induction l as [|q r IH]; [contradiction|]. cbn [countz In]. intros [->|H]; [rewrite Z.eqb_refl; lia|].
  specialize (IH H). lia.
Qed.

Definition page_nums (ps : list pagectx) : list Z := map pc_num ps.

Definition flags_ok (total : Z) (p : pagectx) : Prop :=
  pc_total p = total /\ pc_first p = Z.eqb (pc_num p) 1 /\ pc_last p = Z.eqb (pc_num p) total.

Theorem build_pages_numbering f b st r :
  steps_from 1 r ->
  let ps := build_pages f b st (1%Z :: r) in
  exists n, page_nums ps = zrange 1 (S n) /\ length ps = S n /\ Forall (flags_ok (Z.of_nat (S n))) ps.
Proof.
  intro Hs. cbv zeta. destruct (unique_sorted_steps 1 r Hs) as (n & Hu & _). exists n.
  assert (Hnd : nondecr 1 (1%Z :: r)) by (split; [lia|apply steps_nondecr; exact Hs]).
  unfold build_pages. rewrite Hu.
  assert (Hlen : length (zrange 1 (S n)) = S n) by apply zrange_length.
  rewrite Hlen.
  assert (Hin : forall p, In p (zrange 1 (S n)) -> In p (1%Z :: r)) by (intros p Hp; rewrite <- Hu in Hp; apply unique_sorted_in; exact Hp).
  set (g := fun p : Z => match range_of p (1%Z :: r) 0 None with Some (lo, hi) => _ | None => [] end).
  assert (G : forall u, (forall p, In p u -> In p (1%Z :: r)) ->
              page_nums (flat_map g u) = u /\ Forall (flags_ok (Z.of_nat (S n))) (flat_map g u)).
  { induction u as [|p u IH]; intro Hu'; [split; [reflexivity|constructor]|].
    destruct (IH (fun q Hq => Hu' q (or_intror Hq))) as [I1 I2].
    cbn [flat_map]. subst g. cbn beta.
    pose proof (range_first p (1%Z :: r) 0 1%Z Hnd) as R.
    pose proof (countz_in p (1%Z :: r) (Hu' p (or_introl eq_refl))) as C.
    destruct (range_of p (1%Z :: r) 0 None) as [[lo hi]|]; [|lia].
    cbn [app page_nums map pc_num]. split; [f_equal; exact I1|].
    constructor; [|exact I2]. unfold flags_ok. cbn. repeat split. }
  destruct (G (zrange 1 (S n)) Hin) as [G1 G2].
  split; [exact G1|]. split; [|exact G2].
  rewrite <- (map_length pc_num). fold (page_nums (flat_map g (zrange 1 (S n)))). rewrite G1. exact Hlen.
Qed.

(* the first page is the only one flagged first, the last the only one flagged last *)
Corollary build_pages_first_last f b st r :
  steps_from 1 r ->
  let ps := build_pages f b st (1%Z :: r) in
  forall i p, nth_error ps i = Some p -> pc_first p = Nat.eqb i 0 /\ pc_last p = Nat.eqb (S i) (length ps).
Proof.
  intro Hs. cbv zeta. destruct (build_pages_numbering f b st r Hs) as (n & Hn & Hl & Hf). intros i p Hi.
  assert (Hnum : pc_num p = (1 + Z.of_nat i)%Z).
  { assert (E : nth_error (page_nums (build_pages f b st (1%Z :: r))) i = Some (pc_num p))
      by (unfold page_nums; rewrite nth_error_map, Hi; reflexivity).
    rewrite Hn in E. destruct (zrange_nth _ _ _ _ E) as [X _]. exact X. }
  rewrite Forall_forall in Hf. destruct (Hf p (nth_error_In _ _ Hi)) as (_ & H1 & H2).
  rewrite H1, H2, Hnum, Hl. split.
  - destruct i; [reflexivity|]. apply Z.eqb_neq. lia.
  - destruct (Nat.eqb (S i) (S n)) eqn:E; [apply Nat.eqb_eq in E; apply Z.eqb_eq; lia|apply Nat.eqb_neq in E; apply Z.eqb_neq; lia].
Qed.

(* ---- the same for the pages of a whole section ---- *)
Theorem paginate_numbering s pattrs rem cw pages :
  paginate s pattrs rem cw = Ok pages -> f_rows (s_frame s) <> [] ->
  exists n, page_nums pages = zrange 1 (S n) /\ length pages = S n /\ Forall (flags_ok (Z.of_nat (S n))) pages /\
            (forall i p, nth_error pages i = Some p -> pc_first p = Nat.eqb i 0 /\ pc_last p = Nat.eqb (S i) (length pages)).
Proof.
  unfold paginate. intros H Hne. inv_bind H. inv_ok H.
  assert (Hx : x <> []).
  { intro X. subst x. destruct (choose_strategy (s_body s)); apply row_metadata_length in E; cbn in E;
      destruct (f_rows (s_frame s)); congruence || discriminate. }
  destruct x as [|m ms]; [congruence|].
  set (pg := assign_pages _ _ _ (m :: ms)).
  pose proof (assign_first (p_nrow (s_page s)) (additional_rows s)
                (match choose_strategy (s_body s) with SDefault => false | SPageBy => b_new_page (s_body s) | SSubline => true end) m ms) as Hf.
  pose proof (assign_steps (p_nrow (s_page s)) (additional_rows s)
                (match choose_strategy (s_body s) with SDefault => false | SPageBy => b_new_page (s_body s) | SSubline => true end) (m :: ms)) as Hs.
  fold pg in Hf, Hs. destruct pg as [|p0 r] eqn:Epg; [cbn in Hf; discriminate|]. cbn in Hf. subst p0.
  cbn [steps_from] in Hs. destruct Hs as [_ Hs].
  destruct (build_pages_numbering (s_frame s) (s_body s) (choose_strategy (s_body s)) r Hs) as (n & H1 & H2 & H3).
  exists n. repeat split; try assumption.
  - apply (build_pages_first_last (s_frame s) (s_body s) (choose_strategy (s_body s)) r Hs i p H).
  - apply (build_pages_first_last (s_frame s) (s_body s) (choose_strategy (s_body s)) r Hs i p H).
Qed.

(* ---- C02 capstone: on every page of a section the body is its row slice, interleaved with headings ---- *)
Definition bounds_ok (n : nat) (bounds : list (nat * list (str * val))) : Prop :=
  increasing (0 :: map fst bounds) /\ Forall (fun b => fst b <= n) bounds.

Lemma increasing_cons0 l : Forall (fun x => 1 <= x) l -> increasing l -> increasing (0 :: l).
Proof.
  destruct l as [|a l]; intros H1 H2; [exact I|]. cbn [increasing]. inversion H1; subst. split; [lia|exact H2].
Qed.

Lemma boundaries_ok f keys start len : bounds_ok len (boundaries f keys start len).
Proof.
  unfold bounds_ok. destruct (boundaries_inside f keys start len) as [H|H].
  - split.
    + apply increasing_cons0; [|apply boundaries_increasing].
      apply Forall_map. eapply Forall_impl; [|exact H]. intros b Hb. cbn in Hb. lia.
    + eapply Forall_impl; [|exact H]. intros b Hb. cbn in Hb. lia.
  - rewrite H. split; [exact I|constructor].
Qed.

Lemma build_pages_bounds f b st pages :
  Forall (fun p => bounds_ok (pc_len p) (pc_bounds p)) (build_pages f b st pages).
Proof.
  unfold build_pages. generalize (Z.of_nat (length (unique_sorted pages))) as total. intro total.
  induction (unique_sorted pages) as [|p u IH]; [constructor|].
  cbn [flat_map]. apply Forall_app. split; [|exact IH].
  destruct (range_of p pages 0 None) as [[lo hi]|]; [|constructor].
  constructor; [|constructor]. cbn [pc_len pc_bounds].
  destruct st; try (split; [exact I|constructor]).
  all: destruct (match b_page_by b with Some k => k | None => [] end); [split; [exact I|constructor]|apply boundaries_ok].
Qed.

Lemma set_slice_starts_bounds pages c :
  Forall (fun p => bounds_ok (pc_len p) (pc_bounds p)) pages ->
  Forall (fun p => bounds_ok (pc_len p) (pc_bounds p)) (set_slice_starts pages c).
Proof.
  intro H. revert c; induction H as [|p pages Hp _ IH]; intro c; [constructor|].
  cbn [set_slice_starts]. constructor; [exact Hp|apply IH].
Qed.

Lemma set_slice_starts_fit pages c total :
  c + sum_lens pages <= total ->
  Forall (fun p => pc_slice_start p + pc_len p <= total) (set_slice_starts pages c).
Proof.
  revert c; induction pages as [|p pages IH]; intros c H; [constructor|].
  cbn [set_slice_starts sum_lens fold_right] in *. fold (sum_lens pages) in H.
  constructor; [cbn; lia|apply IH; lia].
Qed.

Lemma page_rows_length rows p : pc_slice_start p + pc_len p <= length rows -> length (page_rows rows p) = pc_len p.
Proof. intro H. unfold page_rows. rewrite firstn_length, skipn_length. lia. Qed.

(* the body part of a rendered page *)
Lemma render_page_body ctx s pf cw rows pattrs p its :
  render_page ctx s pf cw rows pattrs p = Ok its ->
  exists pre bodyi post, its = pre ++ bodyi ++ post /\
    (if nonempty (pc_bounds p) && spanning_enabled (s_body s)
     then render_segments ctx s (pb_attrs (process_page s pattrs p (length (f_cols pf)))) cw (page_rows rows p) (pc_bounds p) 0
                          (match pc_pbinfo p with Some gv => gv | None => [] end)
     else table_encode ctx (pb_attrs (process_page s pattrs p (length (f_cols pf)))) cw (page_rows rows p) 0) = Ok bodyi.
Proof.
  unfold render_page. intro H. do 7 inv_bind H. inv_ok H.
  match goal with
  | |- exists pre bodyi post, ?a ++ ?b ++ ?c ++ ?d ++ ?e ++ ?f ++ ?g ++ ?h ++ ?i = _ /\ _ =>
    exists (a ++ b ++ c ++ d ++ e ++ f), g, (h ++ i)
  end.
  split; [rewrite <- !app_assoc; reflexivity|exact E3].
Qed.

Theorem page_body_is_its_rows ctx s pf cw rows pattrs p its :
  render_page ctx s pf cw rows pattrs p = Ok its ->
  bounds_ok (length (page_rows rows p)) (pc_bounds p) ->
  exists pre bodyi post data heads,
    its = pre ++ bodyi ++ post /\ Shuffle data heads bodyi /\
    table_encode ctx (pb_attrs (process_page s pattrs p (length (f_cols pf)))) cw (page_rows rows p) 0 = Ok data.
Proof.
  intros H [Hi Hf]. destruct (render_page_body _ _ _ _ _ _ _ _ H) as (pre & bodyi & post & Hits & Hb).
  destruct (nonempty (pc_bounds p) && spanning_enabled (s_body s)).
  - destruct (render_segments_rows _ _ _ _ _ _ _ _ _ (Nat.le_0_l _) Hi Hf Hb) as (data & heads & Hd & Hs).
    exists pre, bodyi, post, data, heads. cbn [skipn] in Hd. repeat split; assumption.
  - exists pre, bodyi, post, bodyi, []. repeat split; [exact Hits|apply shuffle_left|exact Hb].
Qed.

(* every page of a section (no group_by) satisfies the hypothesis: its boundaries lie inside its own slice *)
Theorem section_pages_bounds s pf pattrs cw pages rows :
  section_pages s = Ok (pf, pattrs, cw, pages, rows) -> no_group_by (s_body s) ->
  Forall (fun p => bounds_ok (length (page_rows rows p)) (pc_bounds p)) pages.
Proof.
  intros H Hg. destruct (section_rows_partition _ _ _ _ _ _ H Hg) as (Hr & Hlen & _).
  unfold section_pages, no_group_by in *.
  pose proof (prepare_rows (s_frame s) (s_body s)) as Hp.
  destruct (prepare (s_frame s) (s_body s)) as [[pf0 pattrs0] rem] eqn:Ep. cbn [fst] in Hp.
  do 2 inv_bind H. unfold post_process in E0.
  destruct (b_group_by (s_body s)) as [[|k ks]|]; try contradiction; inv_ok E0; inv_ok H.
  all: pose proof (paginate_lens _ _ _ _ _ E) as Hl.
  all: assert (Hb : Forall (fun p => bounds_ok (pc_len p) (pc_bounds p)) (match x with [] => [synthetic_page] | _ => x end))
    by (destruct x as [|p0 ps]; [constructor; [split; [exact I|constructor]|constructor]|
        unfold paginate in E; inv_bind E; inv_ok E; apply build_pages_bounds]).
  all: assert (Hfit : Forall (fun p => pc_slice_start p + pc_len p <= length (f_rows pf))
                             (set_slice_starts (match x with [] => [synthetic_page] | _ => x end) 0))
    by (apply set_slice_starts_fit; destruct x as [|p0 ps]; [cbn; lia|rewrite Hl, Hp; cbn; lia]).
  all: pose proof (set_slice_starts_bounds _ 0 Hb) as Hb2.
  all: rewrite Forall_forall in *; intros p Hin; rewrite page_rows_length by (apply Hfit; exact Hin); apply Hb2; exact Hin.
Qed.
