(* Property predicates, evaluated on what a reader sees (pdoc) for a given document state. *)
From Coq Require Import Ascii String.
From Coq Require Import List NArith ZArith QArith Qabs Bool Arith.
From V Require Import Str Num Tok Tables Items Read Decode WellFormed Doc Broadcast TextConv Encode
     Paginate GroupBy Pipeline Figure Document.
Import ListNotations.
Local Open Scope string_scope.
Local Open Scope list_scope.

(* ---- shared: pagination facts of a single section as the model derives them from the document ---- *)
Record secinfo := {
  si_sec : secdoc; si_pf : frame; si_pattrs : attrs; si_removed : list nat; si_cw : list Q;
  si_metas : list rowmeta; si_avail : Z; si_new_page : bool
}.

Definition section_info (s : secdoc) : res secinfo :=
  let '(pf, pattrs, rem) := prepare (s_frame s) (s_body s) in
  let W := p_col_width (s_page s) in
  let cw := match a_crw pattrs with
            | Some ((_ :: _) as l) => col_widths l W
            | _ => col_widths (repeat (1 # 1) (length (f_cols pf))) W
            end in
  let b := s_body s in
  let st := choose_strategy b in
  do ms <- match st with
           | SDefault => row_metadata (s_widths s) (a_font pattrs) (a_size pattrs) (s_frame s) rem cw None None
           | SPageBy => row_metadata (s_widths s) (a_font pattrs) (a_size pattrs) (s_frame s) rem cw (b_page_by b) None
           | SSubline => row_metadata (s_widths s) (a_font pattrs) (a_size pattrs) (s_frame s) rem cw (b_page_by b) (b_subline_by b)
           end;
  Ok {| si_sec := s; si_pf := pf; si_pattrs := pattrs; si_removed := rem; si_cw := cw; si_metas := ms;
        si_avail := Z.max 1 (p_nrow (s_page s) - additional_rows s);
        si_new_page := match st with SDefault => false | SPageBy => b_new_page b | SSubline => true end |}.

(* data-row tags per page of the observed document *)
Definition observed_pages (pd : pdoc) : list (list item) := pages_of (pd_items pd).
Definition page_tags (pd : pdoc) : list (list nat) := map (fun p => map fst (data_rows p)) (observed_pages pd).

Fixpoint number_pages (pages : list (list nat)) (k : Z) : list Z :=
  match pages with
  | [] => []
  | p :: r => map (fun _ => k) p ++ number_pages r (k + 1)%Z
  end.

Definition nat_list_eqb := list_eqb Nat.eqb.

(* ---- C04 ---- *)
(* clause ids: 1 rows not the original order exactly once; 2 empty page; 3 break rule; 4 model error *)
Definition check_c04 (d : doc) (pd : pdoc) : nat * list Z :=
  match d_content d with
  | CSingle f b =>
    let s := single_secdoc d f b in
    let tags := page_tags pd in
    let n := length (f_rows f) in
    let pages := number_pages tags 1 in
    if negb (nat_list_eqb (concat tags) (seq 0 n)) then (1%nat, pages)
    else if Nat.ltb 0 n && any_b (fun p => match p with [] => true | _ => false end) tags then (2%nat, pages)
    else match section_info s with
         | Err _ => (4%nat, pages)
         | Ok si => if check_assign (si_avail si) (si_new_page si) (si_metas si) pages then (0%nat, pages) else (3%nat, pages)
         end
  | _ => (0%nat, [])
  end.

Definition model_pages_c04 (d : doc) : option (list Z) :=
  match d_content d with
  | CSingle f b =>
    match section_info (single_secdoc d f b) with
    | Ok si => Some (assign_loop (si_avail si) (si_new_page si) (si_metas si) true 1 0)
    | Err _ => None
    end
  | _ => None
  end.

(* ---- C02 ---- *)
Definition kept_display (f : frame) (b : body) : list (list str) :=
  let rem := removed_indices f b in
  map (fun row => map display (drop_idx rem row)) (f_rows f).

Definition sections_of (d : doc) : list (frame * body) :=
  match d_content d with
  | CSingle f b => [(f, b)]
  | CMulti l => l
  | CFigure _ => []
  end.

Definition all_data_rows (pd : pdoc) : list (nat * row) := flat_map data_rows (observed_pages pd).

Definition str_list_eqb := list_eqb str_eqb.

(* clause ids: 1 tags are not each section's 0..n-1 in order; 2 some cell text differs; 0 ok *)
Definition check_c02 (d : doc) (pd : pdoc) : nat :=
  let secs := sections_of d in
  let obs := all_data_rows pd in
  let want_tags := flat_map (fun fb => seq 0 (length (f_rows (fst fb)))) secs in
  let want_text := flat_map (fun fb => kept_display (fst fb) (snd fb)) secs in
  if negb (nat_list_eqb (map fst obs) want_tags) then 1
  else if negb (list_eqb str_list_eqb (map (fun tr => map cell_text (rw_cells (snd tr))) obs) want_text) then 2
  else 0.

(* ---- C13 ---- *)
(* independent statement of "equal hierarchical keys are contiguous": tuple keys, null a value of its own *)
Definition key_tuple (cols : list str) (lvl : list str) (row : list val) : list val :=
  map (fun k => col_val cols row k) lvl.
Definition tuple_eqb := list_eqb val_eqb.

Definition spec_contiguous (cols : list str) (rows : list (list val)) (keys : list str) : bool :=
  all_b (fun lvl => contiguous tuple_eqb (map (key_tuple cols lvl) rows)) (prefixes keys []).

(* expected text of group column k (level prefix lvl) of row cur, given the previous row (None: first on page) *)
Definition expected_group_cell (cols : list str) (lvl : list str) (k : str)
           (prev : option (list val)) (cur : list val) : str :=
  match prev with
  | None => display (col_val cols cur k)
  | Some p => if tuple_eqb (key_tuple cols lvl p) (key_tuple cols lvl cur) then [] else display (col_val cols cur k)
  end.

(* expected texts of one displayed row *)
Definition expected_row (pcols : list str) (keys : list str) (prev : option (list val)) (cur : list val)
  : list str :=
  map (fun c =>
         match first_some (fun lvl => match last_opt lvl with
                                      | Some k => if str_eqb k c then Some lvl else None
                                      | None => None end) (prefixes keys []) with
         | Some lvl => expected_group_cell pcols lvl c prev cur
         | None => display (col_val pcols cur c)
         end) pcols.

(* walk the observed pages; rows: processed frame rows *)
Fixpoint c13_page (pcols keys : list str) (rows : list (list val)) (obs : list (nat * row)) (first : bool)
  : bool :=
  match obs with
  | [] => true
  | (t, r) :: rest =>
    let cur := nth t rows [] in
    let prev := if first then None else match t with O => None | S t' => Some (nth t' rows []) end in
    str_list_eqb (map cell_text (rw_cells r)) (expected_row pcols keys prev cur)
    && c13_page pcols keys rows rest false
  end.

(* clause ids: 1 tags; 2 a cell differs from the blank-iff-repeat rule; 4 accepted although keys are not contiguous *)
Definition check_c13 (d : doc) (pd : pdoc) : nat :=
  match d_content d with
  | CSingle f b =>
    let '(pf, _, _) := prepare f b in
    let keys := opt_list (b_group_by b) in
    let tags := page_tags pd in
    if negb (nat_list_eqb (concat tags) (seq 0 (length (f_rows f)))) then 1
    else if negb (spec_contiguous (f_cols pf) (f_rows pf) keys) then 4
    else if all_b (fun p => c13_page (f_cols pf) keys (f_rows pf) (data_rows p) true) (observed_pages pd)
         then 0 else 2
  | _ => 0
  end.

Definition c13_should_refuse (d : doc) : bool :=
  match d_content d with
  | CSingle f b =>
    let '(pf, _, _) := prepare f b in
    match b_group_by b, f_rows pf with
    | Some ((_ :: _) as keys), _ :: _ => negb (spec_contiguous (f_cols pf) (f_rows pf) keys)
    | _, _ => false
    end
  | _ => false
  end.

(* ---- C10 ---- *)
Definition item_texts (i : item) : list str :=
  match i with
  | IRow r => map cell_text (rw_cells r)
  | IPara _ rs => map run_text rs
  | _ => []
  end.
Definition all_texts (pd : pdoc) : list str :=
  flat_map item_texts (pd_items pd ++ concat (pd_header pd) ++ concat (pd_footer pd)).

Fixpoint first_missing (expected : list str) (have : list str) (i : nat) : option nat :=
  match expected with
  | [] => None
  | e :: r => if mem_str e have then first_missing r have (S i) else Some i
  end.

(* ---- C11 ---- *)
From V Require Import TextSpec.

Definition item_bodies (i : item) : list (list tok) :=
  match i with
  | IRow r => map (fun c => rn_body (ce_run c)) (rw_cells r)
  | IPara _ rs => map rn_body rs
  | _ => []
  end.
Definition all_bodies (pd : pdoc) : list (list tok) :=
  flat_map item_bodies (pd_items pd ++ concat (pd_header pd) ++ concat (pd_footer pd)).

Fixpoint ev_prefix (p es : list ev) : option (list ev) :=
  match p, es with
  | [], _ => Some es
  | x :: p', y :: es' => if ev_eqb x y then ev_prefix p' es' else None
  | _ :: _, [] => None
  end.

(* 0: as the property states; 7: only with the documented deviations; 2: differs; 1: run not found *)
Definition probe_class (bodies : list (list ev)) (tag text : str) (conv : bool) : nat :=
  match first_some (fun es => ev_prefix (map EChar tag) es) bodies with
  | None => 1
  | Some rest =>
    if conv then
      if ev_list_eqb rest (spec_events true text) then 0
      else if ev_list_eqb rest (spec_events false text) then 7 else 2
    else if ev_list_eqb rest (map EChar text) then 0 else 2
  end.

(* ---- C12 ---- *)
Definition bord_color (o : option bord) : list (option Z) :=
  match o with Some b => [bd_cf b] | None => [] end.
Definition run_colors (r : run) : list (option Z) := [rn_cf r; rn_cb r].
Definition item_colors (i : item) : list (option Z) :=
  match i with
  | IRow r => flat_map (fun c => bord_color (ce_bl c) ++ bord_color (ce_bt c) ++ bord_color (ce_br c)
                                 ++ bord_color (ce_bb c) ++ run_colors (ce_run c)) (rw_cells r)
  | IPara _ rs => flat_map run_colors rs
  | _ => []
  end.
Definition item_fonts (i : item) : list Z :=
  match i with
  | IRow r => map (fun c => rn_f (ce_run c)) (rw_cells r)
  | IPara _ rs => map rn_f rs
  | _ => []
  end.

Definition master_rgb (m : Z) : option (Z * Z * Z) :=
  option_map (fun e => snd (snd e)) (find (fun e => Z.eqb (fst (snd e)) m) color_table).

Definition rgb_eqb (a b : Z * Z * Z) : bool :=
  let '(r1, g1, b1) := a in let '(r2, g2, b2) := b in Z.eqb r1 r2 && Z.eqb g1 g2 && Z.eqb b1 b2.

(* one use: observed index k (in the document's own table) vs requested colour m (master index; 0 = default) *)
Definition color_use_ok (table : option (list (Z * Z * Z))) (k m : option Z) : bool :=
  match k, m with
  | None, None => true
  | Some k', Some m' =>
    if Z.eqb m' 0 then Z.eqb k' 0
    else match table, master_rgb m' with
         | Some l, Some want =>
           (0 <? k')%Z && match nth_error l (Z.to_nat (k' - 1)) with Some have => rgb_eqb have want | None => false end
         | _, _ => false
         end
  | _, _ => false
  end.

Fixpoint all2 {A B} (f : A -> B -> bool) (a : list A) (b : list B) : bool :=
  match a, b with
  | [], [] => true
  | x :: a', y :: b' => f x y && all2 f a' b'
  | _, _ => false
  end.

Definition font_entry_ok (fonts : list (Z * list tok)) (f : Z) : bool :=
  match find (fun e => Z.eqb (fst e) f) fonts, find (fun e => Z.eqb (fst e) (f + 1)) font_number_to_name with
  | Some (_, toks), Some (_, name) =>
    existsb (fun t => match t with TText s => str_eqb s (name ++ [59%N]) | _ => false end) toks
  | _, _ => false
  end.

Definition all_items_pd (pd : pdoc) : list item := concat (pd_header pd) ++ concat (pd_footer pd) ++ pd_items pd.

(* the model's items under NO colour context carry the master index of the requested colour *)
Definition requested_items (d : doc) : res (list item) :=
  do pages <- document_pages None d;
  do h <- match text_shown (d_page_header d) with
          | Some t => encode_text_line None (tc_attrs t) (opt_list (tc_text t)) | None => Ok [] end;
  do f <- match text_shown (d_page_footer d) with
          | Some t => encode_text_line None (tc_attrs t) (opt_list (tc_text t)) | None => Ok [] end;
  Ok (h ++ f ++ concat pages).

(* clause ids: 1 structure differs from the model's; 2 a colour index does not resolve to the requested
   colour; 3 a font reference has no matching font-table entry; 4 model error *)
Definition check_c12 (d : doc) (pd : pdoc) : nat :=
  match requested_items d with
  | Err _ => 4
  | Ok want =>
    let have := all_items_pd pd in
    let hc := flat_map item_colors have in
    let wc := flat_map item_colors want in
    if negb (Nat.eqb (length hc) (length wc)) then 1
    else if negb (all2 (color_use_ok (pd_colors pd)) hc wc) then 2
    else if negb (all_b (font_entry_ok (pd_fonts pd)) (flat_map item_fonts have)) then 3
    else if negb (list_eqb Z.eqb (flat_map item_fonts have) (flat_map item_fonts want)) then 3
    else 0
  end.

Local Open Scope nat_scope.

(* ---- roles of observed items (sentinel conventions; never the pagination or border logic) ---- *)
Inductive role := RBreak | RTitle | RSubline | RSubHeading | RHeader | RHeading | RData (i : nat)
                | RFootRow | RFootPara | RSrcRow | RSrcPara | RPict | RPage | RUnknown.

Definition first_char (s : str) : option N := match s with c :: _ => Some c | [] => None end.

Definition is_subheading_pf (pf : list tok) : bool :=
  tok_list_eqb pf [ctrl "hyphpar"; ctrlz "fi" 0; ctrlz "li" 0; ctrlz "ri" 0; ctrl "ql"].

Definition classify (colnames : list str) (i : item) : role :=
  match i with
  | IBreak _ => RBreak
  | IPage => RPage
  | IPict _ => RPict
  | IPara pf rs =>
    match rs with
    | r :: _ =>
      match first_char (run_text r) with
      | Some 84%N => RTitle
      | Some 83%N => RSubline
      | Some 70%N => RFootPara
      | Some 82%N => RSrcPara
      | Some 64%N => if is_subheading_pf pf then RSubHeading else RUnknown
      | _ => if is_subheading_pf pf then RSubHeading else RUnknown
      end
    | [] => RUnknown
    end
  | IRow r =>
    match row_tag r with
    | Some t => RData t
    | None =>
      match rw_cells r with
      | [c] =>
        match first_char (cell_text c) with
        | Some 70%N => RFootRow
        | Some 82%N => RSrcRow
        | Some 72%N => RHeader
        | _ => if mem_str (cell_text c) colnames then RHeader else RHeading
        end
      | cs =>
        if all_b (fun c => match first_char (cell_text c) with Some 72%N => true | _ => mem_str (cell_text c) colnames end) cs
        then RHeader else RUnknown
      end
    end
  end.

Definition role_rank (r : role) : nat :=
  match r with
  | RBreak => 0 | RTitle => 1 | RSubline => 2 | RSubHeading => 3 | RHeader => 4
  | RHeading => 5 | RData _ => 5 | RFootRow => 6 | RFootPara => 6 | RSrcRow => 7 | RSrcPara => 7
  | RPict => 5 | RPage => 8 | RUnknown => 9
  end.

Fixpoint nondecreasing (l : list nat) : bool :=
  match l with
  | a :: ((b :: _) as r) => Nat.leb a b && nondecreasing r
  | _ => true
  end.

Definition count_role (p : role -> bool) (rs : list role) : nat := length (filter p rs).
Definition is_title r := match r with RTitle => true | _ => false end.
Definition is_subline r := match r with RSubline => true | _ => false end.
Definition is_foot r := match r with RFootRow | RFootPara => true | _ => false end.
Definition is_src r := match r with RSrcRow | RSrcPara => true | _ => false end.
Definition is_header r := match r with RHeader => true | _ => false end.
Definition is_unknown r := match r with RUnknown => true | _ => false end.

Definition placement (loc : str) (first last : bool) : bool :=
  str_eqb loc (s2l "all") || (str_eqb loc (s2l "first") && first) || (str_eqb loc (s2l "last") && last).

Definition want_count (present shown : bool) : nat := if present && shown then 1 else 0.

Definition n_header_rows (d : doc) (b : body) : nat :=
  length (filter (fun o => match o with
                           | Some h => match h_text h with Some _ => true | None => b_as_colheader b end
                           | None => false end)
                 (flat_headers (d_headers d))).

Definition expected_geom (pg : page) : geom := geom_of pg.

(* ---- C06 ---- *)
(* clause ids: 1 order; 2 title/subline placement; 3 footnote placement; 4 source placement; 5 column
   headers; 6 geometry after a page break; 7 \header / \footer destinations; 8 document-start geometry;
   9 unclassifiable item *)
Fixpoint c06_pages (d : doc) (colnames : list str) (nhdr : nat) (pbh : bool) (pages : list (list item))
         (idx total : nat) : nat :=
  match pages with
  | [] => 0
  | p :: rest =>
    let pg := d_page d in
    let first := Nat.eqb idx 0 in
    let last := Nat.eqb (S idx) total in
    let roles := map (classify colnames) p in
    let has o := match o with Some t => truthy_l (tc_text t) | None => false end in
    let hastt o := match o with Some t => truthy_s (tt_text t) | None => false end in
    let is_fig := match d_content d with CFigure _ => true | _ => false end in
    let geom_ok := match p with
                   | IBreak g :: _ => geom_eqb g (expected_geom pg)
                   | _ => first
                   end in
    if any_b is_unknown roles then 9
    else if negb (nondecreasing (map role_rank roles)) then 1
    else if negb (Nat.eqb (count_role is_title roles) (want_count (has (d_title d)) (placement (p_title pg) first last))) then 2
    else if negb (Nat.eqb (count_role is_subline roles)
                          (want_count (has (d_subline d)) (if is_fig then first else placement (p_title pg) first last))) then 2
    else if negb (Nat.eqb (count_role is_foot roles) (want_count (hastt (d_footnote d)) (placement (p_footnote pg) first last))) then 3
    else if negb (Nat.eqb (count_role is_src roles) (want_count (hastt (d_source d)) (placement (p_source pg) first last))) then 4
    else if negb is_fig && negb (Nat.eqb (count_role is_header roles) (if first || pbh then nhdr else 0)) then 5
    else if negb geom_ok then 6
    else c06_pages d colnames nhdr pbh rest (S idx) total
  end.

Definition check_c06 (d : doc) (pd : pdoc) : nat :=
  let pg := d_page d in
  let shown o := match text_shown o with Some _ => 1 | None => 0 end in
  if negb (Nat.eqb (length (pd_header pd)) (shown (d_page_header d)))
     || negb (Nat.eqb (length (pd_footer pd)) (shown (d_page_footer d))) then 7
  else if negb (geom_eqb (pd_geom pd) (expected_geom pg)) || negb (Bool.eqb (pd_landscape pd) (p_landscape pg)) then 8
  else
    match d_content d with
    | CSingle f b =>
      let pages := observed_pages pd in
      c06_pages d (f_cols f) (n_header_rows d b) (b_pageby_header b) pages 0 (length pages)
    | CFigure _ =>
      let pages := observed_pages pd in
      c06_pages d [] 0 false pages 0 (length pages)
    | CMulti _ => 0
    end.

(* ---- C08 ---- *)
Definition row_xs (r : row) : list Z := map ce_x (rw_cells r).
Definition last_x (r : row) : option Z := last_opt (row_xs r).

(* exact boundaries 1440 * W * S_i / T of the displayed columns *)
Definition exact_bounds (rel : list Q) (W : Q) : list Q :=
  map (fun c => c * (1440 # 1))%Q (col_widths rel W).

Definition within_half (x : Z) (q : Q) : bool :=
  Qle_bool (Qabs ((x # 1) - q)) (1 # 2).

Definition displayed_rel (f : frame) (b : body) : list Q :=
  let '(pf, pattrs, _) := prepare f b in
  match a_crw pattrs with
  | Some ((_ :: _) as l) => l
  | _ => repeat (1 # 1)%Q (length (f_cols pf))
  end.

(* clause ids: 1 some row does not end at twip(col_width); 2 a data-row boundary is more than half a twip
   from its proportional position (so widths are off by more than one twip); 3 an inherited header row
   is not aligned cell by cell with the data rows of its section; 4 boundaries not increasing *)
Definition check_c08 (d : doc) (pd : pdoc) (inherited : list bool) : nat :=
  let W := p_col_width (d_page d) in
  let rows := rows_of (pd_items pd) in
  if negb (all_b (fun r => match last_x r with Some x => Z.eqb x (twip W) | None => false end) rows) then 1
  else if negb (all_b (fun r => let xs := row_xs r in
                                all2 Z.ltb (removelast xs) (tl xs) && match xs with x :: _ => (0 <? x)%Z | [] => false end) rows)
       then 4
  else
    match d_content d with
    | CSingle f b =>
      let bounds := exact_bounds (displayed_rel f b) W in
      let drows := map snd (all_data_rows pd) in
      if negb (all_b (fun r => all2 within_half (row_xs r) bounds) drows) then 2
      else
        (* header rows in order of appearance on the first page; inherited flags per flat header *)
        let hdr_rows := filter (fun r => match classify (f_cols f) (IRow r) with RHeader => true | _ => false end)
                               (rows_of (hd [] (observed_pages pd))) in
        let flags := flat_map (fun ob => match ob with (Some h, fl) =>
                                  match h_text h with Some _ => [fl] | None => if b_as_colheader b then [fl] else [] end
                                | (None, _) => [] end)
                              (combine (flat_headers (d_headers d)) inherited) in
        match drows with
        | [] => 0
        | d0 :: _ =>
          if all2 (fun r fl => negb fl || negb (Nat.eqb (length (rw_cells r)) (length (rw_cells d0)))
                               || list_eqb Z.eqb (row_xs r) (row_xs d0)) hdr_rows (firstn (length hdr_rows) (flags ++ repeat false (length hdr_rows)))
          then 0 else 3
        end
    | _ => 0
    end.

(* ---- C09: the direct binding rule ---- *)
(* the cell the body attributes specify for original position (r, oc), rendered as displayed column j of ncols *)
Definition expected_cell (ctx : option (list str)) (a : attrs) (v : val) (r oc : nat) (is_last : bool) (x : Z)
  : res cell :=
  do t <- mk_tcontent a (display v) r oc;
  do pf <- para_fmt t;
  do rn <- text_run ctx t;
  do bl <- mk_border ctx (a_bl a) (a_bcl a) (a_bw a) r oc;
  do bt <- mk_border ctx (a_bt a) (a_bct a) (a_bw a) r oc;
  do bb <- mk_border ctx (a_bb a) (a_bcb a) (a_bw a) r oc;
  do br <- (if is_last then do b <- mk_border ctx (a_br a) (a_bcr a) (a_bw a) r oc; Ok (Some b) else Ok None);
  do vjn <- getreq (a_cvj a) r oc;
  do vj <- of_opt (code_tokens vert_codes vjn) OtherErr;
  Ok {| ce_bl := Some bl; ce_bt := Some bt; ce_br := br; ce_bb := Some bb; ce_vj := vj; ce_x := x;
        ce_pf := pf; ce_run := rn |}.

Definition kept_indices (f : frame) (b : body) : list nat :=
  let rem := removed_indices f b in
  filter (fun i => negb (existsb (Nat.eqb i) rem)) (seq 0 (length (f_cols f))).

(* compare everything but the top / bottom border when the row is first / last on its page *)
Definition cell_matches (skip_top skip_bottom : bool) (have want : cell) : bool :=
  opt_eqb bord_eqb (ce_bl have) (ce_bl want)
  && (skip_top || opt_eqb bord_eqb (ce_bt have) (ce_bt want))
  && opt_eqb bord_eqb (ce_br have) (ce_br want)
  && (skip_bottom || opt_eqb bord_eqb (ce_bb have) (ce_bb want))
  && tok_list_eqb (ce_vj have) (ce_vj want) && Z.eqb (ce_x have) (ce_x want)
  && tok_list_eqb (ce_pf have) (ce_pf want) && run_eqb (ce_run have) (ce_run want).

Fixpoint c09_cells (ctx : option (list str)) (a : attrs) (row : list val) (r : nat) (kept : list nat)
         (cells : list cell) (ncols : nat) (j : nat) (st sb : bool) : bool :=
  match kept, cells with
  | [], [] => true
  | oc :: kept', c :: cells' =>
    match expected_cell ctx a (nth oc row VNull) r oc (Nat.eqb (S j) ncols) (ce_x c) with
    | Ok want => cell_matches st sb c want && c09_cells ctx a row r kept' cells' ncols (S j) st sb
    | Err _ => false
    end
  | _, _ => false
  end.

Definition c09_row_level (a : attrs) (r first_oc : nat) (rw : row) : bool :=
  match getreq (a_cj a) r first_oc, getreq (a_ch a) r first_oc with
  | Ok jn, Ok h =>
    match code_tokens row_just_codes jn with
    | Some j => tok_list_eqb (rw_just rw) j && Z.eqb (rw_gaph rw) (Z.div (twip h) 2)
    | None => false
    end
  | _, _ => false
  end.

Fixpoint c09_page (ctx : option (list str)) (f : frame) (b : body) (kept : list nat) (obs : list (nat * row))
         (first : bool) : bool :=
  match obs with
  | [] => true
  | (t, rw) :: rest =>
    let last := match rest with [] => true | _ => false end in
    let row := nth t (f_rows f) [] in
    c09_cells ctx (b_attrs b) row t kept (rw_cells rw) (length kept) 0 first last
    && c09_row_level (b_attrs b) t (hd 0 kept) rw
    && c09_page ctx f b kept rest false
  end.

(* clause ids: 1 tags; 2 a data cell does not carry what the attributes specify for its original position *)
Definition check_c09 (d : doc) (pd : pdoc) : nat :=
  match d_content d with
  | CSingle f b =>
    let tags := page_tags pd in
    if negb (nat_list_eqb (concat tags) (seq 0 (length (f_rows f)))) then 1
    else if all_b (fun p => c09_page (Some (collect_colors d)) f b (kept_indices f b) (data_rows p) true)
                  (observed_pages pd)
         then 0 else 2
  | _ => 0
  end.

(* ---- C07 ---- *)
Definition style_tokens (s : str) : option (list tok) := code_tokens border_codes s.

Definition edge_is (side : cell -> option bord) (want : list tok) (r : row) : bool :=
  all_b (fun c => match side c with Some b => tok_list_eqb (bd_style b) want | None => false end) (rw_cells r).

Definition page_rows_obs (p : list item) : list row := rows_of p.

Definition first_data_row (colnames : list str) (p : list item) : option row :=
  first_some (fun i => match i with IRow r => match row_tag r with Some _ => Some r | None => None end | _ => None end) p.

(* rtf_body.border_first for displayed column j, as the property states it (no user border_top override) *)
Definition c07_body_border_first (a : attrs) (j : nat) : option str :=
  match a_bfirst a with
  | Some (row :: _) => match nth_error row j with Some s => Some s | None => nth_error row 0 end
  | _ => None
  end.

(* clause 5: every other data-cell edge carries the user's border style for the cell's original position; the top edge of
   the first and the bottom edge of the last data row of a page are the boundary edges of clauses 1-4 *)
Definition bstyle_is (have : option bord) (want : res bord) : bool :=
  match have, want with
  | Some h, Ok w => tok_list_eqb (bd_style h) (bd_style w)
  | _, _ => false
  end.

Fixpoint c07_cells (ctx : option (list str)) (a : attrs) (r : nat) (kept : list nat) (cells : list cell)
         (ncols j : nat) (st sb : bool) : bool :=
  match kept, cells with
  | [], [] => true
  | oc :: kept', c :: cells' =>
    bstyle_is (ce_bl c) (mk_border ctx (a_bl a) (a_bcl a) (a_bw a) r oc)
    && (st || bstyle_is (ce_bt c) (mk_border ctx (a_bt a) (a_bct a) (a_bw a) r oc))
    && (negb (Nat.eqb (S j) ncols) || bstyle_is (ce_br c) (mk_border ctx (a_br a) (a_bcr a) (a_bw a) r oc))
    && (sb || bstyle_is (ce_bb c) (mk_border ctx (a_bb a) (a_bcb a) (a_bw a) r oc))
    && c07_cells ctx a r kept' cells' ncols (S j) st sb
  | _, _ => false
  end.

Fixpoint c07_page (ctx : option (list str)) (a : attrs) (kept : list nat) (obs : list (nat * row)) (first : bool) : bool :=
  match obs with
  | [] => true
  | (t, rw) :: rest =>
    let last := match rest with [] => true | _ => false end in
    c07_cells ctx a t kept (rw_cells rw) (length kept) 0 first last && c07_page ctx a kept rest false
  end.

(* clause ids: 1 top edge of the document's first table row; 2 bottom edge of its last table row;
   3 bottom edge of the last table row before a page break; 4 top edge of the first data row of a page;
   5 an interior data-cell edge *)
Definition check_c07 (d : doc) (pd : pdoc) : nat :=
  match d_content d with
  | CSingle f b =>
    let pg := d_page d in
    let pages := observed_pages pd in
    let all_rows := rows_of (pd_items pd) in
    let bf_page := match p_border_first pg with Some s => s | None => [] end in
    let bl_page := match p_border_last pg with Some s => s | None => [] end in
    let bl_body := match a_blast (b_attrs b) with Some ((s :: _) :: _) => s | _ => [] end in
    let first_row_is_heading :=
        match all_rows with
        | r :: _ => match classify (f_cols f) (IRow r) with RHeading => true | _ => false end
        | [] => true end in
    let c1 := match all_rows, style_tokens bf_page with
              | r :: _, Some st => nonempty bf_page && negb first_row_is_heading && negb (edge_is ce_bt st r)
              | _, _ => false end in
    let c2 := match last_opt all_rows, style_tokens bl_page with
              | Some r, Some st => nonempty bl_page && negb (edge_is ce_bb st r)
              | _, _ => false end in
    let c3 := match style_tokens bl_body with
              | Some st =>
                nonempty bl_body
                && any_b (fun p => match last_opt (rows_of p) with
                                   | Some r => negb (edge_is ce_bb st r)
                                   | None => false end) (removelast pages)
              | None => false end in
    let has_hdr_row := Nat.ltb 0 (n_header_rows d b) in
    let c4 := any_b (fun ip =>
                let '(idx, p) := ip in
                match first_data_row (f_cols f) p with
                | None => false
                | Some r =>
                  let on_first := Nat.eqb idx 0 in
                  if on_first && negb has_hdr_row then
                    match style_tokens bf_page with
                    | Some st => nonempty bf_page && negb (edge_is ce_bt st r)
                    | None => false end
                  else
                    (* body.border_first, column by column *)
                    negb (all_b (fun jc =>
                            let '(j, c) := jc in
                            match c07_body_border_first (b_attrs b) j with
                            | Some s => match style_tokens s, ce_bt c with
                                        | Some st, Some bd => tok_list_eqb (bd_style bd) st
                                        | _, _ => false end
                            | None => true
                            end) (combine (seq 0 (length (rw_cells r))) (rw_cells r)))
                end) (combine (seq 0 (length pages)) pages) in
    let c5 := negb (all_b (fun p => c07_page (Some (collect_colors d)) (b_attrs b) (kept_indices f b) (data_rows p) true)
                          pages) in
    if c1 then 1 else if c2 then 2 else if c3 then 3 else if c4 then 4 else if c5 then 5 else 0
  | _ => 0
  end.

(* ---- C05 ---- *)
Inductive hitem := HHead (text : str) | HRow (t : nat) | HOther.

Definition heading_items (colnames : list str) (p : list item) : list hitem :=
  flat_map (fun i => match classify colnames i with
                     | RHeading => match i with
                                   | IRow r => match rw_cells r with [c] => [HHead (cell_text c)] | _ => [HOther] end
                                   | _ => [HOther] end
                     | RData t => [HRow t]
                     | RBreak | RTitle | RSubline | RSubHeading | RHeader => []
                     | _ => [HOther]
                     end) p.

(* level of a heading text: the first page_by column that holds this value somewhere *)
Definition level_of (f : frame) (keys : list str) (text : str) : option nat :=
  first_some (fun lk => let '(l, k) := lk in
                        if any_b (fun row => str_eqb (py_str (col_val (f_cols f) row k)) text) (f_rows f)
                        then Some l else None)
             (combine (seq 0 (length keys)) keys).

(* walk one page: cur = current heading text per level (None = none seen yet on this page) *)
Fixpoint c05_walk (f : frame) (keys : list str) (its : list hitem) (cur : list (option str))
         (last_level : option nat) : nat :=
  match its with
  | [] => match last_level with Some _ => 3 | None => 0 end      (* a heading stranded at the end of the page *)
  | HOther :: r => match last_level with Some _ => 3 | None => c05_walk f keys r cur None end
  | HHead text :: r =>
    if str_eqb text divider then 4
    else match level_of f keys text with
         | None => 5
         | Some l =>
           (* a heading of level l opens a new hierarchical group: inner headings must follow it again *)
           let cur' := map (fun ic => let '(i, c) := ic in
                                      if Nat.eqb i l then Some text else if Nat.ltb l i then None else c)
                           (combine (seq 0 (length cur)) cur) in
           match last_level with
           | Some l0 => if Nat.ltb l0 l then c05_walk f keys r cur' (Some l) else 2
           | None => c05_walk f keys r cur' (Some l)
           end
         end
  | HRow t :: r =>
    let row := nth t (f_rows f) [] in
    let ok := all2 (fun k c =>
                      let v := col_val (f_cols f) row k in
                      match v with
                      | VNull => true
                      | _ => if str_eqb (py_str v) divider then true
                             else match c with Some text => str_eqb text (py_str v) | None => false end
                      end) keys cur in
    if ok then c05_walk f keys r cur None else 1
  end.

Definition subline_expected (f : frame) (keys : list str) (t : nat) : str :=
  subline_text (group_values (f_cols f) keys (nth t (f_rows f) [])).

(* clause ids: 1 a data row is not under its own heading; 2 headings not outer-before-inner; 3 a heading
   is not directly followed by a heading or a data row; 4 a divider value produced a heading; 5 unknown
   heading text; 6 subline heading missing / wrong / duplicated; 7 tags; 8 a divider row was pushed to the next page although it fits *)
(* clause 8, "divider values never cost a data row": a page closes before a row all of whose grouping values are the divider,
   without a grouping rule forcing it, although the row's own lines would still fit (the lines already on the page counted as
   the row metadata counts them) *)
Definition all_divider_row (f : frame) (keys : list str) (t : nat) : bool :=
  nonempty keys
  && all_b (fun k => str_eqb (py_str (col_val (f_cols f) (nth t (f_rows f) []) k)) divider) keys.

Fixpoint c05_divider_cost (avail : Z) (np : bool) (f : frame) (keys : list str) (ms : list rowmeta) (pages : list Z)
         (t : nat) (prev cur : Z) : bool :=
  match ms, pages with
  | m :: ms', p :: ps =>
    if Z.eqb p prev then c05_divider_cost avail np f keys ms' ps (S t) p (cur + rm_total m)%Z
    else
      let forced := rm_ss m || (np && rm_gs m) in
      (all_divider_row f keys t && negb forced && (cur + rm_data m <=? avail)%Z)
      || c05_divider_cost avail np f keys ms' ps (S t) p (rm_total m)
  | _, _ => false
  end.

Definition check_c05 (d : doc) (pd : pdoc) : nat :=
  match d_content d with
  | CSingle f b =>
    let pages := observed_pages pd in
    let pb := opt_list (b_page_by b) in
    let sl := opt_list (b_subline_by b) in
    if negb (nat_list_eqb (concat (page_tags pd)) (seq 0 (length (f_rows f)))) then 7
    else if match section_info (single_secdoc d f b) with
            | Ok si => match si_metas si, number_pages (page_tags pd) 1 with
                       | m :: ms, p :: ps =>
                         c05_divider_cost (si_avail si) (si_new_page si) f (pb ++ sl) ms ps 1 p (rm_total m)
                       | _, _ => false
                       end
            | Err _ => false
            end then 8
    else
      let c_pb :=
          if nonempty pb && spanning_enabled b then
            fold_left (fun acc p => if Nat.eqb acc 0
                                    then c05_walk f pb (heading_items (f_cols f) p) (repeat None (length pb)) None
                                    else acc) pages 0
          else 0 in
      if negb (Nat.eqb c_pb 0) then c_pb
      else if nonempty sl then
        if all_b (fun p =>
                    let heads := flat_map (fun i => match classify (f_cols f) i with
                                                    | RSubHeading => match i with IPara _ (r :: _) => [run_text r] | _ => [] end
                                                    | _ => [] end) p in
                    match data_rows p with
                    | [] => true
                    | (t, _) :: rest =>
                      let want := subline_expected f sl t in
                      all_b (fun tr => str_eqb (subline_expected f sl (fst tr)) want) rest
                      && match want with
                         | [] => match heads with [] => true | _ => false end
                         | _ => match heads with [x] => str_eqb x want | _ => false end
                         end
                    end) pages
        then 0 else 6
      else 0
  | _ => 0
  end.

(* ---- C03 ---- *)
Definition is_heading r := match r with RHeading => true | _ => false end.
Definition is_subheading r := match r with RSubHeading => true | _ => false end.
Definition is_footrow r := match r with RFootRow => true | _ => false end.
Definition is_srcrow r := match r with RSrcRow => true | _ => false end.

Definition zsum (l : list Z) : Z := fold_right Z.add 0%Z l.
Definition zpos (z : Z) : Z := Z.max 0 z.

Record c03_page := {
  c3_total : Z;       (* what the page really holds, data rows weighted by the independent lower bound *)
  c3_ndata : nat;
  c3_d_hdr : Z;       (* rendered header rows minus reserved header rows *)
  c3_d_head : Z;      (* rendered group heading rows minus budgeted heading rows *)
  c3_d_data : Z;      (* sum over rows of (independent line bound - budgeted data lines) *)
  c3_d_fs : Z         (* rendered footnote/source table rows minus reserved *)
}.

Definition c03_of_page (d : doc) (f : frame) (b : body) (si : secinfo) (lb : list Z) (p : list item) : c03_page :=
  let roles := map (classify (f_cols f)) p in
  let tags := map fst (data_rows p) in
  let n_hdr := Z.of_nat (count_role is_header roles) in
  let n_head := Z.of_nat (count_role is_heading roles) in
  let n_sub := Z.of_nat (count_role is_subheading roles) in
  let n_fs := Z.of_nat (count_role is_footrow roles + count_role is_srcrow roles) in
  let lbs := map (fun t => nth t lb 1%Z) tags in
  let metas := map (fun t => nth t (si_metas si) {| rm_data := 1; rm_pb := 0; rm_sl := 0; rm_total := 1; rm_gs := false; rm_ss := false |}) tags in
  let reserved_hdr := match d_headers d with
                      | HFlat l => count_b header_has_text l
                      | HNested l => count_b header_has_text (concat l)
                      | HNone => 0%Z end in
  let reserved_fs := ((match d_footnote d with Some t => if truthy_s (tt_text t) then 1 else 0 | None => 0 end)
                      + (match d_source d with Some t => if truthy_s (tt_text t) then 1 else 0 | None => 0 end))%Z in
  {| c3_total := (n_hdr + n_head + n_sub + zsum lbs + n_fs)%Z;
     c3_ndata := length tags;
     c3_d_hdr := (n_hdr - reserved_hdr)%Z;
     c3_d_head := (n_head - zsum (map rm_pb metas))%Z;
     c3_d_data := (zsum lbs - zsum (map rm_data metas))%Z;
     c3_d_fs := (n_fs - reserved_fs)%Z |}.

(* per page: 0 within budget (or single data row); otherwise a cause mask of the known accounting gaps
   that explain the whole excess: 1 = auto header not reserved, 2 = heading rows, 4 = cell font/size;
   100 = overflow NOT explained by them *)
Definition c03_page_code (nrow : Z) (c : c03_page) : nat :=
  if (c3_total c <=? nrow)%Z || Nat.leb (c3_ndata c) 1 then 0
  else
    let explained := (zpos (c3_d_hdr c) + zpos (c3_d_head c) + zpos (c3_d_data c))%Z in
    if (c3_total c - explained <=? nrow)%Z then
      (if (0 <? c3_d_hdr c)%Z then 1 else 0) + (if (0 <? c3_d_head c)%Z then 2 else 0)
      + (if (0 <? c3_d_data c)%Z then 4 else 0)
    else 100.

Definition check_c03 (d : doc) (pd : pdoc) (lb : list Z) : nat * list nat :=
  match d_content d with
  | CSingle f b =>
    match section_info (single_secdoc d f b) with
    | Err _ => (9, [])
    | Ok si =>
      if negb (nat_list_eqb (concat (page_tags pd)) (seq 0 (length (f_rows f)))) then (8, [])
      else
        let codes := map (fun p => c03_page_code (p_nrow (d_page d)) (c03_of_page d f b si lb p)) (observed_pages pd) in
        (fold_left Nat.max codes 0, codes)
    end
  | _ => (0, [])
  end.

(* ---- C16 ---- *)
Definition picts_of (p : list item) : list pict :=
  flat_map (fun i => match i with IPict x => [x] | _ => [] end) p.

(* truth per figure, supplied by the generator: (has_dims, w, h) *)
Definition c16_one (fmt : str) (data : str) (wq hq : Q) (truth : bool * (Z * Z)) (align : str) (pc : pict) : nat :=
  let '(has, (tw, th)) := truth in
  if negb (match unhex (pc_hex pc) with Some bs => list_eqb N.eqb bs data | None => false end) then 1
  else if negb (tok_list_eqb (pc_blip pc) (blip_tokens fmt)) then 2
  else if negb (if has then Z.eqb (pc_w pc) tw && Z.eqb (pc_h pc) th
                else Z.eqb (pc_w pc) (qtrunc (wq * (96 # 1))) && Z.eqb (pc_h pc) (qtrunc (hq * (96 # 1)))) then 3
  else if negb (Z.eqb (pc_wgoal pc) (qtrunc (wq * (1440 # 1))) && Z.eqb (pc_hgoal pc) (qtrunc (hq * (1440 # 1)))) then 4
  else if negb (tok_list_eqb (pc_align pc) (align_tokens align)) then 5
  else 0.

Definition positional (l : list Q) (i : nat) : Q :=
  match nth_error l i with Some x => x | None => match last_opt l with Some x => x | None => 0 # 1 end end.

(* clause ids: 1 payload; 2 picture type; 3 pixel dimensions; 4 display size; 5 alignment;
   6 not exactly one picture per page, in order; 10+ : placement clauses of C06 *)
Definition check_c16 (d : doc) (pd : pdoc) (truth : list (bool * (Z * Z))) : nat :=
  match d_content d with
  | CFigure fg =>
    let pages := observed_pages pd in
    let per_page := map picts_of pages in
    if negb (Nat.eqb (length pages) (length (fg_data fg)))
       || negb (all_b (fun l => Nat.eqb (length l) 1) per_page) then 6
    else
      let codes := map (fun x => let '(i, (fd, (tr, pcs))) := x in
                                 match pcs with
                                 | [pc] => c16_one (fst fd) (snd fd) (positional (fg_width fg) i) (positional (fg_height fg) i)
                                                   tr (fg_align fg) pc
                                 | _ => 6 end)
                       (combine (seq 0 (length pages)) (combine (fg_data fg) (combine truth per_page))) in
      match filter (fun c => negb (Nat.eqb c 0)) codes with
      | c :: _ => c
      | [] => let c6 := check_c06 d pd in if Nat.eqb c6 0 then 0 else 10 + c6
      end
  | _ => 0
  end.
