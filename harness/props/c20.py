"""C20: string width measurement is consistent."""
import collections
import random

import rt
from rtflite.fonts_mapping import FontMapping
from rtflite.strwidth import get_string_width

from . import common

TRUSTED = ["Gen/Advances.v: advances and kerning pairs dumped through Pillow at size 12 for the bundled font files (translator harness/gen_advances.py)"]
ASSUMPTIONS = ["the advance + pair-kerning model is compared exactly on single-script strings (Latin/common, or Greek); HarfBuzz shapes common-script characters next to a Greek letter differently, mixed strings are covered by the sampled relations only", "characters: printable ASCII, Latin-1 (without U+00AD, a format character Pillow gives zero advance) and Greek; scaling with the font size is a sampled relation (FreeType hinting is outside the model)"]

CHARS = [c for c in list(range(32, 127)) + list(range(160, 256)) + list(range(0x391, 0x3AA)) + list(range(0x3B1, 0x3CA)) if c != 0xAD]
NAMES = FontMapping.get_font_number_to_name_mapping()
REF = 12


def rand_text(r):
    n = r.choice([0, 1, 2, 3, 5, 8, 13, 30])
    pool = r.choice([CHARS[:95], CHARS[:95], CHARS])
    return "".join(chr(r.choice(pool)) for _ in range(n))


def markup_texts(r, quick):
    """Strings that are markup to OTHER parts of the library (LaTeX commands, RTF control words, conversion triggers): the
    width function measures the characters it is given, whatever they spell."""
    from rtflite.dictionary.unicode_latex import latex_to_unicode as table
    keys = sorted(k for k in table if all(32 <= ord(c) < 127 for c in k))
    fixed = ["\\alpha", "\\pm", "\\le", "\\mu", "\\Omega", "\\infty", "\\mathbb{R}", "\\times", "\\line", "\\super x", "\\chpgn",
             "a^2", "x_1", ">=", "<=", "50% \\pm 2", "{\\b bold}", "\\u8805*", "\\'e9"]
    fixed = [t.replace("\\\\", "\\") for t in fixed]
    picked = keys if not quick else r.sample(keys, min(40, len(keys)))
    out = []
    for k in fixed + picked:
        out += [k, "n " + k + " x"]
    return out


def run(ctx):
    r = random.Random(ctx["seed"] * 20 + 3)
    n = 400 if ctx["tier"] == "quick" else 6000
    trials = []
    cases = []
    directed = markup_texts(r, ctx["tier"] == "quick")
    n += len(directed)
    for i in range(n):
        font = r.randint(1, 10)
        text = rand_text(r)
        if i < len(directed):
            text = directed[i]
            font = 9 if i % 2 == 0 else font
        trials.append((f"w{i}", font, text))
        cases.append(rt.sx_list([rt.sx_str("c20"), rt.sx_str(f"w{i}"), str(font), rt.sx_str(text)]))
    results = {res["id"]: res for res in rt.run_driver(cases, shards=4)}
    failures = []
    stats = collections.Counter()
    samples = []

    def fail(kind, name, what, **kw):
        stats[kind] += 1
        if len([f for f in failures if f["name"] == name]) < 2:
            failures.append(dict(kind=kind, name=name, what=what, signature=None, **kw))

    for name, font, text in trials:
        w64 = results[name].get("w64")
        px = get_string_width(text, font=font, font_size=REF, unit="px")
        # (a) additivity with kerning, exact in 1/64 px at the reference size: model == implementation.
        # Pillow shapes through raqm/HarfBuzz: a Greek letter turns the neighbouring common-script characters into a Greek
        # run with other glyph advances, so the pairwise model is compared on single-script strings only; the relations
        # below are checked on mixed strings as well.
        greek = [0x370 <= ord(ch) <= 0x3FF for ch in text]
        mixed = any(greek) and not all(greek)
        if mixed:
            stats["mixed_script_model_not_compared"] += 1
        elif w64 is None or w64 == "unsupported" or int(w64) != round(px * 64) or abs(px * 64 - round(px * 64)) > 1e-6:
            fail("corr", "additivity", "corr_C20: model width (advances + kerning) differs from get_string_width at the reference size",
                 font=font, text=text, model_w64=w64, impl_px=px)
            # no `continue`: the relations below are the property itself and may exhibit the concrete failure
        size = r.choice([4, 4.25, 4.3, 5.2, 6, 6.7, 7.5, 8.75, 9, 10.25, 10.5, 11.1, 12, 13.3, 14, 18, 22.75, 24, 36, 48])
        dpi = r.choice([36, 72, 96, 150, 300, 600])
        w_in = get_string_width(text, font=font, font_size=size, unit="in", dpi=dpi)
        w_mm = get_string_width(text, font=font, font_size=size, unit="mm", dpi=dpi)
        w_px = get_string_width(text, font=font, font_size=size, unit="px", dpi=dpi)
        by_name = get_string_width(text, font=NAMES[font], font_size=size, unit="px", dpi=dpi)
        ok = True
        if text == "" and (w_in != 0 or w_px != 0):
            ok = False; fail("holds", "empty", "empty string has non-zero width", font=font)
        if min(w_in, w_mm, w_px) < 0:
            ok = False; fail("holds", "nonneg", "negative width", font=font, text=text)
        if abs(w_in * dpi - w_px) > 1e-9 * max(1.0, w_px) or abs(w_mm - w_in * 25.4) > 1e-9 * max(1.0, w_mm):
            ok = False; fail("holds", "units", "unit conversions disagree", font=font, text=text, size=size, dpi=dpi, values=[w_in, w_mm, w_px])
        if by_name != w_px:
            ok = False; fail("holds", "name_number", "font by name differs from font by number", font=font, text=text)
        extra = chr(r.choice(CHARS))
        if get_string_width(text + extra, font=font, font_size=size, unit="px") < w_px - 1e-9:
            ok = False; fail("holds", "append", "appending a character decreased the width", font=font, text=text, appended=extra, size=size)
        if text and get_string_width(text[:-1], font=font, font_size=size, unit="px") > w_px + 1e-9:
            ok = False; fail("holds", "append", "appending a character decreased the width", font=font, text=text[:-1], appended=text[-1], size=size)
        if px > 0 and abs(w_px / size - px / REF) > 0.01 * (px / REF):
            ok = False; fail("holds", "scaling", "width does not scale with the font size to within one percent", font=font, text=text, size=size,
                             per_point=[w_px / size, px / REF])
        if font == 9 and text:
            one = get_string_width("M", font=9, font_size=size, unit="px")
            if abs(w_px - len(text) * one) > 1e-6 * max(1.0, w_px):
                ok = False; fail("holds", "mono", "monospaced width is not count x advance", text=text, size=size)
        if ok:
            stats["ok"] += 1
            if len(samples) < 3:
                samples.append({"font": font, "text": text, "model_w64": w64, "impl_px_at_12": px})
    # unsupported fonts / units
    for bad in (dict(font=0), dict(font=11), dict(font="Comic Sans"), dict(unit="cm")):
        try:
            get_string_width("x", **bad)
            fail("holds", "reject", f"unsupported {bad} was accepted")
        except ValueError:
            stats["ok_reject"] += 1
        except Exception as e:  # noqa: BLE001
            fail("holds", "reject", f"unsupported {bad} raised {type(e).__name__} instead of ValueError")
    coverage = {
        "evaluations": len(trials) + 4, "distinct_nontrivial": len({(f, t) for _, f, t in trials if t}),
        "rule": "random strings over printable ASCII / Latin-1 / Greek, fonts 1..10 by number and by name, sizes 4..48 incl. half-, quarter- and tenth-point values, three units, dpi 36..600; "
                "distinct = different (font, text)",
        "samples": samples, "outcomes": dict(stats), "traces_validated_against_impl": stats["ok"],
    }
    return {"failures": failures, "coverage": coverage}
