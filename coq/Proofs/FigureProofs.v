(* C16: hexadecimal payload round trip, PNG / JPEG dimension parsing, positional sizes. *)
From Coq Require Import List NArith ZArith QArith Bool Arith Lia.
From V Require Import Str Num Tok Items Doc Figure.
Import ListNotations.
Local Open Scope N_scope.

(* ---- hex ---- *)
Lemma unhex_hex_digit n : n < 16 -> unhex_digit (hex_digit n) = Some n.
Proof.
  intro H. unfold hex_digit, unhex_digit.
  destruct (n <? 10) eqn:E; [apply N.ltb_lt in E|apply N.ltb_ge in E].
  - replace ((48 <=? 48 + n) && (48 + n <=? 57)) with true
      by (symmetry; apply andb_true_intro; split; apply N.leb_le; lia).
    f_equal. lia.
  - replace ((48 <=? 87 + n) && (87 + n <=? 57)) with false
      by (symmetry; apply andb_false_intro2; apply N.leb_gt; lia).
    replace ((97 <=? 87 + n) && (87 + n <=? 102)) with true
      by (symmetry; apply andb_true_intro; split; apply N.leb_le; lia).
    f_equal. lia.
Qed.

(* the payload decodes to the file's exact bytes, whatever they are *)
Theorem unhex_hex (bs : list N) : Forall (fun b => b < 256) bs -> unhex (hex_of_bytes bs) = Some bs.
Proof.
  induction 1 as [|b bs Hb _ IH]; [reflexivity|].
  cbn [hex_of_bytes unhex].
  rewrite (unhex_hex_digit (b / 16)) by (apply N.div_lt_upper_bound; lia).
  rewrite (unhex_hex_digit (b mod 16)) by (apply N.mod_lt; lia).
  rewrite IH. f_equal. f_equal.
  pose proof (N.div_mod b 16 ltac:(lia)). lia.
Qed.

Lemma hex_length bs : length (hex_of_bytes bs) = (2 * length bs)%nat.
Proof. induction bs as [|b bs IH]; cbn [hex_of_bytes length]; [reflexivity|]. rewrite IH. lia. Qed.

(* ---- big-endian fields ---- *)
Definition bytes32 (z : N) : list N :=
  [z / 16777216; (z / 65536) mod 256; (z / 256) mod 256; z mod 256].

Lemma be32_bytes32 z : z < 4294967296 ->
  match bytes32 z with [a; b; c; d] => be32 a b c d | _ => 0%Z end = Z.of_N z.
Proof.
  intro H. unfold bytes32, be32. f_equal.
  replace (z / 65536) with (z / 256 / 256) by (rewrite N.div_div by lia; reflexivity).
  replace (z / 16777216) with (z / 256 / 256 / 256) by (rewrite !N.div_div by lia; reflexivity).
  pose proof (N.div_mod z 256 ltac:(lia)) as D1.
  pose proof (N.div_mod (z / 256) 256 ltac:(lia)) as D2.
  pose proof (N.div_mod (z / 256 / 256) 256 ltac:(lia)) as D3.
  assert (Hq : z / 256 / 256 / 256 < 256).
  { rewrite !N.div_div by lia. apply N.div_lt_upper_bound; lia. }
  remember (z / 256) as q1. remember (q1 / 256) as q2. remember (q2 / 256) as q3.
  remember (z mod 256) as r1. remember (q1 mod 256) as r2. remember (q2 mod 256) as r3.
  lia.
Qed.

(* ---- PNG: signature, 8 bytes (chunk length + type), width, height, then anything ---- *)
Theorem png_dims_spec (pre rest : list N) (w h : N) :
  length pre = 8%nat -> (0 < length rest)%nat -> w < 4294967296 -> h < 4294967296 ->
  png_dims (png_sig ++ pre ++ bytes32 w ++ bytes32 h ++ rest) = Some (Z.of_N w, Z.of_N h).
Proof.
  intros Hp Hr Hw Hh. unfold png_dims.
  destruct pre as [|p1 [|p2 [|p3 [|p4 [|p5 [|p6 [|p7 [|p8 [|]]]]]]]]]; try discriminate.
  assert (Hlen : Nat.ltb 24 (length (png_sig ++ [p1; p2; p3; p4; p5; p6; p7; p8] ++ bytes32 w ++ bytes32 h ++ rest)) = true).
  { apply Nat.ltb_lt. rewrite !app_length. cbn [length png_sig bytes32]. lia. }
  rewrite Hlen. cbn [png_sig app firstn list_eqb]. rewrite !N.eqb_refl. cbn [andb skipn].
  pose proof (be32_bytes32 w Hw) as Bw. pose proof (be32_bytes32 h Hh) as Bh.
  unfold bytes32 in *. cbn [app]. rewrite Bw, Bh. reflexivity.
Qed.

(* ---- positional sizes: value i, or the last one when the list is shorter ---- *)
Theorem dimension_positional (l : list Q) i x :
  dimension l i = Ok x <-> (nth_error l i = Some x \/ (nth_error l i = None /\ last_opt l = Some x)).
Proof.
  unfold dimension. destruct (nth_error l i) as [y|]; split; intro H.
  - inversion H; left; reflexivity.
  - destruct H as [H|[H _]]; [inversion H; reflexivity|discriminate].
  - right. split; [reflexivity|]. destruct (last_opt l); cbn in H; [inversion H; reflexivity|discriminate].
  - destruct H as [H|[_ H]]; [discriminate|]. rewrite H. reflexivity.
Qed.

(* display size: configured inches x 1440, truncated as int() does *)
Theorem goal_size fmt data w h align :
  pc_wgoal (encode_single_figure fmt data w h align) = qtrunc (w * (1440 # 1))
  /\ pc_hgoal (encode_single_figure fmt data w h align) = qtrunc (h * (1440 # 1))
  /\ pc_hex (encode_single_figure fmt data w h align) = hex_of_bytes data.
Proof. unfold encode_single_figure. destruct (image_dims fmt data) as [[? ?]|]; repeat split; reflexivity. Qed.

(* ---- JPEG: a start-of-frame marker at the scan position yields its dimensions ---- *)
Definition bytes16 (z : N) : list N := [z / 256; z mod 256].

Lemma be16_bytes16 z : z < 65536 -> match bytes16 z with [a; b] => be16 a b | _ => 0%Z end = Z.of_N z.
Proof. intro H. unfold bytes16, be16. f_equal. pose proof (N.div_mod z 256 ltac:(lia)). lia. Qed.

Theorem jpeg_sof_found fuel m l1 l2 p (w h : N) tail rem :
  is_sof m = true -> w < 65536 -> h < 65536 -> (9 < rem)%nat ->
  jpeg_scan (S fuel) (255 :: m :: l1 :: l2 :: p :: bytes16 h ++ bytes16 w ++ tail) rem
  = Some (Z.of_N w, Z.of_N h).
Proof.
  intros Hm Hw Hh Hrem. cbn [jpeg_scan bytes16 app].
  replace (Nat.ltb 9 rem) with true by (symmetry; apply Nat.ltb_lt; exact Hrem).
  rewrite Hm. pose proof (be16_bytes16 w Hw) as Bw. pose proof (be16_bytes16 h Hh) as Bh.
  unfold bytes16 in *. rewrite Bw, Bh. reflexivity.
Qed.

(* a segment that is not a start-of-frame is skipped by its declared length *)
Lemma skipn_app_exact {A} (a b : list A) : skipn (length a) (a ++ b) = b.
Proof. induction a as [|x a IH]; cbn; [reflexivity|exact IH]. Qed.

Theorem jpeg_segment_skipped fuel m (len : N) payload rest rem :
  is_sof m = false -> len < 65536 -> 2 <= len -> (9 < rem)%nat ->
  length payload = (N.to_nat len - 2)%nat -> (7 <= length payload + length rest)%nat ->
  jpeg_scan (S fuel) (255 :: m :: bytes16 len ++ payload ++ rest) rem
  = jpeg_scan fuel rest (rem - (2 + N.to_nat len))%nat.
Proof.
  intros Hm Hl Hlen Hrem Hp Hlong. cbn [bytes16 app].
  assert (Hshape : exists a b c d e f g more, payload ++ rest = a :: b :: c :: d :: e :: f :: g :: more).
  { destruct (payload ++ rest) as [|a [|b [|c [|d [|e [|f [|g more]]]]]]] eqn:E;
      try (apply (f_equal (@length _)) in E; rewrite app_length in E; cbn in E; lia).
    eauto 10. }
  destruct Hshape as (a & b & c & d & e & f & g & more & E). rewrite E.
  cbn [jpeg_scan]. replace (Nat.ltb 9 rem) with true by (symmetry; apply Nat.ltb_lt; exact Hrem).
  rewrite Hm. pose proof (be16_bytes16 len Hl) as Bl. unfold bytes16 in Bl. rewrite Bl.
  rewrite <- E.
  replace (Z.to_nat (Z.of_N len)) with (N.to_nat len) by lia.
  f_equal.
  replace (2 + N.to_nat len)%nat with (S (S (S (S (length payload))))) by lia.
  cbn [skipn]. apply skipn_app_exact.
Qed.
