(* C03 — no page exceeds the nrow row budget.
   FULL STATEMENT (for every page p of a single-table document):
      header_rows p + heading_rows p + sum (map lb (data p)) + footnote/source table rows p <= nrow
      \/ p holds a single data row,
   with lb the number of lines the row's widest cell needs at its own font, size and column width.
   That statement is FALSE of the faithful model (and of the code): the known findings
     C03-auto-header-unreserved       the auto-generated header is rendered but not reserved,
     C03-heading-rows-underbudgeted   one budget line per group start for k rendered heading rows, and
                                      continuation headings not budgeted at all,
   are accounting gaps; check_c03 decomposes every overflowing page of the implementation's output into
   these components and reports anything they do not explain as a violation.
   What IS proved, for all inputs:
     C03_accounting   the implementation's accounting never overflows: on every page the budgeted rows
                      (data lines + budgeted heading lines) are within max 1 (nrow - reserved), or the
                      page holds a single row — for EVERY metadata list (K1);
     C03_rows_ge_1    the hypothesis of C03_accounting holds for the metadata the pipeline computes;
     C03_pipeline_accounting   the two composed: metadata computed from any frame -> no overflow;
     C03_lines        the budgeted line count of a cell dominates the lines it needs at the font / size
                      it is measured with (after the repair: the cell's own): w/cw <= floor(w/cw)+1;
     C03_partial      budgeted rows + reserved rows <= nrow whenever at least one row is available —
                      i.e. the FULL statement holds on every page whose rendered header / heading rows
                      equal the reserved / budgeted ones (no positive component in check_c03's
                      decomposition). *)
From Coq Require Import List ZArith QArith Bool Lia.
From V Require Import Str Num Doc Broadcast Paginate PaginateProofs BudgetProofs.
Import ListNotations.
Local Open Scope Z_scope.

Theorem C03_accounting : forall nrow add np ms,
  Forall (fun m => 1 <= rm_total m) ms ->
  check_fill (Z.max 1 (nrow - add)) ms (assign_pages nrow add np ms) = true.
Proof. exact assign_fill. Qed.
Print Assumptions C03_accounting.

Theorem C03_rows_ge_1 : forall widths fonts sizes ri cols removed cw pb sl rows pbc slc ms,
  metas widths fonts sizes ri cols removed cw pb sl rows pbc slc = Ok ms ->
  Forall (fun m => 1 <= rm_total m) ms.
Proof. exact metas_total_ge_1. Qed.
Print Assumptions C03_rows_ge_1.

Theorem C03_lines : forall tw cw,
  (0 <= Qnum (tw / cw)) -> (tw / cw <= inject_Z (lines_needed tw cw))%Q.
Proof. exact lines_dominate. Qed.

Theorem C03_partial : forall nrow additional page_sum,
  1 <= nrow - additional -> page_sum <= Z.max 1 (nrow - additional) -> page_sum + additional <= nrow.
Proof. exact page_within_nrow. Qed.
Print Assumptions C03_partial.

(* the known finding on the model: two page_by levels, nrow = 3, no reserved rows.  Both rows are given
   to page 1 (budget: 1 data + 1 heading line, then 1 data = 3), but 2 heading rows are rendered. *)
Example C03_refuted_heading_rows :
  let m pb gs := {| rm_data := 1; rm_pb := pb; rm_sl := 0; rm_total := 1 + pb; rm_gs := gs; rm_ss := false |} in
  assign_pages 3 0 false [m 1 true; m 0 false] = [1; 1]
  /\ (2 (* rendered heading rows *) + 2 (* data rows *) > 3).
Proof. split; [vm_compute; reflexivity|lia]. Qed.

(* the two halves composed: for the row metadata the pipeline itself computes from ANY frame, widths,
   fonts and sizes, the page assignment it then makes never overflows its own accounting *)
Theorem C03_pipeline_accounting : forall widths fonts sizes ri cols removed cw pb sl rows pbc slc ms nrow add np,
  metas widths fonts sizes ri cols removed cw pb sl rows pbc slc = Ok ms ->
  check_fill (Z.max 1 (nrow - add)) ms (assign_pages nrow add np ms) = true.
Proof.
  intros widths fonts sizes ri cols removed cw pb sl rows pbc slc ms nrow add np H.
  apply assign_fill. exact (metas_total_ge_1 _ _ _ _ _ _ _ _ _ _ _ _ _ H).
Qed.
Print Assumptions C03_pipeline_accounting.
