(* Structured RTF: the items rtflite documents are made of, and their token emission. *)
From Coq Require Import Ascii String.
From Coq Require Import List NArith ZArith Bool.
From V Require Import Str Tok.
Import ListNotations.
Local Open Scope string_scope.
Local Open Scope list_scope.

Record bord := { bd_style : list tok; bd_w : Z; bd_cf : option Z }.

(* \fsN{\fN[\cfN][\chshdng0\chcbpatN\cbN] body} *)
Record run := { rn_fs : Z; rn_f : Z; rn_cf : option Z; rn_cb : option Z; rn_body : list tok }.

Record cell := {
  ce_bl : option bord; ce_bt : option bord; ce_br : option bord; ce_bb : option bord;
  ce_vj : list tok;
  ce_x : Z;
  ce_pf : list tok;      (* paragraph formatting control words *)
  ce_run : run
}.

Record row := { rw_gaph : Z; rw_just : list tok; rw_cells : list cell }.

Record geom := { g_w : Z; g_h : Z; g_margins : list Z }.

Record pict := {
  pc_align : list tok; pc_blip : list tok;
  pc_w : Z; pc_h : Z; pc_wgoal : Z; pc_hgoal : Z;
  pc_hex : str
}.

Inductive item :=
| IRow (r : row)
| IPara (pf : list tok) (runs : list run)   (* {\pard pf run (\line run)* \par} *)
| IBreak (g : geom)                          (* {\pard\fs2\par}\page{\pard\fs2\par} + geometry *)
| IPict (p : pict)                           (* align {\pict ...} \par *)
| IPage.                                     (* bare \page *)

Definition emit_optz (name : string) (o : option Z) : list tok :=
  match o with Some z => [ctrlz name z] | None => [] end.

Definition emit_run (r : run) : list tok :=
  [ctrlz "fs" (rn_fs r); TOpen; ctrlz "f" (rn_f r)]
  ++ emit_optz "cf" (rn_cf r)
  ++ match rn_cb r with
     | Some z => [ctrlz "chshdng" 0; ctrlz "chcbpat" z; ctrlz "cb" z]
     | None => []
     end
  ++ rn_body r ++ [TClose].

Definition emit_bord (side : string) (o : option bord) : list tok :=
  match o with
  | None => []
  | Some b => ctrl side :: bd_style b ++ [ctrlz "brdrw" (bd_w b)] ++ emit_optz "brdrcf" (bd_cf b)
  end.

Definition emit_cell_def (c : cell) : list tok :=
  emit_bord "clbrdrl" (ce_bl c) ++ emit_bord "clbrdrt" (ce_bt c)
  ++ emit_bord "clbrdrr" (ce_br c) ++ emit_bord "clbrdrb" (ce_bb c)
  ++ ce_vj c ++ [ctrlz "cellx" (ce_x c)].

Definition emit_cell_content (c : cell) : list tok :=
  ctrl "pard" :: ce_pf c ++ emit_run (ce_run c) ++ [ctrl "cell"].

Definition emit_row (r : row) : list tok :=
  [ctrl "trowd"; ctrlz "trgaph" (rw_gaph r); ctrlz "trleft" 0] ++ rw_just r
  ++ flat_map emit_cell_def (rw_cells r)
  ++ flat_map emit_cell_content (rw_cells r)
  ++ [ctrl "intbl"; ctrl "row"; ctrl "pard"].

Fixpoint emit_runs (rs : list run) : list tok :=
  match rs with
  | [] => []
  | [r] => emit_run r
  | r :: rest => emit_run r ++ ctrl "line" :: emit_runs rest
  end.

Definition emit_para (pf : list tok) (rs : list run) : list tok :=
  [TOpen; ctrl "pard"] ++ pf ++ emit_runs rs ++ [ctrl "par"; TClose].

Definition tiny_par : list tok := [TOpen; ctrl "pard"; ctrlz "fs" 2; ctrl "par"; TClose].

Definition margin_names : list string := ["margl"; "margr"; "margt"; "margb"; "headery"; "footery"].

Fixpoint emit_margins (names : list string) (ms : list Z) : list tok :=
  match names, ms with
  | n :: ns, m :: r => ctrlz n m :: emit_margins ns r
  | _, _ => []
  end.

Definition emit_geom (g : geom) : list tok :=
  [ctrlz "paperw" (g_w g); ctrlz "paperh" (g_h g)] ++ emit_margins margin_names (g_margins g).

Definition emit_break (g : geom) : list tok :=
  tiny_par ++ [ctrl "page"] ++ tiny_par ++ emit_geom g.

Definition emit_pict (p : pict) : list tok :=
  pc_align p ++ [TOpen; ctrl "pict"] ++ pc_blip p
  ++ [ctrlz "picw" (pc_w p); ctrlz "pich" (pc_h p); ctrlz "picwgoal" (pc_wgoal p); ctrlz "pichgoal" (pc_hgoal p);
      TText (pc_hex p); TClose; ctrl "par"].

Definition emit_item (i : item) : list tok :=
  match i with
  | IRow r => emit_row r
  | IPara pf rs => emit_para pf rs
  | IBreak g => emit_break g
  | IPict p => emit_pict p
  | IPage => [ctrl "page"]
  end.

Definition emit_items (l : list item) : list tok := flat_map emit_item l.

(* equality *)
Definition bord_eqb (a b : bord) : bool :=
  tok_list_eqb (bd_style a) (bd_style b) && Z.eqb (bd_w a) (bd_w b) && optZ_eqb (bd_cf a) (bd_cf b).
Definition run_eqb (a b : run) : bool :=
  Z.eqb (rn_fs a) (rn_fs b) && Z.eqb (rn_f a) (rn_f b) && optZ_eqb (rn_cf a) (rn_cf b)
  && optZ_eqb (rn_cb a) (rn_cb b) && tok_list_eqb (rn_body a) (rn_body b).
Definition cell_eqb (a b : cell) : bool :=
  opt_eqb bord_eqb (ce_bl a) (ce_bl b) && opt_eqb bord_eqb (ce_bt a) (ce_bt b)
  && opt_eqb bord_eqb (ce_br a) (ce_br b) && opt_eqb bord_eqb (ce_bb a) (ce_bb b)
  && tok_list_eqb (ce_vj a) (ce_vj b) && Z.eqb (ce_x a) (ce_x b)
  && tok_list_eqb (ce_pf a) (ce_pf b) && run_eqb (ce_run a) (ce_run b).
Definition row_eqb (a b : row) : bool :=
  Z.eqb (rw_gaph a) (rw_gaph b) && tok_list_eqb (rw_just a) (rw_just b)
  && list_eqb cell_eqb (rw_cells a) (rw_cells b).
Definition geom_eqb (a b : geom) : bool :=
  Z.eqb (g_w a) (g_w b) && Z.eqb (g_h a) (g_h b) && list_eqb Z.eqb (g_margins a) (g_margins b).
Definition pict_eqb (a b : pict) : bool :=
  tok_list_eqb (pc_align a) (pc_align b) && tok_list_eqb (pc_blip a) (pc_blip b)
  && Z.eqb (pc_w a) (pc_w b) && Z.eqb (pc_h a) (pc_h b)
  && Z.eqb (pc_wgoal a) (pc_wgoal b) && Z.eqb (pc_hgoal a) (pc_hgoal b)
  && str_eqb (pc_hex a) (pc_hex b).
Definition item_eqb (a b : item) : bool :=
  match a, b with
  | IRow r, IRow s => row_eqb r s
  | IPara p rs, IPara q ss => tok_list_eqb p q && list_eqb run_eqb rs ss
  | IBreak g, IBreak h => geom_eqb g h
  | IPict p, IPict q => pict_eqb p q
  | IPage, IPage => true
  | _, _ => false
  end.
