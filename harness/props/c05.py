"""C05: every data row sits under its own group heading on its own page."""
import gen

from . import common

TRUSTED = ["C05 predicate check_c05 (Model/Checks.v): sequence of full-width heading rows / subline paragraphs and tagged data rows per parsed page"]
ASSUMPTIONS = ["group keys sorted (hierarchically contiguous), level-specific labels (@A.. outer, @B.., @C..) so that a heading's level is recognisable"]


def _contiguous(seq):
    seen, prev = set(), object()
    for x in seq:
        if x != prev:
            if x in seen:
                return False
            seen.add(x)
            prev = x
    return True


def small_patterns():
    """All hierarchically contiguous key patterns of 3 rows over two page_by levels with values {1, 2, divider} per level,
    and of 4 rows over {1, divider}: the shapes in which a level is hidden by a divider and shown again."""
    import itertools

    out = []
    for n, alpha in ((3, ("1", "2", "-")), (4, ("1", "-"))):
        for pat in itertools.product(itertools.product(alpha, repeat=2), repeat=n):
            if _contiguous([t[0] for t in pat]) and _contiguous(list(pat)):
                out.append(pat)
    return out


_PATTERNS = small_patterns()


def pattern_spec(pat, nrow):
    lab = lambda lvl, v: "-----" if v == "-" else f"@{'AB'[lvl]}{v}"
    rows = [[f"#{i}#", lab(0, a), lab(1, b), "x"] for i, (a, b) in enumerate(pat)]
    return {"df": {"cols": ["id", "g0", "g1", "c0"], "rows": rows}, "body": {"page_by": ["g0", "g1"]}, "page": {"nrow": nrow},
            "kind": "single", "strategy": "page_by", "header_mode": "default"}


def generate(g, i):
    r = g.r
    if i < _N_PATTERNS[0]:
        return pattern_spec(_PATTERNS[_ORDER[i]], 12 if i % 3 else 4)
    strategy = r.choice(["page_by", "page_by", "page_by", "subline", "subline+page_by"])
    nrows = r.choice([1, 2, 3, 5, 8, 13, 21, 30])
    spec = g.single(strategy=strategy, nrows=nrows, header_mode=r.choice(["default", "explicit", "none", "no_colheader"]))
    spec["body"].pop("group_by", None)
    spec["page"]["nrow"] = r.randint(3, 12)
    return spec


_N_PATTERNS = [0]
_ORDER = []


def run(ctx):
    import random

    order = list(range(len(_PATTERNS)))
    random.Random(ctx["seed"] + 55).shuffle(order)
    _ORDER[:] = order
    _N_PATTERNS[0] = len(_PATTERNS) if ctx["tier"] != "quick" else min(len(_PATTERNS), 90)
    return common.run_docprop(ctx, "c05", generate, None, n_quick=180 + 90, n_thorough=3000 + len(_PATTERNS))
