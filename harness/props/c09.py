"""C09: cell formatting follows the data cell."""
from . import common

TRUSTED = ["C09 predicate check_c09 (Model/Checks.v): expected_cell applies the attributes at the cell's ORIGINAL (row, column) directly, without the prepare / slice / re-base / page-border logic"]
ASSUMPTIONS = ["top / bottom borders of the first / last data row of a page are C07's (excluded here); group_by absent"]


def generate(g, i):
    r = g.r
    strategy = r.choice(["plain", "plain", "page_by", "subline", "subline+page_by"])
    nrows = r.choice([1, 2, 4, 7, 12, 25, 40])
    spec = g.single(strategy=strategy, nrows=nrows)
    ncol = len(spec["df"]["cols"])
    # rich attributes in all three shapes
    body = spec["body"]
    for k in list(body.keys()):
        if k.startswith(("text_", "border_", "cell_")):
            del body[k]
    body.update(g.table_attrs(nrows, ncol, 0.55))
    # row-level attributes (taken from the first displayed column) in matrix shape, often
    import gen as _gen
    if r.random() < 0.5:
        body["cell_height"] = _gen.shape_value(r, nrows, ncol, lambda: r.choice([0.15, 0.2, 0.25, 0.5]), scalar_ok=False)
    if r.random() < 0.5:
        body["cell_justification"] = _gen.shape_value(r, nrows, ncol, lambda: r.choice(["l", "c", "r"]), scalar_ok=False)
    spec["page"]["nrow"] = r.choice([2, 3, 5, 9, 60])
    return spec


def run(ctx):
    return common.run_docprop(ctx, "c09", generate, None, n_quick=170, n_thorough=2500)
