(* write_rtf / write_docx / write_html / write_pdf over an explicit file-system state (C18).
   The file system is a pair of functions (path -> contents, path -> is a directory); paths are component lists.
   Temporary directories t1, t2 are parameters (mkdtemp names); the converter is an enumerated behaviour. *)
From Coq Require Import Ascii String.
From Coq Require Import List NArith ZArith Bool Arith.
Local Open Scope string_scope.
Local Open Scope list_scope.
From V Require Import Str Doc.
Import ListNotations.

Definition path := list str.

Fixpoint is_prefix (p q : path) : bool :=
  match p, q with
  | [], _ => true
  | a :: p', b :: q' => str_eqb a b && is_prefix p' q'
  | _ :: _, [] => false
  end.

(* strip p q = Some r  iff  q = p ++ r *)
Fixpoint strip (p q : path) : option path :=
  match p, q with
  | [], _ => Some q
  | a :: p', b :: q' => if str_eqb a b then strip p' q' else None
  | _ :: _, [] => None
  end.

Definition path_eqb (p q : path) : bool := list_eqb str_eqb p q.

Record fsys := { file : path -> option str; isdir : path -> bool }.

Definition exists_at (s : fsys) (p : path) : bool :=
  isdir s p || match file s p with Some _ => true | None => false end.

Definition parent (p : path) : path := removelast p.
Definition base (p : path) : str := last p [].

Definition mkdir_p (p : path) (s : fsys) : fsys :=
  {| file := file s; isdir := fun q => isdir s q || is_prefix q p |}.

Definition mkdir (p : path) (s : fsys) : fsys :=
  {| file := file s; isdir := fun q => isdir s q || path_eqb q p |}.

Definition write (p : path) (c : str) (s : fsys) : res fsys :=
  if isdir s (parent p)
  then Ok {| file := fun q => if path_eqb q p then Some c else file s q; isdir := isdir s |}
  else Err FileNotFound.

(* shutil.move of a regular file onto a path that is not a directory: rename, replacing the destination *)
Definition move_file (src dst : path) (s : fsys) : res fsys :=
  match file s src with
  | None => Err FileNotFound
  | Some c =>
    Ok {| file := fun q => if path_eqb q dst then Some c else if path_eqb q src then None else file s q;
          isdir := isdir s |}
  end.

Definition rename_tree (src dst : path) (s : fsys) : fsys :=
  {| file := fun q => match strip dst q with
                      | Some r => file s (src ++ r)
                      | None => if is_prefix src q then None else file s q
                      end;
     isdir := fun q => match strip dst q with
                       | Some r => isdir s (src ++ r)
                       | None => if is_prefix src q then false else isdir s q
                       end |}.

(* shutil.move of a directory: into dst when dst is an existing directory, else rename to dst;
   "Destination path already exists" when the final name is taken *)
Definition move_dir (src dst : path) (s : fsys) : res fsys :=
  let real := if isdir s dst then dst ++ [base src] else dst in
  if exists_at s real then Err OtherErr else Ok (rename_tree src real s).

Definition rmtree (p : path) (s : fsys) : fsys :=
  {| file := fun q => if is_prefix p q then None else file s q;
     isdir := fun q => if is_prefix p q then false else isdir s q |}.

(* ---- the export procedures ---- *)
Inductive fmt := FRtf | FDocx | FHtml | FPdf.
Inductive fault := FNone | FCtor | FEncode | FConvert.      (* an exception injected inside that library phase *)
Inductive behaviour :=
| BOk | BFailBefore | BFailAfter | BNoOutput | BRetList | BRetNone | BRetStr | BRetMissing.

Definition ext_of (f : fmt) : str :=
  s2l (match f with FRtf => "rtf" | FDocx => "docx" | FHtml => "html" | FPdf => "pdf" end).

Definition dot : str := [46%N].

Record scen := {
  sc_fmt : fmt;
  sc_target : path;
  sc_stem : str;                 (* Path(target).stem *)
  sc_code : res str;             (* what rtf_encode() does: the string, or the exception *)
  sc_beh : behaviour;
  sc_resdir : bool;              (* the converter writes a <name>_files directory beside its html output *)
  sc_fault : fault;
  sc_conv : str;                 (* contents the converter writes *)
  sc_resfile : str;              (* contents of the one resource file *)
  sc_t1 : path;                  (* mkdtemp results *)
  sc_t2 : path;
  sc_fixed : bool                (* true: the repaired write_html (existing resource folder is replaced) *)
}.

Definition outcome := option err.          (* None = returned normally *)

Definition raise (s : fsys) (e : err) : fsys * outcome := (s, Some e).

Definition write_rtf (c : scen) (s : fsys) : fsys * outcome :=
  let s1 := mkdir_p (parent (sc_target c)) s in
  match sc_fault c with
  | FEncode => raise s1 OtherErr
  | _ =>
    match sc_code c with
    | Err e => raise s1 e
    | Ok code =>
      match write (sc_target c) code s1 with
      | Ok s2 => (s2, None)
      | Err e => raise s1 e
      end
    end
  end.

Definition out_name (c : scen) : str := sc_stem c ++ dot ++ ext_of (sc_fmt c).
Definition res_name (c : scen) : str := out_name c ++ s2l "_files".
Definition res_target (c : scen) : path := parent (sc_target c) ++ [res_name c].

(* what the converter leaves in its output directory, and what it returns *)
Inductive convres := CPath (p : path) | CBad | CRaise (e : err).

Definition conv_files (c : scen) (s : fsys) : fsys :=
  let out := sc_t2 c ++ [out_name c] in
  let s1 := {| file := fun q => if path_eqb q out then Some (sc_conv c) else file s q; isdir := isdir s |} in
  match sc_fmt c, sc_resdir c with
  | FHtml, true =>
    let rd := sc_t2 c ++ [res_name c] in
    {| file := fun q => if path_eqb q (rd ++ [s2l "img0.png"]) then Some (sc_resfile c) else file s1 q;
       isdir := fun q => isdir s1 q || path_eqb q rd |}
  | _, _ => s1
  end.

Definition convert (c : scen) (s : fsys) : fsys * convres :=
  match sc_beh c with
  | BOk => (conv_files c s, CPath (sc_t2 c ++ [out_name c]))
  | BFailBefore => (s, CRaise OtherErr)
  | BFailAfter => (conv_files c s, CRaise OtherErr)
  | BNoOutput => (s, CRaise OtherErr)
  | BRetList => (conv_files c s, CBad)
  | BRetNone => (conv_files c s, CBad)
  | BRetStr => (conv_files c s, CBad)
  | BRetMissing => (s, CPath (sc_t2 c ++ [s2l "missing"]))
  end.

Definition place (c : scen) (p : path) (s : fsys) : fsys * outcome :=
  match move_file p (sc_target c) s with
  | Err e => raise s e
  | Ok s1 =>
    match sc_fmt c with
    | FHtml =>
      let rd := parent p ++ [base p ++ s2l "_files"] in
      if isdir s1 rd then
        let s2 := if sc_fixed c && isdir s1 (res_target c) then rmtree (res_target c) s1 else s1 in
        match move_dir rd (res_target c) s2 with
        | Ok s3 => (s3, None)
        | Err e => raise s2 e
        end
      else (s1, None)
    | _ => (s1, None)
    end
  end.

Definition inner (c : scen) (s : fsys) : fsys * outcome :=
  match sc_fault c with
  | FConvert => raise s OtherErr
  | _ =>
    let '(s1, r) := convert c s in
    match r with
    | CRaise e => raise s1 e
    | CBad => raise s1 TypeErr
    | CPath p => place c p s1
    end
  end.

Definition middle (c : scen) (s : fsys) : fsys * outcome :=
  match sc_fault c with
  | FEncode => raise s OtherErr
  | _ =>
    match sc_code c with
    | Err e => raise s e
    | Ok code =>
      match write (sc_t1 c ++ [sc_stem c ++ dot ++ s2l "rtf"]) code s with
      | Err e => raise s e
      | Ok s1 =>
        let s2 := mkdir (sc_t2 c) s1 in
        let '(s3, o) := inner c s2 in
        (rmtree (sc_t2 c) s3, o)                 (* TemporaryDirectory: cleaned on every exit *)
      end
    end
  end.

Definition write_conv (c : scen) (s : fsys) : fsys * outcome :=
  let s1 := mkdir_p (parent (sc_target c)) s in
  match sc_fault c with
  | FCtor => raise s1 OtherErr
  | _ =>
    let s2 := mkdir (sc_t1 c) s1 in
    let '(s3, o) := middle c s2 in
    (rmtree (sc_t1 c) s3, o)
  end.

Definition export (c : scen) (s : fsys) : fsys * outcome :=
  match sc_fmt c with FRtf => write_rtf c s | _ => write_conv c s end.
