(* Hand-written glue: S-expression reader for harness cases, report printer.
   Everything else is extracted from Coq (Model). *)
module M = Model

let rec pos_of_int n = if n = 1 then M.XH else if n land 1 = 0 then M.XO (pos_of_int (n lsr 1)) else M.XI (pos_of_int (n lsr 1))
let n_of_int n = if n = 0 then M.N0 else M.Npos (pos_of_int n)
let rec int_of_pos = function M.XH -> 1 | M.XO p -> 2 * int_of_pos p | M.XI p -> 2 * int_of_pos p + 1
let int_of_n = function M.N0 -> 0 | M.Npos p -> int_of_pos p

(* syntax:  ( ... )  list;  [ n n n ]  string of code points;  -?digits  number *)
let parse_all (s : string) (k : M.sexp -> unit) : unit =
  let len = String.length s in
  let pos = ref 0 in
  let skip () = while !pos < len && (s.[!pos] = ' ' || s.[!pos] = '\n' || s.[!pos] = '\t') do incr pos done in
  let token () =
    skip ();
    let st = !pos in
    while !pos < len && not (List.mem s.[!pos] [' '; '\n'; '\t'; '('; ')'; '['; ']']) do incr pos done;
    String.sub s st (!pos - st) in
  let rec value () : M.sexp =
    skip ();
    if !pos >= len then failwith "eof"
    else match s.[!pos] with
      | '(' -> incr pos; M.SList (items [])
      | '[' -> incr pos; M.SStr (codes [])
      | '#' ->
        (* #<n>:<n raw ASCII bytes> *)
        incr pos;
        let st = !pos in
        while s.[!pos] <> ':' do incr pos done;
        let n = int_of_string (String.sub s st (!pos - st)) in
        incr pos;
        let start = !pos in
        pos := !pos + n;
        let rec build i acc = if i < start then acc else build (i - 1) (n_of_int (Char.code s.[i]) :: acc) in
        M.SStr (build (start + n - 1) [])
      | _ -> let t = token () in
        M.SNum (List.init (String.length t) (fun i -> n_of_int (Char.code t.[i])))
  and items acc =
    skip ();
    if !pos < len && s.[!pos] = ')' then (incr pos; List.rev acc)
    else let v = value () in items (v :: acc)
  and codes acc =
    skip ();
    if !pos < len && s.[!pos] = ']' then (incr pos; List.rev acc)
    else let t = token () in codes (n_of_int (int_of_string t) :: acc)
  in
  let rec loop () = skip (); if !pos < len then (k (value ()); loop ()) in
  loop ()

let print_str (l : M.n list) =
  let b = Buffer.create 256 in
  List.iter (fun c -> let k = int_of_n c in if k < 128 then Buffer.add_char b (Char.chr k) else Buffer.add_char b '?') l;
  print_string (Buffer.contents b); print_newline ()

let read_all ic =
  let b = Buffer.create 65536 in
  (try while true do Buffer.add_channel b ic 1 done with End_of_file -> ());
  Buffer.contents b

let () =
  let ic = if Array.length Sys.argv > 1 then open_in_bin Sys.argv.(1) else stdin in
  parse_all (read_all ic) (fun e -> print_str (M.run_case' e))
