(* assemble_rtf: line-based port. *)
From Coq Require Import Ascii String.
From Coq Require Import List NArith ZArith Bool Arith.
From V Require Import Str.
Import ListNotations.
Local Open Scope string_scope.
Local Open Scope list_scope.

(* file.readlines(): lines keep their terminating newline *)
Fixpoint lines_from (s : str) (cur : str) : list str :=
  match s with
  | [] => match cur with [] => [] | _ => [rev' cur] end
  | c :: r => if N.eqb c 10 then rev' (c :: cur) :: lines_from r [] else lines_from r (c :: cur)
  end.
Definition readlines (s : str) : list str := lines_from s [].

Fixpoint contains (pat s : str) : bool :=
  match s with
  | [] => match pat with [] => true | _ => false end
  | _ :: r => starts_with pat s || contains pat r
  end.

Definition is_space (c : N) : bool := existsb (N.eqb c) [32; 9; 10; 13; 11; 12]%N.
Fixpoint lstrip (s : str) : str := match s with c :: r => if is_space c then lstrip r else s | [] => [] end.
Definition strip (s : str) : str := rev' (lstrip (rev' (lstrip s))).

(* index after the font table: last line containing "fcharset", + 2 *)
Fixpoint last_fcharset (lines : list str) (i : nat) (acc : option nat) : option nat :=
  match lines with
  | [] => acc
  | l :: r => last_fcharset r (S i) (if contains (s2l "fcharset") l then Some i else acc)
  end.
Definition find_start_index (lines : list str) : nat :=
  match last_fcharset lines 0 None with Some i => i + 2 | None => 0 end.

Definition new_page_cmd : str := s2l "\page" ++ [10%N].

Fixpoint assemble_parts (files : list (list str)) (first : bool) : list str :=
  match files with
  | [] => []
  | lines :: rest =>
    let start := if first then 0 else find_start_index lines in
    let is_last := match rest with [] => true | _ => false end in
    let stop := if negb is_last && match last_opt lines with Some l => str_eqb (strip l) [125%N] | None => false end
                then length lines - 1 else length lines in
    firstn (stop - start) (skipn start lines)
    ++ (if is_last then [] else [new_page_cmd])
    ++ assemble_parts rest false
  end.

(* None: nothing is written (empty input list) *)
Definition assemble (inputs : list str) : option str :=
  match inputs with
  | [] => None
  | _ => Some (concat_str (assemble_parts (map readlines inputs) true))
  end.
