#!/venv/bin/python
"""./check <property> [quick|thorough] [--replay FILE]

Common flow of every property check (DESIGN.md section 4):
  1. regenerate coq/Gen/Tables.v from /repo/src, rebuild the proof cone of Properties/<P>.vo and
     the extracted driver (full .vo build), capture Print Assumptions;
  2. run the property's correspondence / failing-input search against the implementation;
  3. decide: exit 0, KNOWN-FINDING lines, or VIOLATION property=<P> replay=<file>.
"""
from __future__ import annotations

import importlib
import json
import os
import re
import subprocess
import sys
import time

HERE = os.path.dirname(os.path.abspath(__file__))
VERIF = os.path.dirname(HERE)
sys.path.insert(0, HERE)
os.environ.setdefault("PYTHONHASHSEED", "0")

COQ = os.path.join(VERIF, "coq")
FLAGS = ["-Q", "Base", "V", "-Q", "Rtf", "V", "-Q", "Gen", "V", "-Q", "Model", "V", "-Q", "Proofs", "V",
         "-Q", "Properties", "V", "-Q", "Top", "V"]


def sh(cmd, timeout=3000, cwd=VERIF, env=None):
    p = subprocess.run(cmd, cwd=cwd, stdout=subprocess.PIPE, stderr=subprocess.STDOUT, timeout=timeout,
                       env=env, text=True, errors="replace")
    return p.returncode, p.stdout


def build(pid: str):
    """Returns dict(proof_ok, driver_ok, log, assumptions, obligations).  Builds are serialised across concurrently
    running checks (one make at a time in coq/)."""
    import fcntl

    os.makedirs(os.path.join(VERIF, "work"), exist_ok=True)
    with open(os.path.join(VERIF, "work", ".build.lock"), "w") as lock:
        fcntl.flock(lock, fcntl.LOCK_EX)
        try:
            return _build(pid)
        finally:
            fcntl.flock(lock, fcntl.LOCK_UN)


def _build(pid: str):
    info = {"proof_ok": False, "driver_ok": False, "log": "", "assumptions": [], "obligations": 0,
            "theorems": []}
    for gen in ("gen_tables.py", "gen_advances.py", "gen_example.py"):
        rc, out = sh(["/venv/bin/python", os.path.join(HERE, gen)], env=dict(os.environ, PYTHONPATH="/repo/src"))
        info["log"] += out
        if rc != 0:
            # the model's tables can no longer be regenerated from the source: the theorems would be re-checked against
            # stale tables, so the tie is broken
            info["log"] += f"\n[{gen} failed]\n"
            info["gen_failed"] = (info.get("gen_failed") or "") + f"{gen}: " + out[-1500:] + "\n"
    # driver (model cone) first: needed for the failing-input search even when a proof is broken
    rc, out = sh([os.path.join(VERIF, "build_driver.sh"), "Top/Extract.vo"])
    info["log"] += out
    info["driver_ok"] = rc == 0 and os.path.exists(os.path.join(VERIF, "ocaml", "driver"))
    prop_v = os.path.join(COQ, "Properties", f"{pid}.v")
    if os.path.exists(prop_v):
        rc, out = sh([os.path.join(VERIF, "mk.sh"), f"Properties/{pid}.vo"])
        info["log"] += out
        if rc == 0:
            # re-run coqc on the property file itself to capture Print Assumptions every time
            rc2, out2 = sh(["timeout", "600", "coqc"] + FLAGS + [f"Properties/{pid}.v"], cwd=COQ)
            info["log"] += out2[-4000:]
            info["proof_ok"] = rc2 == 0
            info["assumptions"] = parse_assumptions(out2)
        src = open(prop_v).read()
        info["theorems"] = re.findall(r"^\s*(?:Theorem|Lemma|Corollary|Example)\s+(\w+)", src, re.M)
        info["obligations"] = len(info["theorems"])
    return info


def parse_assumptions(out: str):
    """Print Assumptions output blocks: 'Closed under the global context' or 'Axioms:' + names."""
    res = []
    blocks = re.split(r"(?=Closed under the global context|Axioms:)", out)
    for b in blocks:
        if b.startswith("Closed under"):
            res.append("closed")
        elif b.startswith("Axioms:"):
            names = re.findall(r"^([A-Za-z_][\w.']*)\s*:", b[len("Axioms:"):], re.M)
            res.append("axioms: " + ", ".join(names))
    return res


def grep_gate():
    """No Admitted / admit / Axiom / Parameter / Conjecture / guard switches anywhere in the development."""
    bad = []
    pat = re.compile(r"\b(Admitted|admit|Axiom|Axioms|Parameter|Parameters|Conjecture|Hypothesis|Variable|bypass_check|Unset Guard|type-in-type)\b")
    for root, _d, files in os.walk(COQ):
        for f in files:
            if f.endswith(".v") and not root.endswith("Gen"):
                text = open(os.path.join(root, f)).read()
                text = re.sub(r"\(\*.*?\*\)", "", text, flags=re.S)
                in_section = 0
                for ln, line in enumerate(text.split("\n"), 1):
                    if re.match(r"\s*Section\b", line):
                        in_section += 1
                    if re.match(r"\s*End\b", line) and in_section:
                        in_section -= 1
                    m = pat.search(line)
                    if m:
                        if m.group(1) in ("Variable", "Hypothesis") and in_section:
                            continue
                        bad.append(f"{os.path.relpath(os.path.join(root, f), VERIF)}:{ln}: {line.strip()[:80]}")
    return bad


def load_known(pid: str):
    path = os.path.join(VERIF, "KNOWN_FINDINGS.json")
    if not os.path.exists(path):
        return []
    data = json.load(open(path))
    return [e for e in data.get("findings", []) if e.get("property") == pid and e.get("status") == "open"]


def main(argv):
    if len(argv) < 2:
        print(__doc__)
        return 2
    pid = argv[1]
    tier = os.environ.get("VERIF_TIER", "quick")
    replay = None
    args = argv[2:]
    i = 0
    while i < len(args):
        if args[i] in ("quick", "thorough"):
            tier = args[i]
        elif args[i] == "--replay":
            replay = args[i + 1]
            i += 1
        i += 1
    seed = int(os.environ.get("VERIF_SEED", "0"))
    t0 = time.time()
    os.makedirs(os.path.join(VERIF, "evidence"), exist_ok=True)
    os.makedirs(os.path.join(VERIF, "work", "replays"), exist_ok=True)

    try:
        mod = importlib.import_module(f"props.{pid.lower()}")
    except Exception:  # noqa: BLE001
        import traceback

        _tb = traceback.format_exc()

        class mod:  # noqa: N801  (stands in for the plugin; running it reports the import failure)
            LEVEL = "proof"
            TRUSTED = []
            ASSUMPTIONS = []

            @staticmethod
            def run(_ctx):
                raise RuntimeError("the property plugin could not be imported against the current /repo:\n" + _tb)
    info = build(pid)
    gate = grep_gate()
    known = load_known(pid)

    violations = []      # list of dict(kind, replay_path, note)
    known_hits = []
    cov = {}
    if not info["driver_ok"]:
        rp = write_replay(pid, "model-build", {"what": "the model / extraction no longer builds", "log": info["log"][-3000:]})
        violations.append({"replay": rp, "nofail": True})
    else:
        ctx = {"tier": tier, "seed": seed, "known": known, "replay": replay, "pid": pid}
        try:
            result = mod.run(ctx)
        except Exception:  # noqa: BLE001
            # the correspondence could not be evaluated at all (e.g. the code moved under the harness): the property is
            # no longer shown to hold, and no failing input was found
            import traceback

            result = {"failures": [{"kind": "harness", "name": "harness-crash", "signature": None,
                                    "what": f"the correspondence check corr_{pid} could not be evaluated",
                                    "traceback": traceback.format_exc()[-3000:]}],
                      "coverage": {"evaluations": 0, "distinct_nontrivial": 0, "harness_crash": True}}
        cov = result.get("coverage", {})
        for f in result.get("failures", []):
            # f: dict(kind='holds'|'corr', signature, spec/replay payload, detail)
            matched = match_known(f, known)
            if matched is not None:
                for k in matched:
                    known_hits.append((k, f))
            else:
                rp = write_replay(pid, f.get("name", f["kind"]), f)
                violations.append({"replay": rp, "nofail": f["kind"] != "holds"})
    proof_broken = os.path.exists(os.path.join(COQ, "Properties", f"{pid}.v")) and not info["proof_ok"]
    if proof_broken and not any(not v["nofail"] for v in violations):
        rp = write_replay(pid, "proof", {"what": f"proof obligation Properties/{pid}.v no longer checks",
                                         "theorems": info["theorems"], "log": info["log"][-3000:]})
        violations.append({"replay": rp, "nofail": True})
    if info.get("gen_failed"):
        rp = write_replay(pid, "translator", {"what": "the translator could not regenerate the model's tables from /repo/src; "
                                                      "theorems would be checked against stale tables", "log": info["gen_failed"]})
        violations.append({"replay": rp, "nofail": True})
    if gate:
        rp = write_replay(pid, "gate", {"what": "forbidden declaration in the development", "lines": gate})
        violations.append({"replay": rp, "nofail": True})

    # a concrete failing input takes precedence over no-failing-input-found reports
    concrete = [v for v in violations if not v["nofail"]]
    report = concrete if concrete else violations

    seen = set()
    for k, f in known_hits:
        if k["id"] not in seen:
            seen.add(k["id"])
            print(f"KNOWN-FINDING: property={pid} {k['id']}: {k['what']}")
    for v in report[:5]:
        print(f"VIOLATION property={pid} replay={v['replay']}" + (" no-failing-input-found" if v["nofail"] else ""))

    wall = time.time() - t0
    coverage = {
        "obligations": max(info["obligations"], 1) if info["proof_ok"] else max(info["obligations"], 1),
        "discharged": info["obligations"] if info["proof_ok"] else 0,
        "checker_cmd": f"coqc (Coq 8.16.1) via ./mk.sh Properties/{pid}.vo; Print Assumptions captured per run",
        "trusted_base": TRUSTED_BASE + getattr(mod, "TRUSTED", []),
        "theorems": info["theorems"],
        "print_assumptions": info["assumptions"],
        "grep_gate": "clean" if not gate else gate,
        "known_findings_reproduced": sorted(seen),
    }
    coverage.update(cov)
    if not info["proof_ok"]:
        coverage["discharged"] = 0
    ev = {
        "property_id": pid,
        "tier": tier,
        "seed": seed,
        "level": getattr(mod, "LEVEL", "proof"),
        "coverage": coverage,
        "assumptions": getattr(mod, "ASSUMPTIONS", []),
        "wall_s": round(wall, 2),
        "violations": len(report),
    }
    with open(os.path.join(VERIF, "evidence", f"{pid}.json"), "w") as f:
        json.dump(ev, f, indent=1, default=str)
    return 1 if report else 0


TRUSTED_BASE = [
    "Coq 8.16.1 kernel (coqc); vm_compute used for reflection over finite regenerated tables; no native_compute",
    "translators harness/gen_tables.py (prints the tables it imports from /repo/src; self-checks by parsing its own output back), harness/gen_advances.py (font metrics through Pillow), harness/gen_example.py (dumped state of one real RTFDocument)",
    "extraction: ExtrOcamlBasic only (Extract Inductive bool, option, unit, list, prod, sumbool, sumor; Extract Inlined Constant andb, orb); N, Z, positive, nat, Q stay Coq datatypes; no Extract Constant of ours",
    "OCaml 4.13.1 + ocaml/driver.ml (S-expression reader / report printer)",
    "correspondence harness (Python): generators, spec->rtflite builder, state dumper",
    "modelled, not verified: CPython str/round/int, pydantic coercion, polars row access and null semantics, re (one pattern), Pillow metrics (oracle table per case), binary64 noise at flagged ties",
]


def match_known(f, known):
    """A failure is known only if EVERY signature it carries equals an open entry's signature."""
    sigs = f.get("signatures") or ([f["signature"]] if f.get("signature") else [])
    if not sigs:
        return None
    found = []
    for s in sigs:
        ks = [k for k in known if k.get("signature") == s]
        if not ks:
            return None
        found.append(ks[0])
    return found


_replay_counter = [0]


def write_replay(pid, name, payload):
    _replay_counter[0] += 1
    path = os.path.join(VERIF, "work", "replays", f"{pid}_{name}_{_replay_counter[0]}.json")
    with open(path, "w") as f:
        json.dump(payload, f, indent=1, default=str)
    return path


if __name__ == "__main__":
    sys.exit(main(sys.argv))
