(* One table section: prepare -> paginate -> post-process -> page borders -> render. *)
From Coq Require Import Ascii String.
From Coq Require Import List NArith ZArith QArith Bool Arith.
From V Require Import Str Num Tok Tables Items Doc Broadcast TextConv Encode Paginate GroupBy.
Import ListNotations.
Local Open Scope string_scope.
Local Open Scope list_scope.

(* the (temporary) document a section is encoded against *)
Record secdoc := {
  s_page : page;
  s_title : option textcomp;
  s_subline : option textcomp;
  s_headers : headers;
  s_footnote : option tabletext;
  s_source : option tabletext;
  s_frame : frame;
  s_body : body;
  s_widths : list (str * Q)
}.

Definition opt_list {A} (o : option (list A)) : list A := match o with Some l => l | None => [] end.
Definition nonempty {A} (l : list A) : bool := match l with [] => false | _ => true end.
Definition truthy_s (o : option str) : bool := match o with Some (_ :: _) => true | _ => false end.
Definition truthy_l {A} (o : option (list A)) : bool := match o with Some (_ :: _) => true | _ => false end.

(* ---- A. prepare_dataframe_for_body_encoding ---- *)
Definition removed_names (b : body) : list str :=
  opt_list (b_subline_by b)
  ++ (if negb (b_new_page b) || negb (str_eqb (b_pageby_row b) (s2l "column"))
      then opt_list (b_page_by b) else []).

Definition removed_indices (f : frame) (b : body) : list nat :=
  flat_map (fun n => match index_of n (f_cols f) with Some i => [i] | None => [] end) (removed_names b).

Definition slice_attrs (rows cols : nat) (rem : list nat) (a : attrs) : attrs :=
  let s {A} (o : omat A) := slice_cols rows cols rem o in
  {| a_font := s (a_font a); a_format := s (a_format a); a_size := s (a_size a); a_color := s (a_color a);
     a_bg := s (a_bg a); a_just := s (a_just a); a_ifirst := s (a_ifirst a); a_ileft := s (a_ileft a);
     a_iright := s (a_iright a); a_space := s (a_space a); a_sb := s (a_sb a); a_sa := s (a_sa a);
     a_hyph := s (a_hyph a); a_conv := s (a_conv a);
     a_crw := match a_crw a with
              | Some l => if Nat.eqb (length l) cols then Some (drop_idx rem l) else Some l
              | None => None end;
     a_bl := s (a_bl a); a_br := s (a_br a); a_bt := s (a_bt a); a_bb := s (a_bb a);
     a_bfirst := s (a_bfirst a); a_blast := s (a_blast a);
     a_bcl := s (a_bcl a); a_bcr := s (a_bcr a); a_bct := s (a_bct a); a_bcb := s (a_bcb a);
     a_bcfirst := s (a_bcfirst a); a_bclast := s (a_bclast a);
     a_bw := s (a_bw a); a_ch := s (a_ch a); a_cj := s (a_cj a); a_cvj := s (a_cvj a) |}.

Definition prepare (f : frame) (b : body) : frame * attrs * list nat :=
  match removed_names b with
  | [] => (f, b_attrs b, [])
  | _ =>
    let rem := removed_indices f b in
    let pf := {| f_cols := drop_idx rem (f_cols f); f_rows := map (drop_idx rem) (f_rows f) |} in
    (pf, slice_attrs (length (f_rows f)) (length (f_cols f)) rem (b_attrs b), rem)
  end.

(* ---- calculate_additional_rows_per_page ---- *)
Definition header_has_text (h : option header) : bool :=
  match h with Some x => match h_text x with Some _ => true | None => false end | None => false end.

Definition count_b {A} (p : A -> bool) (l : list A) : Z := Z.of_nat (length (filter p l)).

Definition additional_rows (s : secdoc) : Z :=
  ((if truthy_l (b_subline_by (s_body s)) then 1 else 0)
   + match s_headers s with
     | HFlat l => count_b header_has_text l
     | HNested l => count_b header_has_text (concat l)
     | HNone => 0
     end
   + (match s_footnote s with Some t => if truthy_s (tt_text t) then 1 else 0 | None => 0 end)
   + (match s_source s with Some t => if truthy_s (tt_text t) then 1 else 0 | None => 0 end))%Z.

Definition choose_strategy (b : body) : strategy :=
  if truthy_l (b_subline_by b) then SSubline
  else if truthy_l (b_page_by b) then SPageBy else SDefault.

(* ---- D. paginate ---- *)
Definition paginate (s : secdoc) (pattrs : attrs) (removed : list nat) (cw : list Q) : res (list pagectx) :=
  let b := s_body s in
  let f := s_frame s in
  let st := choose_strategy b in
  let add := additional_rows s in
  do ms <- match st with
           | SDefault => row_metadata (s_widths s) (a_font pattrs) (a_size pattrs) f removed cw None None
           | SPageBy => row_metadata (s_widths s) (a_font pattrs) (a_size pattrs) f removed cw (b_page_by b) None
           | SSubline => row_metadata (s_widths s) (a_font pattrs) (a_size pattrs) f removed cw (b_page_by b) (b_subline_by b)
           end;
  let new_page := match st with SDefault => false | SPageBy => b_new_page b | SSubline => true end in
  let pages := assign_pages (p_nrow (s_page s)) add new_page ms in
  Ok (build_pages f b st pages).

Definition synthetic_page : pagectx :=
  {| pc_num := 1; pc_total := 1; pc_start := 0; pc_len := 0; pc_first := true; pc_last := true;
     pc_needs_header := true; pc_subline := None; pc_pbinfo := None; pc_bounds := []; pc_slice_start := 0 |}.

(* ---- _apply_data_post_processing: re-slice by heights, group_by suppression/restoration ---- *)
Fixpoint set_slice_starts (pages : list pagectx) (cur : nat) : list pagectx :=
  match pages with
  | [] => []
  | p :: r =>
    {| pc_num := pc_num p; pc_total := pc_total p; pc_start := pc_start p; pc_len := pc_len p;
       pc_first := pc_first p; pc_last := pc_last p; pc_needs_header := pc_needs_header p;
       pc_subline := pc_subline p; pc_pbinfo := pc_pbinfo p; pc_bounds := pc_bounds p;
       pc_slice_start := cur |} :: set_slice_starts r (cur + pc_len p)
  end.

Definition post_process (pf : frame) (b : body) (pages : list pagectx) : res (list pagectx * list (list val)) :=
  let pages' := set_slice_starts pages 0 in
  match b_group_by b with
  | Some ((_ :: _) as keys) =>
    let starts := map pc_slice_start (tl pages') in
    do sup <- enhance_group_by (f_cols pf) (f_rows pf) keys;
    Ok (pages', restore_page_context (f_cols pf) keys starts sup (f_rows pf))
  | _ => Ok (pages', f_rows pf)
  end.

Definition page_rows (rows : list (list val)) (p : pagectx) : list (list val) :=
  firstn (pc_len p) (skipn (pc_slice_start p) rows).

(* ---- PageFeatureProcessor ---- *)
Definition should_show (loc : str) (p : pagectx) : bool :=
  if str_eqb loc (s2l "all") then true
  else if str_eqb loc (s2l "first") then pc_first p
  else if str_eqb loc (s2l "last") then pc_last p
  else false.

Definition rebase {A} (start h : nat) (o : omat A) : omat A :=
  match o with
  | Some ((_ :: _ :: _) as v) =>
    let R := length v in
    Some (flat_map (fun i => match nth_error v (Nat.modulo (start + i) R) with Some r => [r] | None => [] end)
                   (seq 0 h))
  | x => x
  end.

Definition rebase_attrs (start h : nat) (a : attrs) : attrs :=
  match start with
  | O => a
  | _ =>
    let s {A} (o : omat A) := rebase start h o in
    {| a_font := s (a_font a); a_format := s (a_format a); a_size := s (a_size a); a_color := s (a_color a);
       a_bg := s (a_bg a); a_just := s (a_just a); a_ifirst := s (a_ifirst a); a_ileft := s (a_ileft a);
       a_iright := s (a_iright a); a_space := s (a_space a); a_sb := s (a_sb a); a_sa := s (a_sa a);
       a_hyph := s (a_hyph a); a_conv := s (a_conv a); a_crw := a_crw a;
       a_bl := s (a_bl a); a_br := s (a_br a); a_bt := s (a_bt a); a_bb := s (a_bb a);
       a_bfirst := s (a_bfirst a); a_blast := s (a_blast a);
       a_bcl := s (a_bcl a); a_bcr := s (a_bcr a); a_bct := s (a_bct a); a_bcb := s (a_bcb a);
       a_bcfirst := s (a_bcfirst a); a_bclast := s (a_bclast a);
       a_bw := s (a_bw a); a_ch := s (a_ch a); a_cj := s (a_cj a); a_cvj := s (a_cvj a) |}
  end.

Definition with_bt (a : attrs) (v : omat str) : attrs :=
  {| a_font := a_font a; a_format := a_format a; a_size := a_size a; a_color := a_color a;
     a_bg := a_bg a; a_just := a_just a; a_ifirst := a_ifirst a; a_ileft := a_ileft a;
     a_iright := a_iright a; a_space := a_space a; a_sb := a_sb a; a_sa := a_sa a;
     a_hyph := a_hyph a; a_conv := a_conv a; a_crw := a_crw a;
     a_bl := a_bl a; a_br := a_br a; a_bt := v; a_bb := a_bb a;
     a_bfirst := a_bfirst a; a_blast := a_blast a;
     a_bcl := a_bcl a; a_bcr := a_bcr a; a_bct := a_bct a; a_bcb := a_bcb a;
     a_bcfirst := a_bcfirst a; a_bclast := a_bclast a;
     a_bw := a_bw a; a_ch := a_ch a; a_cj := a_cj a; a_cvj := a_cvj a |}.

Definition with_bb (a : attrs) (v : omat str) : attrs :=
  {| a_font := a_font a; a_format := a_format a; a_size := a_size a; a_color := a_color a;
     a_bg := a_bg a; a_just := a_just a; a_ifirst := a_ifirst a; a_ileft := a_ileft a;
     a_iright := a_iright a; a_space := a_space a; a_sb := a_sb a; a_sa := a_sa a;
     a_hyph := a_hyph a; a_conv := a_conv a; a_crw := a_crw a;
     a_bl := a_bl a; a_br := a_br a; a_bt := a_bt a; a_bb := v;
     a_bfirst := a_bfirst a; a_blast := a_blast a;
     a_bcl := a_bcl a; a_bcr := a_bcr a; a_bct := a_bct a; a_bcb := a_bcb a;
     a_bcfirst := a_bcfirst a; a_bclast := a_bclast a;
     a_bw := a_bw a; a_ch := a_ch a; a_cj := a_cj a; a_cvj := a_cvj a |}.

Definition blank_mat (h w : nat) : mat str := repeat (repeat ([] : str) w) h.

Definition or_blank (o : omat str) (h w : nat) : mat str :=
  match o with Some ((_ :: _) as v) => v | _ => blank_mat h w end.

(* apply one style to every column of row r *)
Definition fill_row (v : mat str) (h w r : nat) (style : nat -> str) : mat str :=
  fold_left (fun m c => update_cell m h w r c (style c)) (seq 0 w) v.

Definition has_column_headers (hs : headers) : bool :=
  match hs with HFlat l => nonempty l | HNested l => nonempty l | HNone => false end.

(* PageFeatureProcessor._renders_column_header: at least one header row is actually rendered *)
Definition renders_column_header (hs : headers) (as_colheader : bool) : bool :=
  let flat := match hs with HFlat l => l | HNested l => concat l | HNone => [] end in
  existsb (fun o => match o with
                    | Some h => match h_text h with Some _ => true | None => as_colheader end
                    | None => false end) flat.

(* _apply_body_border_first: styles come from the ORIGINAL body attributes, by displayed column index *)
Definition body_border_first_style (orig : attrs) (c : nat) : option str :=
  match a_bfirst orig with
  | Some (bf_row :: _) =>
    let base := match nth_error bf_row c with Some s => Some s | None => nth_error bf_row 0 end in
    match a_bt orig with
    | Some (bt0 :: _) =>
      if Nat.ltb (length bf_row) (length bt0) then
        match nth_error bt0 c with
        | Some ((_ :: _) as s) => Some s
        | _ => base
        end
      else base
    | _ => base
    end
  | _ => None
  end.

Definition tt_shown (o : option tabletext) (loc : str) (p : pagectx) : bool :=
  match o with Some t => truthy_s (tt_text t) && should_show loc p | None => false end.
Definition tt_is_table (o : option tabletext) : bool :=
  match o with Some t => tt_as_table t | None => false end.

Record pageborders := { pb_attrs : attrs; pb_footnote : option str; pb_source : option str }.

Definition process_page (s : secdoc) (pattrs : attrs) (p : pagectx) (w : nat) : pageborders :=
  let h := pc_len p in
  match h with
  | O => {| pb_attrs := pattrs; pb_footnote := None; pb_source := None |}
  | _ =>
    let pg := s_page s in
    let orig := b_attrs (s_body s) in
    let a0 := rebase_attrs (pc_slice_start p) h pattrs in
    let bt0 := or_blank (a_bt a0) h w in
    let bb0 := or_blank (a_bb a0) h w in
    let has_hdr := renders_column_header (s_headers s) (b_as_colheader (s_body s)) in
    let body_bf := match a_bfirst orig with Some (_ :: _) => true | _ => false end in
    (* top edge *)
    let bt1 := if pc_first p && negb has_hdr && truthy_s (p_border_first pg)
               then fill_row bt0 h w 0 (fun _ => match p_border_first pg with Some x => x | None => [] end)
               else bt0 in
    let bt2 := if ((pc_first p && has_hdr) || negb (pc_first p)) && body_bf
               then fill_row bt1 h w 0 (fun c => match body_border_first_style orig c with Some x => x | None => [] end)
               else bt1 in
    (* bottom edge *)
    let fn_here := tt_shown (s_footnote s) (p_footnote pg) p in
    let src_here := tt_shown (s_source s) (p_source pg) p in
    let fn_tab := fn_here && tt_is_table (s_footnote s) in
    let src_tab := src_here && tt_is_table (s_source s) in
    let closed := fn_tab || src_tab in
    let style : option str :=
        if negb (pc_last p)
        then match a_blast orig with
             | Some ((st :: _) :: _) => Some st
             | _ => None
             end
        else if truthy_s (p_border_last pg) then p_border_last pg else None in
    let bb1 := match style with
               | Some st => if closed then bb0 else fill_row bb0 h w (h - 1) (fun _ => st)
               | None => bb0
               end in
    let comp := match style with Some st => if closed then Some st else None | None => None end in
    {| pb_attrs := with_bb (with_bt a0 (Some bt2)) (Some bb1);
       pb_footnote := if src_tab then None else if fn_tab then comp else None;
       pb_source := if src_tab then comp else None |}
  end.

(* ---- PageRenderer ---- *)
Definition geom_of (pg : page) : geom :=
  {| g_w := twip (p_width pg); g_h := twip (p_height pg); g_margins := map twip (p_margin pg) |}.

Definition text_shown (o : option textcomp) : option textcomp :=
  match o with
  | Some t => if truthy_l (tc_text t) then Some t else None
  | None => None
  end.

Definition render_textcomp (ctx : option (list str)) (o : option textcomp) : res (list item) :=
  match text_shown o with
  | Some t => encode_text_line ctx (tc_attrs t) (opt_list (tc_text t))
  | None => Ok []
  end.

(* str(v) for v in group_values if v is not None, joined by ", " *)
Definition subline_text (gv : list (str * val)) : str :=
  join (s2l ", ") (flat_map (fun kv => match snd kv with VNull => [] | v => [py_str v] end) gv).

Definition subline_header_item (gv : list (str * val)) : list item :=
  match subline_text gv with
  | [] => []
  | t => [IPara [ctrl "hyphpar"; ctrlz "fi" 0; ctrlz "li" 0; ctrlz "ri" 0; ctrl "ql"]
                [{| rn_fs := 18; rn_f := 0; rn_cf := None; rn_cb := None; rn_body := lex (escape t) |}]]
  end.

Definition with_bt_bb := with_bt.

(* column headers of one page *)
Definition flat_headers (hs : headers) : list (option header) :=
  match hs with
  | HFlat l => l
  | HNested l => concat (filter nonempty l)
  | HNone => []
  end.

Fixpoint render_headers (ctx : option (list str)) (s : secdoc) (p : pagectx) (page_cols : list str)
         (hs : list (option header)) (i : nat) : res (list item) :=
  match hs with
  | [] => Ok []
  | None :: rest => render_headers ctx s p page_cols rest (S i)
  | Some h :: rest =>
    let text := match h_text h with
                | Some t => Some t
                | None => if b_as_colheader (s_body s) then Some page_cols else None
                end in
    do here <- match text with
               | None => Ok []
               | Some t =>
                 let n := length t in
                 let a := h_attrs h in
                 let a' := if pc_first p && Nat.eqb i 0 && truthy_s (p_border_first (s_page s))
                           then with_bt a (option_map
                                  (fun v => update_row v 1 n 0
                                     (repeat (match p_border_first (s_page s) with Some x => x | None => [] end) n))
                                  (a_bt a))
                           else a in
                 let crw := match a_crw a' with Some ((_ :: _) as l) => l | _ => repeat (1 # 1) n end in
                 table_encode ctx a' (col_widths crw (p_col_width (s_page s))) [map VStr t] 0
               end;
    do more <- render_headers ctx s p page_cols rest (S i);
    Ok (here ++ more)
  end.

(* encode_spanning_row: attributes of body matrix row 0 at the ORIGINAL column index *)
Definition getdef {A} (o : omat A) (c : nat) (d : A) : res A :=
  match o with
  | None => Ok d
  | Some v => of_opt (iloc v 0 c) ValueErr
  end.

Definition spanning_row (ctx : option (list str)) (s : secdoc) (text : str) (col_idx : nat) : res (list item) :=
  let a := b_attrs (s_body s) in
  do font <- getdef (a_font a) col_idx 0%Z;
  do size <- getdef (a_size a) col_idx (18 # 1);
  do fmt <- getdef (a_format a) col_idx [];
  do col <- getdef (a_color a) col_idx [];
  do bg <- getdef (a_bg a) col_idx [];
  do just <- getdef (a_just a) col_idx (s2l "c");
  do i1 <- getdef (a_ifirst a) col_idx 0%Z;
  do i2 <- getdef (a_ileft a) col_idx 0%Z;
  do i3 <- getdef (a_iright a) col_idx 0%Z;
  do sp <- getdef (a_space a) col_idx 1%Z;
  do sb <- getdef (a_sb a) col_idx 15%Z;
  do sa <- getdef (a_sa a) col_idx 15%Z;
  do conv <- getdef (a_conv a) col_idx false;
  do hy <- getdef (a_hyph a) col_idx true;
  do bl <- getdef (a_bl a) col_idx (s2l "single");
  do br <- getdef (a_br a) col_idx (s2l "single");
  do bt <- getdef (a_bt a) col_idx (s2l "single");
  do bb <- getdef (a_bb a) col_idx (s2l "single");
  do vjn <- getdef (a_cvj a) col_idx (s2l "bottom");
  do cjn <- getdef (a_cj a) col_idx (s2l "c");
  do ch <- getdef (a_ch a) col_idx (15 # 100);
  let t := {| t_text := text; t_font := font; t_size := size; t_format := Some fmt; t_color := Some col;
              t_bg := Some bg; t_just := just; t_if := i1; t_il := i2; t_ir := i3; t_space := sp;
              t_sb := sb; t_sa := sa; t_conv := conv; t_hyph := hy |} in
  let border st := do code <- of_opt (code_tokens border_codes st) ValueErr;
                   Ok (Some {| bd_style := code; bd_w := default_border_width; bd_cf := None |}) in
  do pf <- para_fmt t;
  do rn <- text_run ctx t;
  do b1 <- border bl; do b2 <- border bt; do b3 <- border br; do b4 <- border bb;
  do vj <- of_opt (code_tokens vert_codes vjn) OtherErr;
  do rj <- of_opt (code_tokens row_just_codes cjn) ValueErr;
  Ok [IRow {| rw_gaph := Z.div (twip ch) 2; rw_just := rj;
              rw_cells := [{| ce_bl := b1; ce_bt := b2; ce_br := b3; ce_bb := b4; ce_vj := vj;
                              ce_x := twip (p_col_width (s_page s)); ce_pf := pf; ce_run := rn |}] |}].

Definition orig_col_index (s : secdoc) (name : str) : nat :=
  match index_of name (f_cols (s_frame s)) with Some i => i | None => 0 end.

Fixpoint top_headings (ctx : option (list str)) (s : secdoc) (gv : list (str * val)) : res (list item) :=
  match gv with
  | [] => Ok []
  | (k, v) :: rest =>
    do here <- match v with
               | VNull => Ok []
               | _ => spanning_row ctx s (py_str v) (orig_col_index s k)
               end;
    do more <- top_headings ctx s rest;
    Ok (here ++ more)
  end.

Definition spanning_enabled (b : body) : bool :=
  negb (b_new_page b) || negb (str_eqb (b_pageby_row b) (s2l "column")).

Definition lookup_val (k : str) (l : list (str * val)) : option val := assoc k l.

Definition opt_py_str (o : option val) : str := match o with Some v => py_str v | None => s2l "None" end.

Fixpoint update_vals (last new : list (str * val)) : list (str * val) :=
  match new with
  | [] => last
  | (k, v) :: r =>
    let last' := if existsb (fun kv => str_eqb (fst kv) k) last
                 then map (fun kv => if str_eqb (fst kv) k then (k, v) else kv) last
                 else last ++ [(k, v)] in
    update_vals last' r
  end.

(* state update at a boundary (after the repair): a page_by level the new row filters out (a divider) is forgotten,
   the levels it shows are set *)
Definition refresh_vals (keys : list str) (last new : list (str * val)) : list (str * val) :=
  update_vals (filter (fun kv => negb (mem_str (fst kv) keys) || existsb (fun nv => str_eqb (fst nv) (fst kv)) new) last) new.

(* the force_render loop over the page_by columns at one boundary *)
Fixpoint boundary_headings (ctx : option (list str)) (s : secdoc) (keys : list str)
         (new last : list (str * val)) (force : bool) : res (list item) :=
  match keys with
  | [] => Ok []
  | k :: rest =>
    match lookup_val k new with
    | None | Some VNull => boundary_headings ctx s rest new last force
    | Some v =>
      if negb (str_eqb (py_str v) (opt_py_str (lookup_val k last))) || force then
        do here <- spanning_row ctx s (py_str v) (orig_col_index s k);
        do more <- boundary_headings ctx s rest new last true;
        Ok (here ++ more)
      else boundary_headings ctx s rest new last force
    end
  end.

Fixpoint render_segments (ctx : option (list str)) (s : secdoc) (a : attrs) (cw : list Q)
         (rows : list (list val)) (bounds : list (nat * list (str * val)))
         (prev : nat) (last : list (str * val)) : res (list item) :=
  match bounds with
  | [] =>
    if Nat.ltb prev (length rows)
    then table_encode ctx a cw (skipn prev rows) prev
    else Ok []
  | (rel, gv) :: rest =>
    do seg <- (if Nat.ltb prev rel
               then table_encode ctx a cw (firstn (rel - prev) (skipn prev rows)) prev
               else Ok []);
    do heads <- boundary_headings ctx s (opt_list (b_page_by (s_body s))) gv last false;
    do more <- render_segments ctx s a cw rows rest rel (refresh_vals (opt_list (b_page_by (s_body s))) last gv);
    Ok (seg ++ heads ++ more)
  end.

Definition render_tabletext (ctx : option (list str)) (t : tabletext) (W : Q) (border : option str)
  : res (list item) :=
  let a := match border with
           | Some ((_ :: _) as st) => with_bb (tt_attrs t) (Some [[st]])
           | _ => tt_attrs t
           end in
  let text := match tt_text t with Some x => x | None => [] end in
  if tt_as_table t then
    do crw <- of_opt (a_crw a) TypeErr;
    table_encode ctx a (col_widths crw W) [[VStr text]] 0
  else
    encode_text_paragraph ctx a (match text with [] => [] | _ => [text] end).

Definition render_page (ctx : option (list str)) (s : secdoc) (pf : frame) (cw : list Q)
           (rows : list (list val)) (pattrs : attrs) (p : pagectx) : res (list item) :=
  let pg := s_page s in
  let b := s_body s in
  let w := length (f_cols pf) in
  let prow := page_rows rows p in
  let pb := process_page s pattrs p w in
  let brk := if pc_first p then [] else [IBreak (geom_of pg)] in
  do title <- (if should_show (p_title pg) p then render_textcomp ctx (s_title s) else Ok []);
  do subl <- (if should_show (p_title pg) p then render_textcomp ctx (s_subline s) else Ok []);
  let slh := match pc_subline p with Some gv => subline_header_item gv | None => [] end in
  do hdr <- (if pc_needs_header p && has_column_headers (s_headers s)
             then render_headers ctx s p (f_cols pf) (flat_headers (s_headers s)) 0 else Ok []);
  do tops <- (match pc_pbinfo p with
              | Some gv => if spanning_enabled b then top_headings ctx s gv else Ok []
              | None => Ok []
              end);
  do bodyi <- (if nonempty (pc_bounds p) && spanning_enabled b
               then render_segments ctx s (pb_attrs pb) cw prow (pc_bounds p) 0
                                    (match pc_pbinfo p with Some gv => gv | None => [] end)
               else table_encode ctx (pb_attrs pb) cw prow 0);
  do fn <- (match s_footnote s with
            | Some t => if tt_shown (s_footnote s) (p_footnote pg) p
                        then render_tabletext ctx t (p_col_width pg) (pb_footnote pb) else Ok []
            | None => Ok []
            end);
  do src <- (match s_source s with
             | Some t => if tt_shown (s_source s) (p_source pg) p
                         then render_tabletext ctx t (p_col_width pg) (pb_source pb) else Ok []
             | None => Ok []
             end);
  Ok (brk ++ title ++ subl ++ slh ++ hdr ++ tops ++ bodyi ++ fn ++ src).

(* ---- _encode_body_section ---- *)
Definition section_pages (s : secdoc) : res (frame * attrs * list Q * list pagectx * list (list val)) :=
  let '(pf, pattrs, rem) := prepare (s_frame s) (s_body s) in
  let W := p_col_width (s_page s) in
  let cw := match a_crw pattrs with
            | Some ((_ :: _) as l) => col_widths l W
            | _ => col_widths (repeat (1 # 1) (length (f_cols pf))) W
            end in
  do pages0 <- paginate s pattrs rem cw;
  let pages1 := match pages0 with [] => [synthetic_page] | _ => pages0 end in
  do pp <- post_process pf (s_body s) pages1;
  let '(pages, rows) := pp in
  Ok (pf, pattrs, cw, pages, rows).

Fixpoint render_pages (ctx : option (list str)) (s : secdoc) (pf : frame) (cw : list Q)
         (rows : list (list val)) (pattrs : attrs) (pages : list pagectx) : res (list (list item)) :=
  match pages with
  | [] => Ok []
  | p :: rest =>
    do x <- render_page ctx s pf cw rows pattrs p;
    do xs <- render_pages ctx s pf cw rows pattrs rest;
    Ok (x :: xs)
  end.

Definition encode_section (ctx : option (list str)) (s : secdoc) : res (list (list item)) :=
  do sp <- section_pages s;
  let '(pf, pattrs, cw, pages, rows) := sp in
  render_pages ctx s pf cw rows pattrs pages.

(* ---- ambiguity flags: exact ties where binary64 noise decides the implementation's result ---- *)
Fixpoint row_tie (widths : list (str * Q)) (fonts : omat Z) (sizes : omat Q) (row_idx : nat)
         (removed : list nat) (cw : list Q)
         (row : list val) (col_idx width_idx : nat) : bool :=
  match row with
  | [] => false
  | v :: rest =>
    if existsb (Nat.eqb col_idx) removed then row_tie widths fonts sizes row_idx removed cw rest (S col_idx) width_idx
    else
      match nth_error cw width_idx with
      | None => false
      | Some cur =>
        let prev := match width_idx with O => 0 # 1 | S k => nth k cw (0 # 1) end in
        match (do font <- cell_font fonts row_idx width_idx;
               do size <- cell_size sizes row_idx width_idx;
               width_at widths (display v) font size) with
        | Ok tw => (negb (Qeqb tw (0 # 1)) && is_int_tie (tw / (cur - prev)))
                   || row_tie widths fonts sizes row_idx removed cw rest (S col_idx) (S width_idx)
        | Err _ => row_tie widths fonts sizes row_idx removed cw rest (S col_idx) (S width_idx)
        end
      end
  end.

Definition heading_tie (s : secdoc) (cw : list Q) (keys : option (list str)) (row : list val) : bool :=
  match keys with
  | Some ((_ :: _) as k) =>
    match width_of (s_widths s) (heading_text (f_cols (s_frame s)) k row) with
    | Ok tw => negb (Qeqb tw (0 # 1)) && is_int_tie (tw / qsum cw)
    | Err _ => false
    end
  | _ => false
  end.

Definition section_tie (s : secdoc) : bool :=
  let '(pf, pattrs, rem) := prepare (s_frame s) (s_body s) in
  let W := p_col_width (s_page s) in
  let cw := match a_crw pattrs with
            | Some ((_ :: _) as l) => col_widths l W
            | _ => col_widths (repeat (1 # 1) (length (f_cols pf))) W
            end in
  any_b (fun ir => let '(i, row) := ir in
                   row_tie (s_widths s) (a_font pattrs) (a_size pattrs) i rem cw row 0 0
                   || heading_tie s cw (b_page_by (s_body s)) row
                   || heading_tie s cw (b_subline_by (s_body s)) row)
        (combine (seq 0 (length (f_rows (s_frame s)))) (f_rows (s_frame s)))
  || any_b (fun c => is_half_tie (c * (1440 # 1))) cw.

(* the one data-dependent refusal: group_by keys that are not contiguous *)
Definition section_gb_bad (s : secdoc) : bool :=
  let '(pf, _, _) := prepare (s_frame s) (s_body s) in
  match b_group_by (s_body s), f_rows pf with
  | Some ((_ :: _) as keys), _ :: _ =>
    all_b (fun k => mem_str k (f_cols pf)) keys && negb (sorting_ok (f_cols pf) (f_rows pf) keys)
  | _, _ => false
  end.
