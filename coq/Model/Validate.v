(* C19: construction-time validation — legal sets per field kind, acceptance of a raw value in any shape. *)
From Coq Require Import Ascii String.
From Coq Require Import List NArith ZArith QArith Bool.
From V Require Import Str Num Tables Doc.
Import ListNotations.
Local Open Scope string_scope.
Local Open Scope list_scope.

Inductive vkind :=
| KBorder | KColor | KFont | KFormat | KJust | KRowJust | KVert | KOrient | KPlace | KPositive
| KPagebyRow | KFigAlign | KFigPos.

Inductive rawv := RStr (s : str) | RNum (q : Q).

Definition key_in (tbl : list (str * str)) (s : str) : bool :=
  match assoc s tbl with Some _ => true | None => false end.

Definition one_of (l : list string) (s : str) : bool := mem_str s (map s2l l).

Definition legal (k : vkind) (v : rawv) : bool :=
  match k, v with
  | KBorder, RStr s => key_in border_codes s
  | KColor, RStr s => match s with [] => true | _ => match assoc s color_table with Some _ => true | None => false end end
  | KFont, RNum q => Pos.eqb (Qden (Qred q)) 1 && existsb (fun e => Z.eqb (fst e) (Qnum (Qred q))) font_table
  | KFormat, RStr s => all_b (fun c => key_in format_codes [c]) s
  | KJust, RStr s => key_in text_just_codes s
  | KRowJust, RStr s => key_in row_just_codes s
  | KVert, RStr s => key_in vert_codes s
  | KOrient, RStr s => one_of ["portrait"; "landscape"] s
  | KPlace, RStr s => one_of ["first"; "last"; "all"] s
  | KPositive, RNum q => Z.ltb 0 (Qnum q)
  | KPagebyRow, RStr s => one_of ["column"; "first_row"] s
  | KFigAlign, RStr s => one_of ["left"; "center"; "right"] s
  | KFigPos, RStr s => one_of ["before"; "after"] s
  | _, _ => false
  end.

(* a field value in any shape (scalar, vector, matrix) is accepted iff every entry is legal *)
Definition accepts (k : vkind) (flat : list rawv) : bool := all_b (legal k) flat.

(* structural rules of construction *)
Definition margin_ok (l : list Q) : bool := Nat.eqb (length l) 6.
Definition new_page_ok (page_by : option (list str)) (new_page : bool) : bool :=
  match page_by with None => negb new_page | Some _ => true end.
Definition columns_ok (cols : list str) (keys : option (list str)) : bool :=
  match keys with Some l => all_b (fun k => mem_str k cols) l | None => true end.
Definition content_ok (has_df has_figure : bool) : bool := xorb has_df has_figure.
Definition sections_ok (ndf nbody : nat) (nheaders : option nat) : bool :=
  Nat.eqb ndf nbody && match nheaders with Some n => Nat.eqb n ndf | None => true end.
