"""C16: figures are embedded byte-exactly, one per page, at the configured size."""
import rt

from . import common

TRUSTED = ["C16 predicate check_c16 (Model/Checks.v): payload decoded by Figure.unhex; pixel dimensions compared with the values the GENERATOR wrote into the image header (not with the model's parser)"]
ASSUMPTIONS = ["pixel dimensions are read from PNG / JPEG headers; EMF falls back to 96 dpi of the display size, as the mechanism anchor says"]


_GRID = []


def generate(g, i):
    if i < len(_GRID):
        return _GRID[i]
    return g.figure()


def extra_fn(spec, doc, ok, out):
    items = []
    for f in spec["figure"]["files"]:
        has = f["kind"] in ("png", "jpeg")
        items.append(rt.sx_list([rt.sx_bool(has), rt.sx_list([str(f["w"] if has else 0), str(f["h"] if has else 0)])]))
    return rt.sx_list(items)


def run(ctx):
    import gen

    _GRID[:] = gen.DocGen(ctx["seed"] + 1616).figure_grid(ctx["tier"] == "quick")
    return common.run_docprop(ctx, "c16", generate, None, extra_fn=extra_fn, n_quick=120 + len(_GRID), n_thorough=1500 + len(_GRID), shrink_steps=40)
