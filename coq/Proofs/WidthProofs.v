(* K4 / C08: cumulative column boundaries end at the table width; rounding stays within half a twip. *)
From Coq Require Import List ZArith QArith Qabs Qround Lia Lqa Bool.
From V Require Import Str Num Doc Encode.
Import ListNotations.
Local Open Scope Q_scope.

(* ---- rounding ---- *)
Lemma rhe_cases (q : Q) :
  let n := Qnum q in let d := Zpos (Qden q) in let f := (n / d)%Z in
  (round_half_even q = f /\ (2 * (n - f * d) <= d)%Z) \/ (round_half_even q = (f + 1)%Z /\ (d <= 2 * (n - f * d))%Z).
Proof.
  cbv zeta. unfold round_half_even.
  destruct (2 * (Qnum q - Qnum q / Z.pos (Qden q) * Z.pos (Qden q)) <? Z.pos (Qden q))%Z eqn:E1.
  - left. split; [reflexivity|]. apply Z.ltb_lt in E1. lia.
  - apply Z.ltb_ge in E1.
    destruct (Z.pos (Qden q) <? 2 * (Qnum q - Qnum q / Z.pos (Qden q) * Z.pos (Qden q)))%Z eqn:E2.
    + right. split; [reflexivity|]. exact E1.
    + apply Z.ltb_ge in E2. destruct (Z.even (Qnum q / Z.pos (Qden q))).
      * left. split; [reflexivity|exact E2].
      * right. split; [reflexivity|exact E1].
Qed.

(* |round(q) - q| <= 1/2, as an inequality between integers: 2*|round(q)*d - n| <= d *)
Theorem round_half_even_close (q : Q) :
  (2 * Z.abs (round_half_even q * Zpos (Qden q) - Qnum q) <= Zpos (Qden q))%Z.
Proof.
  pose proof (rhe_cases q) as H. cbv zeta in H.
  pose proof (Z.div_mod (Qnum q) (Zpos (Qden q)) ltac:(lia)) as D.
  pose proof (Z.mod_pos_bound (Qnum q) (Zpos (Qden q)) ltac:(lia)) as B.
  set (n := Qnum q) in *. set (d := Zpos (Qden q)) in *. set (f := (n / d)%Z) in *.
  assert (Hr : (n - f * d = n mod d)%Z) by lia.
  destruct H as [[-> H] | [-> H]]; lia.
Qed.

(* the same fact in Q *)
Corollary twip_within_half (q : Q) : Qabs ((round_half_even q # 1) - q) <= 1 # 2.
Proof.
  pose proof (round_half_even_close q) as H.
  destruct q as [n d]. cbn [Qnum Qden] in H.
  unfold Qabs, Qminus, Qplus, Qopp, Qle. cbn [Qnum Qden].
  set (r := round_half_even (n # d)) in *.
  rewrite Z.mul_1_r. 
  replace (r * Z.pos d + - n * 1)%Z with (r * Z.pos d - n)%Z by lia.
  rewrite Pos2Z.inj_mul. lia.
Qed.

(* ---- cumulative boundaries ---- *)
Lemma qsum_eq (l : list Q) : qsum l == fold_right Qplus 0 l.
Proof.
  induction l as [|x l IH]; cbn [qsum fold_right]; [reflexivity|].
  pose proof (Qred_correct (x + qsum l)) as E. rewrite E. rewrite IH. reflexivity.
Qed.

Lemma cumul_last acc rel W T x :
  last_opt (cumul acc rel W T) = Some x -> ~ T == 0 ->
  x == acc + fold_right Qplus 0 rel * W / T.
Proof.
  revert acc x; induction rel as [|w rel IH]; intros acc x H HT; [discriminate|].
  pose proof (Qred_correct (acc + w * W / T)) as E.
  destruct rel as [|w' rel'].
  - cbn [cumul last_opt] in H. inversion H; subst. rewrite E. cbn [fold_right]. field. exact HT.
  - assert (H' : last_opt (cumul (Qred (acc + w * W / T)) (w' :: rel') W T) = Some x).
    { cbn [cumul last_opt] in H. cbn [cumul]. exact H. }
    pose proof (IH _ _ H' HT) as K. rewrite K. rewrite E. cbn [fold_right]. field. exact HT.
Qed.

(* the last boundary of a row is exactly the table width *)
Theorem col_widths_last rel W x :
  last_opt (col_widths rel W) = Some x -> ~ qsum rel == 0 -> x == W.
Proof.
  intros H HT. unfold col_widths in H.
  pose proof (cumul_last _ _ _ _ _ H HT) as K. rewrite K.
  pose proof (qsum_eq rel) as E. rewrite <- E. field. exact HT.
Qed.

Lemma cumul_length acc rel W T : length (cumul acc rel W T) = length rel.
Proof.
  revert acc; induction rel as [|w rel IH]; intros acc; cbn [cumul length]; [reflexivity|].
  f_equal. apply IH.
Qed.

Lemma col_widths_length rel W : length (col_widths rel W) = length rel.
Proof. unfold col_widths. apply cumul_length. Qed.

(* ---- rounding respects equality of rationals, so equal widths give equal \cellx ---- *)
Lemma div_cross (n p : Z) (d q : positive) :
  (n * Zpos q = p * Zpos d)%Z -> (n / Zpos d = p / Zpos q)%Z.
Proof.
  intro H.
  assert (H1 : (n * Zpos q / (Zpos d * Zpos q) = n / Zpos d)%Z) by (apply Z.div_mul_cancel_r; lia).
  assert (H2 : (p * Zpos d / (Zpos q * Zpos d) = p / Zpos q)%Z) by (apply Z.div_mul_cancel_r; lia).
  rewrite <- H1, <- H2. rewrite H. f_equal. lia.
Qed.

Theorem round_half_even_Qeq (a b : Q) : a == b -> round_half_even a = round_half_even b.
Proof.
  destruct a as [n d], b as [p q]. unfold Qeq. cbn [Qnum Qden]. intro H.
  unfold round_half_even. cbn [Qnum Qden].
  rewrite <- (div_cross n p d q H).
  set (f := (n / Zpos d)%Z).
  assert (E1 : (2 * (n - f * Zpos d) <? Zpos d)%Z = (2 * (p - f * Zpos q) <? Zpos q)%Z).
  { apply Bool.eq_iff_eq_true. rewrite !Z.ltb_lt. split; intro K; nia. }
  assert (E2 : (Zpos d <? 2 * (n - f * Zpos d))%Z = (Zpos q <? 2 * (p - f * Zpos q))%Z).
  { apply Bool.eq_iff_eq_true. rewrite !Z.ltb_lt. split; intro K; nia. }
  rewrite E1, E2. reflexivity.
Qed.

Corollary twip_Qeq a b : a == b -> twip a = twip b.
Proof. intro H. unfold twip. apply round_half_even_Qeq. rewrite H. reflexivity. Qed.

(* every row rendered with widths col_widths rel W ends at twip W: data rows, headers, footnote/source *)
Theorem right_edge rel W x :
  last_opt (col_widths rel W) = Some x -> ~ qsum rel == 0 -> twip x = twip W.
Proof. intros H HT. apply twip_Qeq. exact (col_widths_last rel W x H HT). Qed.
