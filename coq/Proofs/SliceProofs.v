(* C02 kernels: page slices partition the rows; rendering by segments equals rendering the whole page. *)
From Coq Require Import List NArith ZArith QArith Bool Arith Lia.
From V Require Import Str Num Tok Items Doc Broadcast Encode Paginate Pipeline.
Import ListNotations.
Local Open Scope nat_scope.

Lemma firstn_app_skipn {A} (a b : nat) (l : list A) :
  firstn a l ++ firstn b (skipn a l) = firstn (a + b) l.
Proof.
  revert l; induction a as [|a IH]; intros l; cbn; [reflexivity|].
  destruct l as [|x l]; cbn; [destruct b; reflexivity|]. f_equal. apply IH.
Qed.

Lemma skipn_skipn {A} (a b : nat) (l : list A) : skipn a (skipn b l) = skipn (b + a) l.
Proof.
  revert l; induction b as [|b IH]; intros l; cbn; [reflexivity|].
  destruct l as [|x l]; cbn; [destruct a; reflexivity|]. apply IH.
Qed.

Definition sum_lens (pages : list pagectx) : nat := fold_right (fun p acc => (pc_len p + acc)%nat) 0%nat pages.

(* _apply_data_post_processing re-slices the processed frame by cumulative heights: the slices of all
   pages, concatenated in page order, are exactly the first (sum of heights) rows *)
Lemma slices_concat rows pages c :
  concat (map (page_rows rows) (set_slice_starts pages c)) = firstn (sum_lens pages) (skipn c rows).
Proof.
  revert c; induction pages as [|p pages IH]; intros c; cbn [set_slice_starts map concat sum_lens fold_right].
  - reflexivity.
  - unfold page_rows at 1. cbn [pc_len pc_slice_start]. rewrite IH.
    change (fold_right (fun p acc => (pc_len p + acc)%nat) 0%nat pages) with (sum_lens pages).
    rewrite <- (firstn_app_skipn (pc_len p) (sum_lens pages) (skipn c rows)).
    rewrite skipn_skipn. reflexivity.
Qed.

Theorem slices_partition rows pages :
  sum_lens pages = length rows ->
  concat (map (page_rows rows) (set_slice_starts pages 0)) = rows.
Proof.
  intro H. rewrite slices_concat. cbn [skipn]. rewrite H. apply firstn_all.
Qed.

(* rendering a block of rows in two segments (with the row offset carried along) gives the same rows
   as rendering it at once: the [prev, boundary) segments and the tail of _render_body cover the page *)
Lemma encode_rows_app ctx a cw r1 r2 off :
  encode_rows ctx a cw (r1 ++ r2) off =
  match encode_rows ctx a cw r1 off with
  | Ok x => match encode_rows ctx a cw r2 (off + length r1) with
            | Ok y => Ok (x ++ y)
            | Err e => Err e
            end
  | Err e => Err e
  end.
Proof.
  revert off; induction r1 as [|v r1 IH]; intros off; cbn [app encode_rows length].
  - rewrite Nat.add_0_r. destruct (encode_rows ctx a cw r2 off); reflexivity.
  - unfold bind. destruct (encode_row ctx a cw v off) as [x|e]; [|reflexivity].
    rewrite IH. replace (S off + length r1) with (off + S (length r1)) by lia.
    destruct (encode_rows ctx a cw r1 (S off)) as [xs|e]; [|reflexivity].
    destruct (encode_rows ctx a cw r2 (off + S (length r1))) as [ys|e]; reflexivity.
Qed.

Lemma encode_rows_length ctx a cw rows off out :
  encode_rows ctx a cw rows off = Ok out -> length out = length rows.
Proof.
  revert off out; induction rows as [|v rows IH]; intros off out H; cbn [encode_rows] in H.
  - inversion H; reflexivity.
  - unfold bind in H. destruct (encode_row ctx a cw v off); [|discriminate].
    destruct (encode_rows ctx a cw rows (S off)) eqn:E; [|discriminate].
    inversion H; subst. cbn. f_equal. eapply IH; exact E.
Qed.

(* one rendered row has exactly one cell per frame value, in order *)
Lemma encode_cells_length ctx a cw n vals r j out :
  encode_cells ctx a cw n vals r j = Ok out -> length out = length vals.
Proof.
  revert j out; induction vals as [|v vals IH]; intros j out H; cbn [encode_cells] in H.
  - inversion H; reflexivity.
  - unfold bind in H.
    repeat match type of H with
           | match ?x with _ => _ end = _ => destruct x eqn:?; try discriminate
           end.
    inversion H; subst. cbn. f_equal. eapply IH; eassumption.
Qed.

(* column removal keeps the remaining columns in their original order *)
Lemma drop_idx_from_sub {A} (rem : list nat) (l : list A) i :
  exists keep : list bool, length keep = length l /\
    drop_idx_from i rem l = map snd (filter fst (combine keep l)).
Proof.
  revert i; induction l as [|x l IH]; intros i; cbn [drop_idx_from].
  - exists []; split; reflexivity.
  - destruct (IH (S i)) as (k & Hk & E).
    destruct (existsb (Nat.eqb i) rem).
    + exists (false :: k); split; [cbn; lia|]. cbn. exact E.
    + exists (true :: k); split; [cbn; lia|]. cbn. f_equal. exact E.
Qed.
