"""C03: no page exceeds the nrow row budget."""
import math

import gen
import rt
from rtflite.attributes import BroadcastValue
from rtflite.row import Utils
from rtflite.strwidth import get_string_width

from . import common
from .c04 import sized_text

TRUSTED = ["C03 predicate check_c03 (Model/Checks.v): rows by role per parsed page; data rows weighted by an independent line lower bound computed by the harness from get_string_width at the cell's own font / size / column width"]
ASSUMPTIONS = ["footnote / source table rows and heading rows count one line each (a lower bound)"]

CAUSES = {1: "c03-auto-header-unreserved", 2: "c03-heading-rows-underbudgeted", 4: "c03-cell-font-size-ignored"}


def line_bounds(spec, doc):
    """Per data row: max over displayed cells of ceil(width at the cell's own font and size / column width)."""
    df = doc.df
    body = doc.rtf_body
    removed = set(body.subline_by or [])
    if body.page_by and (not body.new_page or body.pageby_row != "column"):
        removed.update(body.page_by)
    kept = [i for i, c in enumerate(df.columns) if c not in removed]
    rel = body.col_rel_width
    rel = [rel[i] for i in kept] if len(rel) == len(df.columns) else rel
    cum = Utils._col_widths(rel, doc.rtf_page.col_width)
    widths = [c - (cum[j - 1] if j else 0.0) for j, c in enumerate(cum)]
    fonts = BroadcastValue(value=body.text_font)
    sizes = BroadcastValue(value=body.text_font_size)
    out = []
    for r, row in enumerate(df.rows()):
        lines = 1
        for j, ci in enumerate(kept):
            v = row[ci]
            text = "" if v is None else str(v)
            if not text:
                continue
            w = get_string_width(text, font=fonts.iloc(r, ci), font_size=sizes.iloc(r, ci))
            # a lower bound: stay clear of float noise at exact multiples
            lines = max(lines, math.ceil(w / widths[j] - 1e-9))
        out.append(lines)
    return out


def extra_fn(spec, doc, ok, out):
    if not ok:
        return "()"
    return rt.sx_list(str(x) for x in line_bounds(spec, doc))


def directed(g):
    """Shapes the random stream rarely produces: uniform multi-line rows; one text repeated under different sizes."""
    r = g.r
    W = 6.0
    n = r.randint(4, 12)
    k = r.random()
    if k < 0.4:
        # footnote AND source rendered as table rows under every placement combination, explicit header: every reservation is in play
        nrow = r.randint(4, 8)
        n = max(1, nrow - 3 + r.randint(0, 3)) if r.random() < 0.6 else r.randint(2, 14)   # often right at the page capacity
        rows = [[f"#{i}#", r.choice(["a", "b", ""])] for i in range(n)]
        return {"df": {"cols": ["id", "c0"], "rows": rows}, "body": {},
                "page": {"nrow": nrow, "col_width": W, "page_footnote": r.choice(["first", "last", "all"]),
                         "page_source": r.choice(["first", "last", "all"])},
                "headers": [{"text": ["H id", "H c0"]}], "footnote": {"text": ["F note"], "as_table": True},
                "source": {"text": ["R src"], "as_table": True}, "kind": "single", "strategy": "plain", "header_mode": "explicit"}
    if k < 0.7:
        h = r.choice([2, 2, 3, 4])
        cw = W / 2
        rows = [[sized_text(r, cw, h, f"#{i}#"), r.choice(["a", "b", ""])] for i in range(n)]
        spec = {"df": {"cols": ["id", "c0"], "rows": rows}, "body": {}, "page": {"nrow": r.randint(h + 2, 3 * h + 4), "col_width": W},
                "headers": [{"text": ["H id", "H c0"]}], "kind": "single", "strategy": "plain", "header_mode": "explicit"}
    else:
        cw = W / 3
        rows = []
        for i in range(n):
            t = sized_text(r, cw, 1, r.choice(["mean", "dose", "visit"]))
            rows.append([f"#{i}#", t, t])
        small, large = r.choice([(8, 20), (9, 24), (6, 16)])
        if r.random() < 0.5:
            sizes = [[9, small, large]]                      # per column: the small occurrence is measured first
        else:
            sizes = [[9, small, small] if i % 2 == 0 else [9, large, large] for i in range(n)]   # per row
        spec = {"df": {"cols": ["id", "c0", "c1"], "rows": rows}, "body": {"text_font_size": sizes},
                "page": {"nrow": r.randint(4, 10), "col_width": W}, "headers": [{"text": ["H id", "H c0", "H c1"]}],
                "kind": "single", "strategy": "plain", "header_mode": "explicit"}
    return spec


def edge_grid():
    """Deterministic: footnote / source tables under all nine placement pairs, row counts around the page capacity."""
    out = []
    for nrow in (5, 7):
        for pf in ("first", "last", "all"):
            for ps in ("first", "last", "all"):
                for n in (nrow - 3, nrow - 2, nrow - 1, 2 * nrow - 5):
                    rows = [[f"#{i}#", "a"] for i in range(n)]
                    out.append({"df": {"cols": ["id", "c0"], "rows": rows}, "body": {},
                                "page": {"nrow": nrow, "col_width": 6.0, "page_footnote": pf, "page_source": ps},
                                "headers": [{"text": ["H id", "H c0"]}], "footnote": {"text": ["F note"], "as_table": True},
                                "source": {"text": ["R src"], "as_table": True}, "kind": "single", "strategy": "plain",
                                "header_mode": "explicit"})
    # one text repeated in equal-width cells under different font sizes (smaller occurrence first), so that a line count
    # remembered per text would be wrong for the larger occurrence
    import random as _random

    rr = _random.Random(3)
    for small, large in ((8, 20), (9, 24), (6, 16)):
        for per_column in (True, False):
            for nrow in (5, 8):
                n = 8
                cw = 6.0 / 3
                rows = []
                for i in range(n):
                    t = sized_text(rr, cw, 1, ["mean", "dose", "visit"][i % 3])
                    rows.append([f"#{i}#", t, t])
                sizes = [[9, small, large]] if per_column else [[9, small, small] if i % 2 == 0 else [9, large, large] for i in range(n)]
                out.append({"df": {"cols": ["id", "c0", "c1"], "rows": rows}, "body": {"text_font_size": sizes},
                            "page": {"nrow": nrow, "col_width": 6.0}, "headers": [{"text": ["H id", "H c0", "H c1"]}],
                            "kind": "single", "strategy": "plain", "header_mode": "explicit"})
    out.extend(wide_glyph_docs())
    return out


def wide_glyph_docs():
    """Rows whose cell is a short run of one wide glyph (several are wider than one em) just over the column width: two
    lines each although the character count is small."""
    out = []
    cw = 3.0
    for font, size, ch in ((1, 9, "\u042e"), (1, 9, "\u01c4"), (1, 10, "\u0460"), (4, 9, "@"), (4, 10, "\u2116"), (9, 12, "W"),
                           (1, 12, "\u2014"), (8, 9, "\u00bd"), (1, 9, "\u2030"), (4, 9, "M")):
        n = 1
        while get_string_width(ch * n, font=font, font_size=size) < 1.2 * cw and n < 400:
            n += 1
        rows = [[f"#{i}#", ch * n] for i in range(12)]
        out.append({"df": {"cols": ["id", "c0"], "rows": rows}, "body": {"text_font": font, "text_font_size": size},
                    "page": {"nrow": 10, "col_width": 2 * cw}, "headers": [{"text": ["H id", "H c0"]}],
                    "kind": "single", "strategy": "plain", "header_mode": "explicit"})
    return out


_GRID = edge_grid()


def generate(g, i):
    r = g.r
    if i < len(_GRID):
        return _GRID[i]
    if r.random() < 0.2:
        return directed(g)
    strategy = r.choice(["plain", "plain", "page_by", "page_by", "subline", "subline+page_by"])
    nrows = r.choice([0, 1, 3, 6, 10, 18, 30, 60])
    hmode = r.choice(["default", "explicit", "multi", "none", "no_colheader"])
    spec = g.single(strategy=strategy, nrows=nrows, header_mode=hmode)
    spec["body"].pop("group_by", None)
    spec["page"]["nrow"] = r.choice([1, 2, 3, 4, 5, 7, 10, 15, 24, 50])
    body = spec["body"]
    ncol = len(spec["df"]["cols"])
    for k in ("text_font", "text_font_size"):
        body.pop(k, None)
    if r.random() < 0.4:
        body["text_font"] = gen.shape_value(r, nrows, ncol, lambda: r.randint(1, 10))
    if r.random() < 0.4:
        body["text_font_size"] = gen.shape_value(r, nrows, ncol, lambda: r.choice([6, 8, 9, 10, 12, 16, 24]))
    # some rows with engineered heights 1..6 in the id column
    if nrows and r.random() < 0.6 and "id" in spec["df"]["cols"]:
        j = spec["df"]["cols"].index("id")
        ndisp = max(1, ncol - len([c for c in spec["df"]["cols"] if c.startswith(("g", "s"))]))
        cw = spec["page"].get("col_width", 6.25) / ndisp
        for row_i, row in enumerate(spec["df"]["rows"]):
            if r.random() < 0.4:
                row[j] = sized_text(r, cw, r.randint(1, 6), f"#{row_i}#")
    return spec


def signature(spec, result):
    codes = [int(x) for x in result.get("codes", "").split(",") if x]
    if not codes or max(codes) >= 100 or result.get("clause") in ("8", "9"):
        return None
    mask = 0
    for c in codes:
        mask |= c
    return [CAUSES[b] for b in (1, 2, 4) if mask & b] or None


def run(ctx):
    common.TIE_EXCUSES["value"] = True
    return common.run_docprop(ctx, "c03", generate, signature, extra_fn=extra_fn, n_quick=295, n_thorough=4000,
                              shrink_steps=120)
