(* C17: the line-level structure of assemble_rtf's output for files of the shape rtflite writes. *)
From Coq Require Import Ascii String.
From Coq Require Import List NArith ZArith Bool Arith Lia.
From V Require Import Str Assemble.
Import ListNotations.
Local Open Scope nat_scope.

(* a file as rtflite writes it: preamble lines, the last font-table line, the line closing the font table,
   body lines, and a final line holding the closing brace *)
Record rfile := { rf_pre : list str; rf_fontlast : str; rf_close : str; rf_body : list str; rf_last : str }.

Definition file_lines (r : rfile) : list str :=
  rf_pre r ++ [rf_fontlast r; rf_close r] ++ rf_body r ++ [rf_last r].

Definition fc : str := s2l "fcharset".

Definition rfile_ok (r : rfile) : Prop :=
  contains fc (rf_fontlast r) = true
  /\ contains fc (rf_close r) = false
  /\ Forall (fun l => contains fc l = false) (rf_body r)
  /\ contains fc (rf_last r) = false
  /\ str_eqb (strip (rf_last r)) [125%N] = true.

Lemma last_fcharset_none lines i acc :
  Forall (fun l => contains fc l = false) lines -> last_fcharset lines i acc = acc.
Proof.
  intro H. revert i acc. induction H as [|l lines Hl _ IH]; intros i acc; cbn [last_fcharset]; [reflexivity|].
  unfold fc in Hl. rewrite Hl. apply IH.
Qed.

Lemma last_fcharset_app a x b i acc :
  contains fc x = true -> Forall (fun l => contains fc l = false) b ->
  last_fcharset (a ++ x :: b) i acc = Some (i + length a).
Proof.
  intros Hx Hb. revert i acc. induction a as [|y a IH]; intros i acc; cbn [app last_fcharset length].
  - unfold fc in Hx. rewrite Hx. rewrite last_fcharset_none by exact Hb. f_equal. lia.
  - rewrite IH. f_equal. lia.
Qed.

(* the start index of a later input: just after the line that closes its font table *)
Theorem find_start_ok r : rfile_ok r -> find_start_index (file_lines r) = length (rf_pre r) + 2.
Proof.
  intros (H1 & H2 & H3 & H4 & _). unfold find_start_index, file_lines.
  cbn [app]. rewrite (last_fcharset_app (rf_pre r) (rf_fontlast r)); [reflexivity|exact H1|].
  constructor; [exact H2|]. apply Forall_app. split; [exact H3|constructor; [exact H4|constructor]].
Qed.

Lemma last_opt_app_single {A} (l : list A) x : last_opt (l ++ [x]) = Some x.
Proof.
  induction l as [|y l IH]; [reflexivity|]. cbn [app last_opt].
  destruct (l ++ [x]) eqn:E; [destruct l; discriminate|]. exact IH.
Qed.

Lemma file_last r : last_opt (file_lines r) = Some (rf_last r).
Proof.
  unfold file_lines. rewrite !app_assoc. apply last_opt_app_single.
Qed.

Lemma file_length r : length (file_lines r) = length (rf_pre r) + 2 + length (rf_body r) + 1.
Proof. unfold file_lines. rewrite !app_length. cbn [length]. lia. Qed.

Lemma skipn_app_len {A} (a b : list A) : skipn (length a) (a ++ b) = b.
Proof. induction a as [|x a IH]; cbn; [reflexivity|exact IH]. Qed.

Lemma firstn_app_len {A} (a b : list A) : firstn (length a) (a ++ b) = a.
Proof. induction a as [|x a IH]; cbn; [reflexivity|f_equal; exact IH]. Qed.

(* what assemble_rtf writes, line by line *)
Fixpoint asm_spec (rs : list rfile) (first : bool) : list str :=
  match rs with
  | [] => []
  | r :: rest =>
    (if first then rf_pre r ++ [rf_fontlast r; rf_close r] else [])
    ++ rf_body r
    ++ (match rest with [] => [rf_last r] | _ => [new_page_cmd] end)
    ++ asm_spec rest false
  end.

Theorem assemble_structure rs first :
  Forall rfile_ok rs -> assemble_parts (map file_lines rs) first = asm_spec rs first.
Proof.
  intro H. revert first. induction H as [|r rest Hr _ IH]; intros first; [reflexivity|].
  cbn [map assemble_parts asm_spec]. rewrite IH.
  pose proof Hr as (_ & _ & _ & _ & Hstrip).
  rewrite file_last, Hstrip. rewrite (find_start_ok r Hr). rewrite file_length.
  set (P := rf_pre r ++ [rf_fontlast r; rf_close r]).
  assert (HP : length P = length (rf_pre r) + 2) by (unfold P; rewrite app_length; cbn; lia).
  assert (HF : file_lines r = P ++ rf_body r ++ [rf_last r]).
  { unfold file_lines, P. rewrite <- !app_assoc. reflexivity. }
  destruct rest as [|r2 rest]; cbn [map negb andb]; destruct first; cbn [app skipn].
  - (* single / last file, first: everything *)
    rewrite Nat.sub_0_r.
    replace (length (rf_pre r) + 2 + length (rf_body r) + 1) with (length (file_lines r)) by (rewrite file_length; reflexivity).
    rewrite firstn_all. rewrite HF. rewrite <- !app_assoc. rewrite !app_nil_r. reflexivity.
  - (* last file, not first: body and the final line *)
    rewrite HF. rewrite <- HP. rewrite skipn_app_len.
    replace (length P + length (rf_body r) + 1 - length P) with (length (rf_body r ++ [rf_last r]))
      by (rewrite app_length; cbn [length]; lia).
    rewrite firstn_all. rewrite <- !app_assoc. rewrite !app_nil_r. reflexivity.
  - (* first file of several: everything but the final line *)
    rewrite Nat.sub_0_r. rewrite HF.
    replace (length (rf_pre r) + 2 + length (rf_body r) + 1 - 1) with (length (P ++ rf_body r))
      by (rewrite app_length; lia).
    rewrite app_assoc. rewrite firstn_app_len. rewrite <- !app_assoc. reflexivity.
  - (* a middle file: its body only *)
    rewrite HF. rewrite <- HP. rewrite skipn_app_len.
    replace (length P + length (rf_body r) + 1 - 1 - length P) with (length (rf_body r)) by lia.
    rewrite firstn_app_len. reflexivity.
Qed.

(* a single input is reproduced unchanged; an empty list writes nothing *)
Theorem assemble_single s : assemble [s] = Some (concat_str (readlines s)).
Proof.
  unfold assemble. cbn [map assemble_parts]. rewrite Nat.sub_0_r. cbn [negb andb skipn].
  rewrite firstn_all. rewrite !app_nil_r. reflexivity.
Qed.

Theorem assemble_empty : assemble [] = None.
Proof. reflexivity. Qed.

Lemma lines_from_concat s cur : concat_str (lines_from s cur) = rev' cur ++ s.
Proof.
  revert cur; induction s as [|c s IH]; intros cur; cbn [lines_from].
  - destruct cur; cbn; [reflexivity|]. rewrite !app_nil_r. reflexivity.
  - destruct (N.eqb c 10) eqn:E.
    + cbn [concat_str]. rewrite IH. unfold rev'. rewrite !rev_append_rev. cbn [rev app].
      rewrite !app_nil_r. rewrite <- app_assoc. reflexivity.
    + rewrite IH. unfold rev'. rewrite !rev_append_rev. cbn [rev]. rewrite !app_nil_r.
      rewrite <- app_assoc. reflexivity.
Qed.

Theorem readlines_concat s : concat_str (readlines s) = s.
Proof. unfold readlines. rewrite lines_from_concat. reflexivity. Qed.

Corollary assemble_single_identity s : assemble [s] = Some s.
Proof. rewrite assemble_single, readlines_concat. reflexivity. Qed.
