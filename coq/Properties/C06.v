(* C06 — titles, headers, footnotes and sources appear on exactly the configured pages.
   For ALL documents / pages of the model:
     C06_order        a rendered page is  break? ++ title ++ subline ++ subline-heading ++ column headers
                      ++ top headings ++ body ++ footnote ++ source, and title/subline, headers, footnote,
                      source are empty exactly when their placement predicate / needs_header says so;
     C06_rule         the renderer's predicate is the placement rule check_c06 applies to the
                      implementation; first / last / all mean what they say;
     C06_one_page     on a one-page document the three options are indistinguishable;
     C06_headers      needs_header = pageby_header || first page, for every page the strategies build;
     C06_geometry     every page-break block restates exactly the \paperw \paperh \marg* \headery
                      \footery numbers of the document start, = twip of the configured inches.
     C06_pages        (Proofs/PartitionProofs.v) for EVERY section with at least one row, the pages the model's
                      pagination builds are numbered 1..n, every page knows the total n, and exactly the first
                      page is flagged first and exactly the last page flagged last - the facts the placement
                      rule (C06_rule) and the page-break block (C06_order) are driven by.
     C06_exact_pages  the two composed: "first" shows on page index 0 only, "last" on the final page only,
                      "all" on every page the pagination builds.
   \header / \footer are emitted once by construction of Document.preamble (checked on the output by
   check_c06 clause 7).  Figure documents: placement by Document.figure_pages (same `placed` rule). *)
From Coq Require Import Ascii String.
From Coq Require Import List NArith ZArith QArith Bool Arith.
From V Require Import Str Num Tok Items Doc Encode Paginate Pipeline Document Checks PlacementProofs PartitionProofs.
Import ListNotations.
Local Open Scope string_scope.
Local Open Scope list_scope.

Theorem C06_order : forall ctx s pf cw rows pattrs p its,
  render_page ctx s pf cw rows pattrs p = Ok its ->
  exists title subl hdr tops bodyi fn src,
    its = (if pc_first p then [] else [IBreak (geom_of (s_page s))])
          ++ title ++ subl
          ++ (match pc_subline p with Some gv => subline_header_item gv | None => [] end)
          ++ hdr ++ tops ++ bodyi ++ fn ++ src
    /\ (should_show (p_title (s_page s)) p = false -> title = [] /\ subl = [])
    /\ (pc_needs_header p = false -> hdr = [])
    /\ (tt_shown (s_footnote s) (p_footnote (s_page s)) p = false -> fn = [])
    /\ (tt_shown (s_source s) (p_source (s_page s)) p = false -> src = []).
Proof. exact render_page_order. Qed.
Print Assumptions C06_order.

Theorem C06_pages : forall s pattrs rem cw pages,
  paginate s pattrs rem cw = Ok pages -> f_rows (s_frame s) <> [] ->
  exists n, page_nums pages = zrange 1 (S n) /\ length pages = S n /\ Forall (flags_ok (Z.of_nat (S n))) pages /\
            (forall i p, nth_error pages i = Some p -> pc_first p = Nat.eqb i 0 /\ pc_last p = Nat.eqb (S i) (length pages)).
Proof. exact paginate_numbering. Qed.
Print Assumptions C06_pages.

(* C06_pages and the rule composed: on the pages the model's pagination builds, "first" shows on page index 0 and on no
   other, "last" on the final page and on no other, "all" on every page *)
Theorem C06_exact_pages : forall s pattrs rem cw pages i p,
  paginate s pattrs rem cw = Ok pages -> f_rows (s_frame s) <> [] -> nth_error pages i = Some p ->
  should_show (s2l "first") p = Nat.eqb i 0
  /\ should_show (s2l "last") p = Nat.eqb (S i) (length pages)
  /\ should_show (s2l "all") p = true.
Proof.
  intros s pattrs rem cw pages i p H Hne Hp.
  destruct (paginate_numbering s pattrs rem cw pages H Hne) as [n [_ [_ [_ Hfl]]]].
  destruct (Hfl i p Hp) as [Hf Hl]. rewrite <- Hf, <- Hl. unfold should_show.
  repeat split; vm_compute (str_eqb _ _); reflexivity.
Qed.
Print Assumptions C06_exact_pages.

Theorem C06_rule : forall loc p, valid_loc loc -> should_show loc p = placement loc (pc_first p) (pc_last p).
Proof. exact should_show_placement. Qed.

Theorem C06_one_page : forall loc p,
  valid_loc loc -> pc_first p = true -> pc_last p = true -> should_show loc p = true.
Proof. exact single_page_all_same. Qed.
Print Assumptions C06_one_page.

Theorem C06_headers : forall f b st pages p,
  In p (build_pages f b st pages) -> pc_needs_header p = b_pageby_header b || pc_first p.
Proof. exact needs_header_rule. Qed.

Theorem C06_geometry : forall pg,
  exists w h ms,
    emit_break (geom_of pg) = tiny_par ++ [ctrl "page"] ++ tiny_par ++ [ctrlz "paperw" w; ctrlz "paperh" h] ++ ms
    /\ page_settings_tokens pg = [ctrlz "paperw" w; ctrlz "paperh" h]
                                 ++ (if p_landscape pg then [ctrl "landscape"] else []) ++ ms
    /\ w = twip (p_width pg) /\ h = twip (p_height pg)
    /\ ms = emit_margins margin_names (map twip (p_margin pg)).
Proof. exact break_restates_geometry. Qed.
Print Assumptions C06_geometry.

(* A4: 8.27 in x 1440 = 11908.8 -> 11909 on the document start AND after every page break *)
Example C06_a4 : twip (827 # 100) = 11909%Z.
Proof. vm_compute. reflexivity. Qed.
