"""C17: assemble_rtf yields one well-formed document with every input in order."""
import collections
import contextlib
import io
import os
import random

import gen
import rt
from rtflite.assemble import assemble_rtf

from . import common

TRUSTED = ["Model/Assemble.v (line-based port); Rtf/Read.v read_assembled (accepts the colour table / header / footer / geometry an input restates after the inserted \\page)"]
ASSUMPTIONS = ["inputs are files written by rtflite whose texts do not contain the word 'fcharset'"]


def write_inputs(r, n):
    g = gen.DocGen(r.randrange(1 << 30))
    paths, texts, kinds = [], [], []
    for k in range(n):
        for _ in range(20):
            spec = g.any_doc()
            try:
                doc = rt.build(spec)
                path = os.path.join(rt.scratch_dir(), f"c17_{next(rt._COUNTER)}.rtf")
                with contextlib.redirect_stdout(io.StringIO()):
                    doc.write_rtf(path)
                break
            except ValueError:
                continue   # e.g. non-contiguous group_by: not a C17 input
        paths.append(path)
        texts.append(open(path, encoding="utf-8").read())
        kinds.append(spec.get("kind"))
    # the same file may be listed more than once (at the first / last / inner positions)
    if n >= 2 and r.random() < 0.3:
        order = [r.randrange(n) for _ in range(r.randint(2, n + 2))]
        order[r.choice([0, -1])] = order[r.randrange(len(order))]
        return [paths[i] for i in order], [texts[i] for i in order], [kinds[i] for i in order]
    return paths, texts, kinds


def one_case(r, name, n):
    paths, texts, kinds = write_inputs(r, n)
    out = os.path.join(rt.scratch_dir(), f"c17_out_{next(rt._COUNTER)}.rtf")
    try:
        assemble_rtf(paths, out)
        if os.path.exists(out):
            outsx = rt.sx_impl(True, open(out, encoding="utf-8").read())
        else:
            outsx = rt.sx_impl(False, "nothing written")
    except Exception as e:  # noqa: BLE001
        outsx = rt.sx_impl(False, rt.exc_class(e))
    finally:
        for p in set(paths) | {out}:
            if os.path.exists(p):
                os.unlink(p)
    case = rt.sx_list([rt.sx_str("c17"), rt.sx_str(name), rt.sx_list(rt.sx_str(t) for t in texts), outsx])
    return case, kinds


def edge_cases():
    """empty list writes nothing; a missing input raises FileNotFoundError before anything is written."""
    fails = []
    out = os.path.join(rt.scratch_dir(), "c17_empty.rtf")
    assemble_rtf([], out)
    if os.path.exists(out):
        fails.append("assemble_rtf([]) wrote a file")
    good = os.path.join(rt.scratch_dir(), "c17_good.rtf")
    open(good, "w").write("{\\rtf1\\ansi\n}")
    out2 = os.path.join(rt.scratch_dir(), "c17_missing_out.rtf")
    try:
        assemble_rtf([good, os.path.join(rt.scratch_dir(), "nope.rtf")], out2)
        fails.append("missing input did not raise")
    except FileNotFoundError:
        if os.path.exists(out2):
            fails.append("missing input: output was written before the error")
    except Exception as e:  # noqa: BLE001
        fails.append(f"missing input raised {type(e).__name__}")
    return fails


def run(ctx):
    r = random.Random(ctx["seed"] * 17 + 1)
    n = 60 if ctx["tier"] == "quick" else 600
    cases, meta = [], []
    for i in range(n):
        k = r.choice([1, 2, 2, 3, 4, 6])
        c, kinds = one_case(r, f"a{i}", k)
        cases.append(c)
        meta.append(kinds)
    results = rt.run_driver(cases, shards=8)
    failures = []
    stats = collections.Counter()
    dist = collections.Counter()
    samples = []
    for res, kinds, case in zip(results, meta, cases):
        dist[f"inputs={len(kinds)}"] += 1
        for k in kinds:
            dist[f"kind={k}"] += 1
        if res.get("holds") == "0":
            stats["holds"] += 1
            if len([f for f in failures if f["kind"] == "holds"]) < 3:
                failures.append({"kind": "holds", "name": "assemble", "result": res, "input_kinds": kinds, "case_sexp": case[:200000],
                                 "what": "the assembled file is not a well-formed concatenation of its inputs' pages", "signature": None})
        elif res.get("agree") != "1":
            stats["corr"] += 1
            if len([f for f in failures if f["kind"] == "corr"]) < 2:
                failures.append({"kind": "corr", "name": "assemble_model", "result": res, "input_kinds": kinds, "case_sexp": case[:200000],
                                 "what": "corr_C17: Model/Assemble.v and assemble_rtf produce different files", "signature": None})
        else:
            stats["ok"] += 1
            if len(samples) < 2:
                samples.append({"input_kinds": kinds, "result": res})
    for msg in edge_cases():
        stats["holds"] += 1
        failures.append({"kind": "holds", "name": "edge", "what": msg, "signature": None})
    coverage = {
        "evaluations": len(cases) + 2, "distinct_nontrivial": stats["ok"],
        "rule": "1..6 documents of any C01 kind drawn by harness/gen.py, written with write_rtf and assembled in generation order; plus the empty-list and missing-file cases",
        "samples": samples, "outcomes": dict(stats), "input_distribution": dict(dist),
        "traces_validated_against_impl": stats["ok"],
    }
    return {"failures": failures, "coverage": coverage}
