(* C04 — page breaks occur only when required, and always when required.
   The page assignment is the greedy loop `assign_pages` (port of _assign_pages).  For ALL row metadata
   lists, budgets and new_page flags:
     C04_check: the model's assignment satisfies check_assign — a break falls before a row only if a
                grouping rule forces it or the row no longer fits, and a row that is forced or no longer
                fits (with rows already on the page) always breaks.  The same boolean check_assign is evaluated on the page membership
                read back from the implementation's output.
     C04_check_unique: conversely, when every row occupies at least one line, the greedy assignment is the ONLY page list
                check_assign accepts - the predicate is a complete specification.
     C04_steps / C04_first: pages are numbered 1, 2, ... without gaps in row order (contiguous runs).
     C04_forced: a subline change, or a page_by change under new_page, always starts a new page.
     C04_fill: the accounting never overflows the available rows, except for a single-row page.
     C04_append: appending rows never changes the pages of the earlier rows.
     C04_append_rows: (Proofs/AppendProofs.v) the K2 prefix lemma and its consequence - the row metadata of
                the first n frame rows (change flags, line counts, heading rows) does not depend on rows
                appended after them, hence neither do their page numbers: for every frame, keys, widths,
                fonts and sizes, firstn n (assign_pages (row_metadata (rows ++ extra))) =
                assign_pages (row_metadata rows).
   Per-row heights come from the width oracle (trusted); that the column-sliced attributes of the longer
   frame agree with the shorter one's on the first n rows (prepare / slice_attrs) is validated
   metamorphically on the implementation (append check of props/c04.py), not proved. *)
From Coq Require Import List ZArith Bool.
From V Require Import Doc Paginate PaginateProofs AppendProofs.
Import ListNotations.
Local Open Scope Z_scope.

Theorem C04_check : forall nrow add np ms,
  check_assign (Z.max 1 (nrow - add)) np ms (assign_pages nrow add np ms) = true.
Proof. exact assign_satisfies_check. Qed.
Print Assumptions C04_check.

(* check_assign is a complete specification of the page list when every row occupies at least one line: the only
   assignment it accepts is the greedy loop's.  So the predicate evaluated on the implementation's output decides,
   given the row metadata, the whole of its pagination. *)
Theorem C04_check_unique : forall nrow add np ms pages,
  Forall (fun m => 0 < rm_total m) ms ->
  check_assign (Z.max 1 (nrow - add)) np ms pages = true ->
  pages = assign_pages nrow add np ms.
Proof. exact check_assign_unique. Qed.
Print Assumptions C04_check_unique.

Theorem C04_steps : forall nrow add np ms, steps_from 1 (assign_pages nrow add np ms).
Proof. exact assign_steps. Qed.

Theorem C04_first : forall nrow add np m ms, hd 0 (assign_pages nrow add np (m :: ms)) = 1.
Proof. exact assign_first. Qed.

Theorem C04_forced : forall avail np m ms page cur,
  0 < cur -> (rm_ss m || np && rm_gs m) = true ->
  hd 0 (assign_loop avail np (m :: ms) false page cur) = page + 1.
Proof. exact assign_loop_forced. Qed.

Theorem C04_fill : forall nrow add np ms,
  Forall (fun m => 1 <= rm_total m) ms ->
  check_fill (Z.max 1 (nrow - add)) ms (assign_pages nrow add np ms) = true.
Proof. exact assign_fill. Qed.
Print Assumptions C04_fill.

Theorem C04_append : forall nrow add np ms extra,
  firstn (length ms) (assign_pages nrow add np (ms ++ extra)) = assign_pages nrow add np ms.
Proof. exact assign_prefix. Qed.
Print Assumptions C04_append.

Theorem C04_append_rows : forall widths fonts sizes cols rows extra rem cw pb sl nrow add np ms',
  row_metadata widths fonts sizes {| f_cols := cols; f_rows := rows ++ extra |} rem cw pb sl = Ok ms' ->
  exists ms, row_metadata widths fonts sizes {| f_cols := cols; f_rows := rows |} rem cw pb sl = Ok ms /\
             firstn (length rows) (assign_pages nrow add np ms') = assign_pages nrow add np ms.
Proof. exact append_keeps_pages. Qed.
Print Assumptions C04_append_rows.

Theorem C04_length : forall nrow add np ms, length (assign_pages nrow add np ms) = length ms.
Proof. exact assign_length. Qed.

(* non-vacuity: three rows of heights 2,2,1 with 3 available rows; the third row starts a group *)
Example C04_example :
  let m h g := {| rm_data := h; rm_pb := 0; rm_sl := 0; rm_total := h; rm_gs := g; rm_ss := false |} in
  assign_pages 5 2 true [m 2 true; m 2 false; m 1 true] = [1; 2; 3].
Proof. vm_compute. reflexivity. Qed.
