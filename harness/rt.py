"""Runtime helpers of the correspondence harness.

- build(spec): JSON-able case spec -> real rtflite objects (public constructors only)
- dump_doc(doc): state of a constructed RTFDocument -> S-expression text for the Gallina model
- run_impl(doc): rtf_encode() outcome
- run_driver(cases): run the extracted model on a batch of cases
"""
from __future__ import annotations

import os
import subprocess
import sys
import tempfile
from fractions import Fraction

REPO_SRC = os.environ.get("RTFLITE_SRC", "/repo/src")
if REPO_SRC not in sys.path:
    sys.path.insert(0, REPO_SRC)

VERIF = os.path.dirname(os.path.dirname(os.path.abspath(__file__)))
DRIVER = os.path.join(VERIF, "ocaml", "driver")

import polars as pl  # noqa: E402
import rtflite as rtf  # noqa: E402
from rtflite.attributes import BroadcastValue  # noqa: E402
from rtflite.strwidth import get_string_width  # noqa: E402


# ---------------------------------------------------------------- S-expressions
def sx_str(s: str) -> str:
    if s.isascii() and len(s) > 24:
        return f"#{len(s)}:{s}"
    return "[" + " ".join(str(ord(c)) for c in s) + "]"


def sx_int(n) -> str:
    return str(int(n))


def sx_bool(b) -> str:
    return "1" if b else "0"


def sx_q(x) -> str:
    f = Fraction(x)
    return f"({f.numerator} {f.denominator})"


def sx_list(items) -> str:
    return "(" + " ".join(items) + ")"


def sx_opt(x, f) -> str:
    return "()" if x is None else "(" + f(x) + ")"


def sx_int_exact(v) -> str:
    if isinstance(v, bool):
        return sx_bool(v)
    if isinstance(v, float):
        if v != int(v):
            raise ValueError(f"non-integral value {v!r} where the model expects an integer")
        return str(int(v))
    return str(int(v))


def nested(v):
    """The nested-list view BroadcastValue gives of an attribute value."""
    if v is None:
        return None
    return BroadcastValue(value=v).value


def sx_mat(v, f) -> str:
    m = nested(v)
    if m is None:
        return "()"
    return "(" + sx_list(sx_list(f(x) for x in row) for row in m) + ")"


ATTR_FIELDS = [
    ("text_font", sx_int_exact),
    ("text_format", sx_str),
    ("text_font_size", sx_q),
    ("text_color", sx_str),
    ("text_background_color", sx_str),
    ("text_justification", sx_str),
    ("text_indent_first", sx_int_exact),
    ("text_indent_left", sx_int_exact),
    ("text_indent_right", sx_int_exact),
    ("text_space", sx_int_exact),
    ("text_space_before", sx_int_exact),
    ("text_space_after", sx_int_exact),
    ("text_hyphenation", sx_bool),
    ("text_convert", sx_bool),
    ("col_rel_width", None),
    ("border_left", sx_str),
    ("border_right", sx_str),
    ("border_top", sx_str),
    ("border_bottom", sx_str),
    ("border_first", sx_str),
    ("border_last", sx_str),
    ("border_color_left", sx_str),
    ("border_color_right", sx_str),
    ("border_color_top", sx_str),
    ("border_color_bottom", sx_str),
    ("border_color_first", sx_str),
    ("border_color_last", sx_str),
    ("border_width", sx_int_exact),
    ("cell_height", sx_q),
    ("cell_justification", sx_str),
    ("cell_vertical_justification", sx_str),
]


def sx_attrs(obj) -> str:
    out = []
    for name, f in ATTR_FIELDS:
        v = getattr(obj, name, None)
        if name == "col_rel_width":
            out.append(sx_opt(v, lambda l: sx_list(sx_q(x) for x in l)))
        else:
            out.append(sx_mat(v, f))
    return sx_list(out)


def sx_val(v) -> str:
    if v is None:
        return "(0)"
    if isinstance(v, bool):
        return "(1 " + sx_str(str(v)) + ")"
    if isinstance(v, int):
        return f"(2 {v})"
    if isinstance(v, float):
        return "(3 " + sx_str(str(v)) + ")"
    return "(1 " + sx_str(str(v)) + ")"


def sx_frame(df: pl.DataFrame) -> str:
    return sx_list([sx_list(sx_str(c) for c in df.columns), sx_list(sx_list(sx_val(v) for v in row) for row in df.rows())])


def sx_strlist(l) -> str:
    return sx_list(sx_str(str(x)) for x in l)


def sx_textcomp(c) -> str:
    return sx_list([sx_opt(c.text, sx_strlist), sx_attrs(c)])


def sx_tabletext(c) -> str:
    text = c.text
    if isinstance(text, (list, tuple)):
        text = None if len(text) == 0 else "\\line ".join(text)
    return sx_list([sx_opt(text, sx_str), sx_bool(c.as_table), sx_attrs(c)])


def sx_header(h) -> str:
    text = h.text
    if text is not None and not isinstance(text, (list, tuple)):
        text = list(text)
    return sx_list([sx_opt(text, sx_strlist), sx_attrs(h)])


def sx_body(b) -> str:
    return sx_list(
        [
            sx_attrs(b),
            sx_bool(b.as_colheader),
            sx_opt(b.group_by, sx_strlist),
            sx_opt(b.page_by, sx_strlist),
            sx_bool(b.new_page),
            sx_bool(b.pageby_header),
            sx_str(b.pageby_row),
            sx_opt(b.subline_by, sx_strlist),
        ]
    )


def sx_page(p) -> str:
    return sx_list(
        [
            sx_bool(p.orientation == "landscape"),
            sx_q(p.width),
            sx_q(p.height),
            sx_list(sx_q(m) for m in p.margin),
            sx_int(p.nrow),
            sx_opt(p.border_first, sx_str),
            sx_opt(p.border_last, sx_str),
            sx_q(p.col_width),
            sx_str(p.page_title),
            sx_str(p.page_footnote),
            sx_str(p.page_source),
        ]
    )


def sx_headers(hs) -> str:
    if hs is None:
        return "(0)"
    hs = list(hs)
    if hs and isinstance(hs[0], list):
        return "(2 " + sx_list(sx_list(sx_opt(h, sx_header) for h in sec) for sec in hs) + ")"
    return "(1 " + sx_list(sx_opt(h, sx_header) for h in hs) + ")"


def figure_payload(fig) -> str:
    # the files' bytes and picture types are INPUT data: read here independently of the library's own reader, so that a defect
    # in that reader (truncation, text mode, a stale cache) is a disagreement and not a shared belief
    kinds = {".png": "png", ".jpg": "jpeg", ".jpeg": "jpeg", ".emf": "emf"}
    figs = fig.figures if isinstance(fig.figures, (list, tuple)) else [fig.figures]
    items = []
    for path in figs:
        with open(str(path), "rb") as fh:
            data = fh.read()
        fmt = kinds[os.path.splitext(str(path))[1].lower()]
        items.append(sx_list([sx_str(fmt), "[" + " ".join(str(b) for b in data) + "]"]))
    w = fig.fig_width if isinstance(fig.fig_width, list) else [fig.fig_width]
    h = fig.fig_height if isinstance(fig.fig_height, list) else [fig.fig_height]
    return sx_list([sx_list(items), sx_list(sx_q(x) for x in w), sx_list(sx_q(x) for x in h), sx_str(fig.fig_align)])


def heading_text(cols, keys, row) -> str:
    parts = []
    for k in keys:
        v = row[cols.index(k)]
        if str(v) != "-----":
            parts.append(f"{k}: {v}")
    return " | ".join(parts)


def wkey(text: str, font: int, size) -> str:
    f = Fraction(size)
    return f"{text}\x00{int(font)}\x00{f.numerator}/{f.denominator}"


def oracle_widths(doc) -> dict:
    """Width in inches of every (string, font, size) the pagination may measure, keyed as the model keys it."""
    need = set()
    frames = []
    if isinstance(doc.df, list):
        frames = list(zip(doc.df, doc.rtf_body, strict=True))
    elif doc.df is not None:
        frames = [(doc.df, doc.rtf_body)]
    for df, body in frames:
        cols = list(df.columns)
        fonts = BroadcastValue(value=body.text_font) if body.text_font else None
        sizes = BroadcastValue(value=body.text_font_size) if body.text_font_size else None
        for r, row in enumerate(df.rows()):
            for c, v in enumerate(row):
                font = fonts.iloc(r, c) if fonts is not None else 1
                size = sizes.iloc(r, c) if sizes is not None else 9
                need.add((str(v), int(font), size))
            for keys in (body.page_by, body.subline_by):
                if keys:
                    need.add((heading_text(cols, list(keys), row), 1, 9))
    out = {}
    for text, font, size in sorted(need, key=lambda t: (t[0], t[1], float(t[2]))):
        if text == "":
            continue
        out[wkey(text, font, size)] = Fraction(get_string_width(text, font=font, font_size=size))
    return out


def dump_doc(doc) -> str:
    if doc.df is None:
        content = "(3 " + figure_payload(doc.rtf_figure) + ")"
    elif isinstance(doc.df, list):
        content = "(2 " + sx_list(sx_list([sx_frame(d), sx_body(b)]) for d, b in zip(doc.df, doc.rtf_body, strict=True)) + ")"
    else:
        content = "(1 " + sx_list([sx_frame(doc.df), sx_body(doc.rtf_body)]) + ")"
    widths = oracle_widths(doc)
    return sx_list(
        [
            content,
            sx_page(doc.rtf_page),
            sx_opt(doc.rtf_page_header, sx_textcomp),
            sx_opt(doc.rtf_page_footer, sx_textcomp),
            sx_opt(doc.rtf_title, sx_textcomp),
            sx_opt(doc.rtf_subline, sx_textcomp),
            sx_headers(doc.rtf_column_header),
            sx_opt(doc.rtf_footnote, sx_tabletext),
            sx_opt(doc.rtf_source, sx_tabletext),
            sx_list(sx_list([sx_str(s), sx_q(w)]) for s, w in widths.items()),
        ]
    )


# ---------------------------------------------------------------- building documents from specs
import atexit  # noqa: E402
import itertools  # noqa: E402
import shutil  # noqa: E402

_SCRATCH = None
_COUNTER = itertools.count()


def scratch_dir() -> str:
    """Per-process scratch directory outside /repo and /verif, removed at exit."""
    global _SCRATCH
    if _SCRATCH is None:
        _SCRATCH = tempfile.mkdtemp(prefix="rtfverif_scratch_")
        atexit.register(lambda: shutil.rmtree(_SCRATCH, ignore_errors=True))
    return _SCRATCH

COMPONENTS = {
    "page": rtf.RTFPage,
    "page_header": rtf.RTFPageHeader,
    "page_footer": rtf.RTFPageFooter,
    "title": rtf.RTFTitle,
    "subline": rtf.RTFSubline,
    "footnote": rtf.RTFFootnote,
    "source": rtf.RTFSource,
}


def make_df(spec):
    """spec: {"cols": [...], "rows": [[...]], "dtypes": optional}"""
    cols = spec["cols"]
    rows = spec["rows"]
    data = {c: [r[i] for r in rows] for i, c in enumerate(cols)}
    schema = {}
    for i, c in enumerate(cols):
        vals = [v for v in data[c] if v is not None]
        if not vals:
            schema[c] = pl.Utf8
        elif all(isinstance(v, bool) for v in vals):
            schema[c] = pl.Boolean
        elif all(isinstance(v, int) for v in vals):
            schema[c] = pl.Int64
        elif all(isinstance(v, (int, float)) for v in vals):
            schema[c] = pl.Float64
        else:
            schema[c] = pl.Utf8
    return pl.DataFrame(data, schema=schema)


def make_header(h):
    return None if h is None else rtf.RTFColumnHeader(**h)


def build(spec: dict, share: dict | None = None, inputs: dict | None = None):
    """Construct the real RTFDocument described by a JSON-able spec.

    share: a cache of component objects; equal-valued component specs then reuse ONE object across documents.
    inputs: receives the keyword arguments (the caller's own objects) the document was constructed from."""
    import json as _json

    def mk(cls, v, name):
        if share is None:
            return cls(**v)
        key = (name, _json.dumps(v, sort_keys=True, default=str))
        if key not in share:
            share[key] = cls(**v)
        return share[key]

    if share is None and spec.get("_share_body"):
        share = {}          # equal-valued body specs of one document are ONE RTFBody object
    kw = {}
    if "figure" in spec:
        fig = dict(spec["figure"])
        files = fig.pop("files")
        paths = []
        for i, f in enumerate(files):
            path = os.path.join(scratch_dir(), f"fig_{next(_COUNTER)}_{i}{f['suffix']}")
            with open(path, "wb") as fh:
                fh.write(bytes.fromhex(f["hex"]))
            paths.append(path)
        fig["figures"] = paths if len(paths) > 1 or fig.pop("_as_list", True) else paths[0]
        kw["rtf_figure"] = rtf.RTFFigure(**fig)
    elif "sections" in spec:
        kw["df"] = [make_df(s["df"]) for s in spec["sections"]]
        kw["rtf_body"] = [mk(rtf.RTFBody, s.get("body", {}), "body") for s in spec["sections"]]
    else:
        kw["df"] = make_df(spec["df"])
        kw["rtf_body"] = mk(rtf.RTFBody, spec.get("body", {}), "body")
    for name, cls in COMPONENTS.items():
        if name in spec:
            v = spec[name]
            kw["rtf_" + name] = None if v is None else mk(cls, v, name)
    if "headers" in spec:
        hs = spec["headers"]
        mh = lambda h: None if h is None else mk(rtf.RTFColumnHeader, h, "header")
        if hs and isinstance(hs[0], list):
            kw["rtf_column_header"] = [[mh(h) for h in sec] for sec in hs]
        else:
            kw["rtf_column_header"] = [mh(h) for h in hs]
    if "_prior_df" in spec and "df" in kw and not isinstance(kw["df"], list):
        # history: the same component objects were first used by an earlier document
        prior = dict(kw)
        prior["df"] = make_df(spec["_prior_df"])
        try:
            earlier = rtf.RTFDocument(**prior)
            if spec.get("_prior_encode"):
                earlier.rtf_encode()
        except Exception:  # noqa: BLE001
            pass
    if inputs is not None:
        inputs.update(kw)
    return rtf.RTFDocument(**kw)


def exc_class(e: BaseException) -> str:
    """Small enum of exception classes (ValidationError is a ValueError)."""
    if isinstance(e, FileNotFoundError):
        return "FileNotFoundError"
    if isinstance(e, ValueError):
        return "ValueError"
    if isinstance(e, TypeError):
        return "TypeError"
    if isinstance(e, IndexError):
        return "IndexError"
    if isinstance(e, AttributeError):
        return "AttributeError"
    return "Other:" + type(e).__name__


def run_impl(doc):
    try:
        return True, doc.rtf_encode()
    except Exception as e:  # noqa: BLE001
        return False, exc_class(e)


def sx_impl(ok: bool, out: str) -> str:
    return sx_list(["1" if ok else "0", sx_str(out)])


def case_text(mode: str, cid: str, doc_sx: str, impl_sx: str, extra: str = "") -> str:
    parts = [sx_str(mode), sx_str(cid), doc_sx, impl_sx]
    if extra:
        parts.append(extra)
    return sx_list(parts)


def run_driver(case_texts: list[str], shards: int = 1) -> list[dict]:
    """Run the extracted model on the cases; one report dict per case, in order."""
    if not case_texts:
        return []
    shards = max(1, min(shards, len(case_texts)))
    chunks = [case_texts[i::shards] for i in range(shards)]
    procs = []
    tmpdir = tempfile.mkdtemp(prefix="rtfverif_")
    try:
        for i, ch in enumerate(chunks):
            path = os.path.join(tmpdir, f"cases_{i}.sx")
            with open(path, "w", encoding="latin-1", errors="strict") as f:
                f.write("\n".join(ch))
            # large documents make the extracted (non tail-recursive) list functions deep: lift the stack limit
            procs.append(subprocess.Popen(["bash", "-c", 'ulimit -s unlimited 2>/dev/null || ulimit -s 1000000; exec "$0" "$1"', DRIVER, path],
                                          stdout=subprocess.PIPE, stderr=subprocess.PIPE))
        outs = []
        for p in procs:
            o, e = p.communicate()
            if p.returncode != 0:
                raise RuntimeError(f"driver failed: {e.decode(errors='replace')[:500]}")
            outs.append(o.decode("latin-1").split("\n"))
    finally:
        import shutil

        shutil.rmtree(tmpdir, ignore_errors=True)
    results = [None] * len(case_texts)
    for i, lines in enumerate(outs):
        lines = [l for l in lines if l != ""]
        idxs = list(range(i, len(case_texts), shards))
        if len(lines) != len(idxs):
            raise RuntimeError(f"driver returned {len(lines)} lines for {len(idxs)} cases")
        for k, l in zip(idxs, lines, strict=True):
            d = {}
            for kvp in l.split("\t"):
                if "=" in kvp:
                    a, b = kvp.split("=", 1)
                    d[a] = b
            results[k] = d
    return results
