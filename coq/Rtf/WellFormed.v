(* C01: well-formedness of a token stream as an RTF document, clause by clause. *)
From Coq Require Import Ascii String.
From Coq Require Import List NArith ZArith Bool Arith.
From V Require Import Str Tok.
Import ListNotations.
Local Open Scope string_scope.
Local Open Scope list_scope.

(* clause 1: begins with {\rtf1 *)
Definition starts_rtf (ts : list tok) : bool :=
  match ts with
  | TOpen :: TCtrl n (Some 1%Z) :: _ => str_eqb n (s2l "rtf")
  | _ => false
  end.

(* clause 2: one top-level group: depth >= 1 strictly inside, 0 exactly after the last token *)
Fixpoint one_group_from (d : nat) (ts : list tok) : bool :=
  match ts with
  | [] => false
  | [TClose] => Nat.eqb d 1
  | TOpen :: r => one_group_from (S d) r
  | TClose :: r => match d with
                   | S (S d') => one_group_from (S d') r
                   | _ => false            (* would close the top-level group before the end *)
                   end
  | _ :: r => Nat.ltb 0 d && one_group_from d r
  end.
Definition one_group (ts : list tok) : bool := one_group_from 0 ts.

(* clause 3: lexical validity of control sequences *)
Definition nonempty_lower (n : str) : bool := match n with [] => false | _ => all_b is_lower n end.

Definition allowed_symbols : list N := [42; 92; 123; 125; 39; 126; 45; 95; 58; 124]%N.

Definition tok_lexical (t : tok) : bool :=
  match t with
  | TCtrl n _ => nonempty_lower n
  | TSym c => existsb (N.eqb c) allowed_symbols
  | _ => true
  end.

(* clause 4: \u parameters in the signed 16-bit range, each followed by its fallback characters *)
Fixpoint unicode_ok (uc : nat) (ts : list tok) : bool :=
  match ts with
  | [] => true
  | TCtrl n (Some z) :: r =>
    if str_eqb n (s2l "uc") then unicode_ok (Z.to_nat z) r
    else if str_eqb n (s2l "u") then
      (-32768 <=? z)%Z && (z <=? 32767)%Z
      && match r with
         | TText s :: _ => Nat.leb uc (length s) && unicode_ok uc r
         | _ => Nat.eqb uc 0 && unicode_ok uc r
         end
    else unicode_ok uc r
  | TCtrl n None :: r => if str_eqb n (s2l "u") then false else unicode_ok uc r
  | _ :: r => unicode_ok uc r
  end.

(* clause 5: every table row declares as many \cellx as it has \cell, positive and non-decreasing *)
Fixpoint row_scan (ts : list tok) (in_row : bool) (xs : list Z) (ncell : nat) : bool :=
  match ts with
  | [] => negb in_row
  | TCtrl n p :: r =>
    if str_eqb n (s2l "trowd") then negb in_row && row_scan r true [] 0
    else if str_eqb n (s2l "cellx") then
      in_row && match p with
                | Some x => (0 <? x)%Z && (match xs with y :: _ => (y <=? x)%Z | [] => true end)
                            && row_scan r in_row (x :: xs) ncell
                | None => false
                end
    else if str_eqb n (s2l "cell") then in_row && row_scan r in_row xs (S ncell)
    else if str_eqb n (s2l "row") then in_row && Nat.eqb (length xs) ncell && Nat.ltb 0 ncell && row_scan r false [] 0
    else row_scan r in_row xs ncell
  | _ :: r => row_scan r in_row xs ncell
  end.
Definition rows_ok (ts : list tok) : bool := row_scan ts false [] 0.

Definition wf_rtf (ts : list tok) : bool :=
  starts_rtf ts && one_group ts && all_b tok_lexical ts && unicode_ok 1 ts && rows_ok ts.

(* which clause fails first (0 = none) *)
Definition wf_clause (ts : list tok) : nat :=
  if negb (starts_rtf ts) then 1
  else if negb (one_group ts) then 2
  else if negb (all_b tok_lexical ts) then 3
  else if negb (unicode_ok 1 ts) then 4
  else if negb (rows_ok ts) then 5
  else 0.
