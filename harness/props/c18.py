"""C18: exports are all-or-nothing and leave no debris."""
import collections
import hashlib
import json
import os
import random
import shutil

import export as ex
import hist
import rt

LEVEL = "proof"
TRUSTED = ["Model/Export.v: file system as functions over component paths; os.rename / shutil.move / TemporaryDirectory semantics are "
           "modelled (rename is atomic and replaces a file; moving a directory onto an existing directory moves it inside)",
           "harness/export.py: sandboxed targets with a private tempfile.tempdir, a fake soffice executable driving the real "
           "LibreOfficeConverter, converter stubs, sys.settrace fault injection"]
ASSUMPTIONS = ["faults are exceptions raised at function-call boundaries inside rtflite, as the quantifier states; OS-level failures inside "
               "write_text / rename (disk full, cross-device copy) are outside the model",
               "LibreOffice itself is absent: its observable contract (writes <stem>.<fmt> and optionally <stem>.html_files into --outdir, exit code) is played by the fake executable"]


def sym(content: bytes, table: dict) -> str:
    return table.get(content, "?" + hashlib.sha1(content).hexdigest()[:8])


def listing(snap: dict, queries, table) -> str:
    parts = []
    for q in queries:
        if q not in snap:
            parts.append("-")
        elif snap[q] is None:
            parts.append("D")
        else:
            parts.append("F:" + sym(snap[q], table))
    return ";".join(parts)


def run(ctx):
    seed = ctx["seed"]
    r = random.Random(seed * 18 + 7)
    pool = hist.pool(seed)
    good = rt.build(pool[2])
    bad = rt.build(pool[6])
    rtf_text = good.rtf_encode()
    rtf_bytes = rtf_text.encode("utf-8")
    sha = hashlib.sha1(rtf_bytes).hexdigest()
    table = {rtf_bytes: "RTF", b"OLD": "OLD", b"KEEP": "KEEP", b"OLDRES": "OLDRES", b"NEST": "NEST", ("IMG " + sha).encode(): "RES"}
    for f in ("docx", "html", "pdf"):
        table[f"CONVERTED {f} {sha}\n".encode()] = "CONV"
    base = os.path.join(rt.scratch_dir(), "c18")
    failures = []
    stats = collections.Counter()

    def fail(kind, name, what, **kw):
        stats[kind + ":" + name] += 1
        if len([f for f in failures if f["name"] == name]) < 2:
            failures.append(dict(kind=kind, name=name, what=what, signature=None, **kw))

    # ---- profile: library call sites reached by each export
    sites = {}
    for fmt in ("rtf", "docx", "html", "pdf"):
        root = os.path.join(base, "profile")
        target, _stem = ex.prepare(root, fmt, "absent")
        prof = []
        info = ex.run_export(good, fmt, target, root, "ok", True, fmt != "rtf", None, profile=prof)
        if info["outcome"] != "ok":
            fail("harness", "profile", "the unfaulted export fails", fmt=fmt, info=info)
        by_site = collections.defaultdict(list)
        for k, s in enumerate(prof, 1):
            by_site[s[:3]].append((k, s[3]))
        sites[fmt] = by_site
    # ---- scenarios
    scen = []   # dict(fmt, state, doc, behaviour, resdir, via_path, fault_k)
    if ctx.get("replay"):
        rp = json.load(open(ctx["replay"]))
        if "scenario" in rp:
            scen = [rp["scenario"]]
    else:
        thorough = ctx["tier"] != "quick"
        states = {"rtf": ["absent", "exists", "missingdirs"], "docx": ["absent", "exists", "missingdirs"], "pdf": ["absent", "exists", "missingdirs"],
                  "html": ex.TARGET_STATES}
        # (a) no fault: every format x target state x converter behaviour x document
        for fmt in ("rtf", "docx", "html", "pdf"):
            for state in states[fmt]:
                for doc in ("good", "bad"):
                    for beh in (["ok"] if fmt == "rtf" else ex.BEHAVIOURS):
                        for resdir in ([True, False] if fmt == "html" else [False]):
                            for via_path in ([False, True] if fmt != "rtf" and beh == "ok" else [False]):
                                scen.append(dict(fmt=fmt, state=state, doc=doc, behaviour=beh, resdir=resdir, via_path=via_path, fault_k=None))
        # repeated exports to the same path
        for fmt in ("html", "docx"):
            scen.append(dict(fmt=fmt, state="absent", doc="good", behaviour="ok", resdir=True, via_path=False, fault_k=None, repeat=3))
        # (b) a fault at every call site (first instance, and a random one), sampled over states
        for fmt in ("rtf", "docx", "html", "pdf"):
            items = sorted(sites[fmt].items())
            if not thorough and fmt in ("docx", "pdf"):
                keep = [it for it in items if it[1][0][1] != "encode"]
                rest = [it for it in items if it[1][0][1] == "encode"]
                items = keep + r.sample(rest, min(len(rest), 60))
            for _site, inst in items:
                ks = {inst[0][0], r.choice(inst)[0]}
                if thorough:
                    ks.update(k for k, _p in r.sample(inst, min(len(inst), 3)))
                for k in sorted(ks):
                    state = r.choice(states[fmt]) if fmt != "html" else r.choice(ex.TARGET_STATES)
                    scen.append(dict(fmt=fmt, state=state, doc="good", behaviour="ok", resdir=True, via_path=fmt != "rtf", fault_k=k))
    cases = []
    kept = []
    phases = collections.Counter()
    for n, sc in enumerate(scen):
        root = os.path.join(base, f"s{n}")
        target, stem = ex.prepare(root, sc["fmt"], sc["state"])
        doc = good if sc["doc"] == "good" else bad
        before = ex.snapshot(root)
        reps = sc.get("repeat", 1)
        info = None
        for _i in range(reps):
            before = ex.snapshot(root)
            info = ex.run_export(doc, sc["fmt"], target, root, sc["behaviour"], sc["resdir"], sc["via_path"], sc["fault_k"])
        after = ex.snapshot(root)
        shutil.rmtree(root, ignore_errors=True)
        stats["scenarios"] += 1
        tcomp = tuple(os.path.relpath(target, root).split(os.sep))
        rescomp = tcomp[:-1] + (f"{stem}.html_files",)
        fault_phase = info["phase"] if info["injected"] else None
        absorbed = info["injected"] and info["outcome"] == "ok"
        phases[fault_phase or "none"] += 1
        must_fail = (sc["doc"] == "bad") or (sc["fmt"] != "rtf" and sc["behaviour"] != "ok") or (info["injected"] and not absorbed)
        # ---- the property, on the real file system
        problems = []
        out_before = {p: c for p, c in before.items() if p[0] == "out" and c is not None}
        out_after = {p: c for p, c in after.items() if p[0] == "out" and c is not None}
        debris = sorted("/".join(p) for p in after if p[0] == "tmp" and len(p) > 1)
        if debris:
            problems.append({"temporary files left": debris[:6]})
        if info["outcome"] == "raised":
            if out_after != out_before:
                diff = sorted("/".join(p) for p in set(out_after) | set(out_before) if out_after.get(p) != out_before.get(p))
                problems.append({"raised but files under the target directory changed": diff[:6]})
        else:
            if must_fail:
                problems.append({"returned normally although encoding/conversion failed": sc})
            want = rtf_bytes if sc["fmt"] == "rtf" else f"CONVERTED {sc['fmt']} {sha}\n".encode()
            if out_after.get(tcomp) != want:
                problems.append({"target does not hold the expected bytes": sym(out_after.get(tcomp, b""), table)})
            expect = dict(out_before)
            expect[tcomp] = want
            if sc["fmt"] == "html" and sc["resdir"]:
                expect = {p: c for p, c in expect.items() if p[: len(rescomp)] != rescomp}
                expect[rescomp + ("img0.png",)] = ("IMG " + sha).encode()
            if out_after != expect:
                diff = sorted("/".join(p) for p in set(out_after) | set(expect) if out_after.get(p) != expect.get(p))
                problems.append({"files other than the requested output differ from before (or output misplaced)": diff[:6]})
        if problems:
            fail("holds", "export", "write_%s violates all-or-nothing / no-debris" % sc["fmt"], scenario=sc, info=info, problems=problems,
                 replay_cmd="./check C18 --replay <this file>")
        else:
            stats["holds_ok"] += 1
        # ---- the model's prediction
        if fault_phase == "entry" or sc.get("repeat"):
            stats["not_modelled(entry fault / repeat)"] += 1
            continue
        queries = sorted(set(before) | set(after) | {tcomp, rescomp})
        files = [(p, sym(c, table)) for p, c in sorted(before.items()) if c is not None]
        dirs = [p for p, c in sorted(before.items()) if c is None]
        sxp = lambda p: rt.sx_list(rt.sx_str(x) for x in p)
        fault = 0 if absorbed else ex.FAULT[fault_phase]
        ins = rt.sx_list([
            str(ex.FMT[sc["fmt"]]), sxp(tcomp), rt.sx_str(stem),
            rt.sx_list(rt.sx_list([sxp(p), rt.sx_str(c)]) for p, c in files),
            rt.sx_list(sxp(p) for p in dirs),
            rt.sx_list(["1" if sc["doc"] == "good" else "0", rt.sx_str("RTF")]),
            str(ex.BEHAVIOURS.index(sc["behaviour"])), "1" if sc["resdir"] else "0", str(fault), sxp(("tmp",)),
        ])
        cases.append(rt.sx_list([rt.sx_str("c18"), rt.sx_str(f"s{n}"), ins, rt.sx_list(sxp(q) for q in queries)]))
        exc = info.get("exc")
        obs_out = "ok" if info["outcome"] == "ok" else {"Injected": "Other"}.get(exc, "Other" if str(exc).startswith("Other") else exc)
        kept.append((sc, info, obs_out, listing(after, queries, table), queries))
    results = rt.run_driver(cases, shards=4)
    for (sc, info, obs_out, obs_fs, queries), res in zip(kept, results, strict=True):
        if res.get("out") != obs_out or res.get("fs") != obs_fs:
            mf = (res.get("fs") or "").split(";")
            of = obs_fs.split(";")
            diff = [{"path": "/".join(q), "model": a, "observed": b} for q, a, b in zip(queries, mf, of) if a != b]
            fail("corr", "filesystem", "corr_C18: outcome / final file system differ from Model/Export.v (export)",
                 scenario=sc, info=info, model_out=res.get("out"), observed_out=obs_out, differences=diff[:8])
        else:
            stats["traces_ok"] += 1
    coverage = {
        "evaluations": stats["scenarios"], "distinct_nontrivial": stats["scenarios"],
        "rule": "scenario = format x target state (absent / exists / missing directories / with resource folder / with nested resource folder) x "
                "document (encodes / raises ValueError) x converter behaviour (real LibreOfficeConverter over a fake soffice: ok, fails before / "
                "after producing output, no output; stubs returning list / None / str / a missing Path) x resource folder or not x converter given "
                "or found on PATH; plus an exception injected at the first and a random instance of every library call site of each export",
        "call_sites": {f: len(s) for f, s in sites.items()},
        "fault_phases": dict(phases), "outcomes": dict(stats), "traces_validated_against_impl": stats["traces_ok"],
    }
    return {"failures": failures, "coverage": coverage}
