(* get_string_width: width = sum of advances + kerning of adjacent pairs, scaled with the font size;
   unit conversions.  Metrics in 1/64 px at the reference size come from the regenerated Gen/Advances.v. *)
From Coq Require Import Ascii String.
From Coq Require Import List NArith ZArith QArith Bool Arith.
From V Require Import Str Num Tables Advances Doc.
Import ListNotations.
Local Open Scope string_scope.
Local Open Scope list_scope.

Fixpoint lookupN (c : N) (l : list (N * Z)) : option Z :=
  match l with [] => None | (k, v) :: r => if N.eqb k c then Some v else lookupN c r end.

Fixpoint lookupNN (a b : N) (l : list ((N * N) * Z)) : Z :=
  match l with
  | [] => 0%Z
  | ((x, y), v) :: r => if N.eqb x a && N.eqb y b then v else lookupNN a b r
  end.

Section Font.
  Variable adv : list (N * Z).
  Variable kern : list ((N * N) * Z).

  Definition advance (c : N) : Z := match lookupN c adv with Some v => v | None => 0%Z end.

  (* width in 1/64 px at the reference size *)
  Fixpoint width64_from (prev : N) (s : str) : Z :=
    match s with
    | [] => 0%Z
    | c :: r => (advance c + lookupNN prev c kern + width64_from c r)%Z
    end.
  Definition width64 (s : str) : Z :=
    match s with
    | [] => 0%Z
    | c :: r => (advance c + width64_from c r)%Z
    end.
End Font.

Definition font_metrics (font : Z) : option (list (N * Z) * list ((N * N) * Z)) :=
  match find (fun e => Z.eqb (fst e) font) font_file_index with
  | Some (_, i) => nth_error metrics i
  | None => None
  end.

Definition font_number_of_name (name : str) : option Z := assoc name font_name_to_number.

(* font given by number or by name *)
Inductive fontref := FNum (n : Z) | FName (s : str).
Definition resolve_font (f : fontref) : res Z :=
  match f with
  | FNum n => if existsb (fun e => Z.eqb (fst e) n) font_number_to_name then Ok n else Err ValueErr
  | FName s => of_opt (font_number_of_name s) ValueErr
  end.

Inductive unit_ := UIn | UMm | UPx.
Definition unit_of (s : str) : res unit_ :=
  if str_eqb s (s2l "in") then Ok UIn else if str_eqb s (s2l "mm") then Ok UMm
  else if str_eqb s (s2l "px") then Ok UPx else Err ValueErr.

(* the model width: linear in the font size (FreeType's hinting is outside the model) *)
Definition width_px (font : Z) (size : Q) (s : str) : res Q :=
  match font_metrics font with
  | Some (adv, kern) => Ok (Qred ((width64 adv kern s # 64) * size / (ref_size # 1)))
  | None => Err ValueErr
  end.

Definition convert (u : unit_) (dpi : Q) (px : Q) : Q :=
  match u with
  | UPx => px
  | UIn => px / dpi
  | UMm => px / dpi * (254 # 10)
  end.

Definition get_string_width (s : str) (f : fontref) (size : Q) (unit : str) (dpi : Q) : res Q :=
  do n <- resolve_font f;
  do px <- width_px n size s;
  do u <- unit_of unit;
  Ok (convert u dpi px).
