(* Exact rational arithmetic for lengths; Python round()/int() on them. *)
From Coq Require Import ZArith QArith Qround Qabs List.
Import ListNotations.
Local Open Scope Z_scope.

(* floor and round-half-even of a rational *)
Definition qfloor (q : Q) : Z := Qfloor q.

Definition round_half_even (q : Q) : Z :=
  let n := Qnum q in
  let d := Zpos (Qden q) in
  let f := Z.div n d in              (* floor *)
  let r2 := 2 * (n - f * d) in       (* 2 * remainder, in [0, 2d) *)
  if r2 <? d then f
  else if d <? r2 then f + 1
  else if Z.even f then f else f + 1.

(* int(x): truncation toward zero *)
Definition qtrunc (q : Q) : Z :=
  let n := Qnum q in
  let d := Zpos (Qden q) in
  Z.quot n d.

(* ambiguity flags: the exact value lies within binary64 noise of a rounding boundary *)
Definition tol : Q := 1 # 1000000000.

Definition near_int (q : Q) : bool :=
  let r := round_half_even q in
  Qle_bool (Qabs (q - (r # 1))) tol.

Definition is_int_tie (q : Q) : bool := near_int q.

Definition is_half_tie (q : Q) : bool := near_int (q - (1 # 2)).

Definition twip (q : Q) : Z := round_half_even (q * (1440 # 1)).

Definition qred (q : Q) : Q := Qred q.

Definition Qeqb (a b : Q) : bool := Qeq_bool a b.
Definition Qleb (a b : Q) : bool := Qle_bool a b.
Definition Qltb (a b : Q) : bool := negb (Qle_bool b a).

Fixpoint qsum (l : list Q) : Q :=
  match l with
  | [] => 0 # 1
  | x :: r => Qred (x + qsum r)
  end.

Definition ZtoQ (z : Z) : Q := z # 1.
