(* C13: group_by suppression blanks exactly the true repeats; restoration; untouched columns; rejection. *)
From Coq Require Import List NArith ZArith Bool Arith Lia.
From V Require Import Str Doc Paginate GroupBy.
Import ListNotations.

(* ---- str_eqb is equality ---- *)
Lemma str_eqb_refl s : str_eqb s s = true.
Proof. induction s as [|c s IH]; cbn; [reflexivity|]. rewrite N.eqb_refl. exact IH. Qed.

Lemma str_eqb_eq a b : str_eqb a b = true <-> a = b.
Proof.
  revert b; induction a as [|x a IH]; intros [|y b]; cbn; split; intro H; try reflexivity; try discriminate.
  - apply andb_prop in H as [H1 H2]. apply N.eqb_eq in H1. apply IH in H2. congruence.
  - inversion H; subst. rewrite N.eqb_refl. apply IH. reflexivity.
Qed.

Lemma str_eqb_neq a b : a <> b -> str_eqb a b = false.
Proof. intro H. destruct (str_eqb a b) eqn:E; [|reflexivity]. apply str_eqb_eq in E. contradiction. Qed.

(* ---- col_val / set_col ---- *)
Lemma index_of_cons x y l :
  index_of x (y :: l) = if str_eqb x y then Some 0 else option_map S (index_of x l).
Proof. reflexivity. Qed.

Lemma index_of_in k cols : In k cols -> index_of k cols <> None.
Proof.
  induction cols as [|c cols IH]; intros Hin; [contradiction|].
  rewrite index_of_cons. destruct (str_eqb k c) eqn:E; [discriminate|].
  destruct Hin as [->|Hin]; [rewrite str_eqb_refl in E; discriminate|].
  specialize (IH Hin). destruct (index_of k cols); [discriminate|congruence].
Qed.

Lemma col_val_set_same cols row k v :
  In k cols -> length cols <= length row -> col_val cols (set_col cols row k v) k = v.
Proof.
  unfold col_val, col_index. revert row; induction cols as [|c cols IH]; intros row Hin Hlen; [contradiction|].
  destruct row as [|x row]; [cbn in Hlen; lia|].
  cbn [set_col]. rewrite index_of_cons.
  destruct (str_eqb c k) eqn:E.
  - apply str_eqb_eq in E; subst. rewrite str_eqb_refl. reflexivity.
  - assert (Ek : str_eqb k c = false).
    { destruct (str_eqb k c) eqn:E2; [|reflexivity]. apply str_eqb_eq in E2; subst. rewrite str_eqb_refl in E. discriminate. }
    rewrite Ek. destruct Hin as [->|Hin]; [rewrite str_eqb_refl in E; discriminate|].
    cbn in Hlen. specialize (IH row Hin ltac:(lia)).
    destruct (index_of k cols) as [i|] eqn:Ei; cbn [option_map] in *; [unfold cell_at in *; cbn [nth]; exact IH|].
    exfalso. exact (index_of_in k cols Hin Ei).
Qed.

Lemma col_val_set_other cols row k v c :
  k <> c -> col_val cols (set_col cols row k v) c = col_val cols row c.
Proof.
  intro Hne. unfold col_val, col_index. revert row; induction cols as [|c0 cols IH]; intros row; [reflexivity|].
  destruct row as [|x row]; [reflexivity|].
  cbn [set_col]. rewrite index_of_cons.
  destruct (str_eqb c0 k) eqn:E.
  - apply str_eqb_eq in E; subst c0.
    rewrite (str_eqb_neq c k) by congruence.
    destruct (index_of c cols); reflexivity.
  - destruct (str_eqb c c0) eqn:E2; [reflexivity|].
    specialize (IH row). destruct (index_of c cols) as [i|]; cbn [option_map] in *; [unfold cell_at in *; cbn [nth]; exact IH|reflexivity].
Qed.

Lemma set_col_length cols row k v : length (set_col cols row k v) = length row.
Proof.
  revert row; induction cols as [|c cols IH]; intros [|x row]; cbn; try reflexivity.
  destruct (str_eqb c k); cbn; [reflexivity|]. f_equal. apply IH.
Qed.

(* ---- one suppression step per hierarchy level ---- *)
Definition step (cols : list str) (prev cur : list val) (acc : list val) (lvl : list str) : list val :=
  match last_opt lvl with
  | None => acc
  | Some k => if raw_differs cols lvl prev cur then acc else set_col cols acc k VNull
  end.

Lemma suppress_row_fold cols keys prev cur :
  suppress_row cols keys prev cur = fold_left (step cols prev cur) (prefixes keys []) cur.
Proof. reflexivity. Qed.

Lemma step_length cols prev cur acc lvl : length (step cols prev cur acc lvl) = length acc.
Proof.
  unfold step. destruct (last_opt lvl); [|reflexivity].
  destruct (raw_differs cols lvl prev cur); [reflexivity|apply set_col_length].
Qed.

Lemma fold_step_length cols prev cur lvls acc :
  length (fold_left (step cols prev cur) lvls acc) = length acc.
Proof.
  revert acc; induction lvls as [|l lvls IH]; intros acc; cbn; [reflexivity|].
  rewrite IH. apply step_length.
Qed.

(* columns that are not the key of any level are untouched *)
Lemma fold_step_other cols prev cur lvls acc c :
  (forall l, In l lvls -> last_opt l <> Some c) ->
  col_val cols (fold_left (step cols prev cur) lvls acc) c = col_val cols acc c.
Proof.
  revert acc; induction lvls as [|l lvls IH]; intros acc H; cbn [fold_left]; [reflexivity|].
  rewrite IH by (intros l' Hl'; apply H; right; exact Hl').
  unfold step. destruct (last_opt l) as [k|] eqn:E; [|reflexivity].
  destruct (raw_differs cols l prev cur); [reflexivity|].
  apply col_val_set_other. intro; subst. apply (H l); [left; reflexivity|exact E].
Qed.

(* the key of a level is blanked iff that level's hierarchical key is unchanged *)
Lemma fold_step_key cols prev cur lvls acc l k :
  In k cols -> length cols <= length acc ->
  NoDup (map last_opt lvls) ->
  In l lvls -> last_opt l = Some k ->
  col_val cols (fold_left (step cols prev cur) lvls acc) k
  = if raw_differs cols l prev cur then col_val cols acc k else VNull.
Proof.
  intros Hk. revert acc; induction lvls as [|l0 lvls IH]; intros acc Hlen Hnd Hin Hlast; [contradiction|].
  cbn [fold_left]. cbn [map] in Hnd. inversion Hnd as [|? ? Hnotin Hnd']; subst.
  destruct Hin as [<-|Hin].
  - rewrite fold_step_other.
    + unfold step. rewrite Hlast. destruct (raw_differs cols l0 prev cur); [reflexivity|].
      apply col_val_set_same; assumption.
    + intros l' Hl' E. apply Hnotin. rewrite Hlast, <- E. apply in_map. exact Hl'.
  - rewrite IH; try assumption.
    + destruct (raw_differs cols l prev cur); [|reflexivity].
      unfold step. destruct (last_opt l0) as [k0|] eqn:E0; [|reflexivity].
      destruct (raw_differs cols l0 prev cur); [reflexivity|].
      apply col_val_set_other. intro; subst k0.
      apply Hnotin. rewrite <- Hlast. apply in_map. exact Hin.
    + rewrite step_length. exact Hlen.
Qed.

Lemma last_opt_snoc {A} (l : list A) x : last_opt (l ++ [x]) = Some x.
Proof.
  induction l as [|y l IH]; [reflexivity|]. cbn [app last_opt].
  destruct (l ++ [x]) eqn:E; [destruct l; discriminate|]. exact IH.
Qed.

Lemma prefixes_lasts {A} (l acc : list A) : map last_opt (prefixes l acc) = map Some l.
Proof.
  revert acc; induction l as [|x l IH]; intros acc; cbn; [reflexivity|].
  rewrite last_opt_snoc. f_equal. apply IH.
Qed.

Lemma prefixes_nth {A} (l acc : list A) j :
  j < length l -> nth j (prefixes l acc) [] = acc ++ firstn (S j) l.
Proof.
  revert acc j; induction l as [|x l IH]; intros acc j Hj; [cbn in Hj; lia|].
  cbn [prefixes]. destruct j as [|j]; cbn [nth].
  - reflexivity.
  - rewrite IH by (cbn in Hj; lia). cbn [firstn]. rewrite <- app_assoc. reflexivity.
Qed.

Lemma prefixes_length {A} (l acc : list A) : length (prefixes l acc) = length l.
Proof. revert acc; induction l; intros; cbn; [reflexivity|f_equal; auto]. Qed.

Lemma NoDup_map_Some {A} (l : list A) : NoDup l -> NoDup (map Some l).
Proof.
  induction 1 as [|x l Hx _ IH]; cbn; constructor; [|exact IH].
  intro H. apply in_map_iff in H as (y & E & Hy). inversion E; subst. contradiction.
Qed.

Lemma last_opt_firstn {A} (l : list A) j : j < length l -> last_opt (firstn (S j) l) = nth_error l j.
Proof.
  revert j; induction l as [|x l IH]; intros j Hj; [cbn in Hj; lia|].
  destruct j as [|j].
  - destruct l; reflexivity.
  - change (firstn (S (S j)) (x :: l)) with (x :: firstn (S j) l).
    cbn [nth_error]. rewrite <- IH by (cbn in Hj; lia).
    destruct l as [|y l]; [cbn in Hj; lia|]. reflexivity.
Qed.

(* ---- the suppression rule, row by row ---- *)
Theorem suppress_row_key cols keys prev cur j k :
  NoDup keys -> nth_error keys j = Some k -> In k cols -> length cols <= length cur ->
  col_val cols (suppress_row cols keys prev cur) k
  = if raw_differs cols (firstn (S j) keys) prev cur then col_val cols cur k else VNull.
Proof.
  intros Hnd Hj Hk Hlen. rewrite suppress_row_fold.
  assert (Hlt : j < length keys) by (apply nth_error_Some; congruence).
  apply fold_step_key with (l := firstn (S j) keys); try assumption.
  - rewrite prefixes_lasts. apply NoDup_map_Some. exact Hnd.
  - pose proof (prefixes_nth keys [] j Hlt) as Hp. cbn [app] in Hp. rewrite <- Hp.
    apply nth_In. rewrite prefixes_length. exact Hlt.
  - rewrite last_opt_firstn by exact Hlt. exact Hj.
Qed.

Theorem suppress_row_other cols keys prev cur c :
  ~ In c keys -> col_val cols (suppress_row cols keys prev cur) c = col_val cols cur c.
Proof.
  intro Hc. rewrite suppress_row_fold. apply fold_step_other.
  intros l Hl E. apply Hc.
  assert (In (last_opt l) (map last_opt (prefixes keys []))) by (apply in_map; exact Hl).
  rewrite prefixes_lasts, E in H. apply in_map_iff in H as (y & Ey & Hy). inversion Ey; subst. exact Hy.
Qed.

Lemma suppress_from_nth cols keys prev rows i :
  i < length rows ->
  nth i (suppress_from cols keys prev rows) []
  = suppress_row cols keys (match i with O => prev | S i' => nth i' rows [] end) (nth i rows []).
Proof.
  revert prev i; induction rows as [|r rows IH]; intros prev i Hi; [cbn in Hi; lia|].
  destruct i as [|i]; cbn [suppress_from nth]; [reflexivity|].
  rewrite IH by (cbn in Hi; lia). destruct i; reflexivity.
Qed.

(* data whose keys are not contiguous is refused with ValueError, nothing is rendered *)
Theorem enhance_rejects cols rows keys :
  keys <> [] -> rows <> [] -> sorting_ok cols rows keys = false ->
  enhance_group_by cols rows keys = Err ValueErr.
Proof.
  intros Hk Hr Hs. unfold enhance_group_by.
  destruct keys; [congruence|]. destruct rows; [congruence|].
  destruct (all_b _ _); cbn [negb]; [|reflexivity]. rewrite Hs. reflexivity.
Qed.

Theorem enhance_accepts cols r0 rows keys :
  all_b (fun k => mem_str k cols) keys = true -> sorting_ok cols (r0 :: rows) keys = true ->
  enhance_group_by cols (r0 :: rows) keys = Ok (r0 :: suppress_from cols keys r0 rows)
  \/ keys = [].
Proof.
  intros Hm Hs. destruct keys; [right; reflexivity|left].
  unfold enhance_group_by. rewrite Hm, Hs. reflexivity.
Qed.

(* ---- page-start restoration ---- *)
Lemma fold_restore_key cols o keys acc k :
  In k keys -> In k cols -> length cols <= length acc ->
  col_val cols (fold_left (fun a k' => set_col cols a k' (col_val cols o k')) keys acc) k = col_val cols o k.
Proof.
  revert acc; induction keys as [|k0 keys IH]; intros acc Hin Hc Hlen; [contradiction|].
  cbn [fold_left].
  destruct (in_dec (list_eq_dec N.eq_dec) k keys) as [Hlater|Hnot].
  - apply IH; [exact Hlater|exact Hc|rewrite set_col_length; exact Hlen].
  - destruct Hin as [->|Hin]; [|contradiction].
    assert (G : forall ks a, ~ In k ks ->
              col_val cols (fold_left (fun a k' => set_col cols a k' (col_val cols o k')) ks a) k = col_val cols a k).
    { induction ks as [|k1 ks IHk]; intros a Hn; cbn [fold_left]; [reflexivity|].
      rewrite IHk by (intro; apply Hn; right; assumption).
      apply col_val_set_other. intro; subst. apply Hn; left; reflexivity. }
    rewrite G by exact Hnot. apply col_val_set_same; assumption.
Qed.
