(* C09 — cell formatting follows the data cell.
   The rendered cell at page-relative row i, displayed column j takes every attribute by
   BroadcastValue.iloc from the page's attribute matrices.  For ALL rectangular attribute matrices:
     C09_broadcast    expanding an attribute to the full (rows x cols) grid keeps value[r mod R][c mod C]
                      at every (r, c): a scalar applies to every cell, a per-column vector to its column,
                      a full matrix cell by cell;
     C09_columns      after the expansion and the removal of page_by / subline_by columns, the value at
                      (r, displayed column j) is the user's value at (r, ORIGINAL column of j);
     C09_pages        the per-page re-basing makes page row i read table row start+i (matrices of two or
                      more rows), and leaves scalars / single rows alone — so the binding does not depend
                      on where the page breaks fall;
     C09_order        displayed column j of a row is original column (kept j) of that row;
     C09_page_binding (Proofs/BindingProofs.v) the composition, for EVERY rectangular attribute matrix, table size,
                      removed-column set, page start and height: the attribute the page reads for page row i,
                      displayed column j - after column slicing AND per-page re-basing - is the user's attribute at
                      table row start+i, original column of j;
     C09_page_fields  every attribute of the page's record except border_top / border_bottom IS that sliced and
                      re-based attribute (C07's border post-processing touches those two only).
   On the implementation, check_c09 applies the attributes at the cell's ORIGINAL (row, column) directly
   (expected_cell) and compares font, size, style, colours, justification, indents, spacing,
   hyphenation, border style / width / colour, vertical alignment, row height and \cellx of every data
   cell of every page (boundary borders of C07 excepted). *)
From Coq Require Import List NArith ZArith Bool Arith.
From V Require Import Str Doc Broadcast Paginate Pipeline BroadcastProofs BindingProofs.
Import ListNotations.
Local Open Scope nat_scope.

Theorem C09_broadcast : forall (A : Type) (v : mat A) rows cols r c C,
  v <> [] -> 0 < C -> rect v C -> r < rows -> c < cols ->
  match nth_error (to_list v rows cols) r with Some row => nth_error row c | None => None end = iloc v r c.
Proof. exact @to_list_entry. Qed.
Print Assumptions C09_broadcast.

Theorem C09_columns : forall (A : Type) (v : mat A) rows cols C rem r j k,
  v <> [] -> 0 < C -> rect v C -> r < rows ->
  nth_error (kept rem 0 cols) j = Some k ->
  iloc (map (drop_idx rem) (to_list v rows cols)) r j = iloc v r k.
Proof. exact @slice_binding. Qed.
Print Assumptions C09_columns.

Theorem C09_pages : forall (A : Type) (start h : nat) (v : mat A) i,
  2 <= length v -> i < h ->
  match rebase start h (Some v) with Some m => nth_error m i | None => None end
  = nth_error v ((start + i) mod length v).
Proof. exact @rebase_row. Qed.

Theorem C09_pages_scalar : forall (A : Type) (start h : nat) (v : mat A),
  length v <= 1 -> rebase start h (Some v) = Some v.
Proof. exact @rebase_small. Qed.

Theorem C09_order : forall (A : Type) (rem : list nat) (l : list A) j,
  nth_error (drop_idx rem l) j
  = match nth_error (kept rem 0 (length l)) j with Some k => nth_error l k | None => None end.
Proof. exact @drop_idx_nth. Qed.
Print Assumptions C09_order.

Theorem C09_page_binding : forall (A : Type) (v : mat A) n cols C rem start h i j k,
  v <> [] -> 0 < C -> rect v C -> start + i < n -> i < h ->
  nth_error (kept rem 0 cols) j = Some k ->
  get (rebase start h (slice_cols n cols rem (Some v))) i j = get (Some v) (start + i) k.
Proof. exact @page_binding. Qed.
Print Assumptions C09_page_binding.

Theorem C09_page_fields : forall s pattrs p w,
  pc_len p <> 0 ->
  let a := pb_attrs (process_page s pattrs p w) in
  let r := rebase_attrs (pc_slice_start p) (pc_len p) pattrs in
  a_font a = a_font r /\ a_format a = a_format r /\ a_size a = a_size r /\ a_color a = a_color r /\ a_bg a = a_bg r
  /\ a_just a = a_just r /\ a_ifirst a = a_ifirst r /\ a_ileft a = a_ileft r /\ a_iright a = a_iright r
  /\ a_space a = a_space r /\ a_sb a = a_sb r /\ a_sa a = a_sa r /\ a_hyph a = a_hyph r /\ a_conv a = a_conv r
  /\ a_bl a = a_bl r /\ a_br a = a_br r /\ a_bcl a = a_bcl r /\ a_bcr a = a_bcr r /\ a_bct a = a_bct r /\ a_bcb a = a_bcb r
  /\ a_bw a = a_bw r /\ a_ch a = a_ch r /\ a_cj a = a_cj r /\ a_cvj a = a_cvj r.
Proof. exact process_page_fields. Qed.

(* a 3x3 format matrix, column 1 removed: displayed column 1 of row 2 is original column 2 *)
Example C09_example :
  let v := [[1; 2; 3]; [4; 5; 6]; [7; 8; 9]] in
  iloc (map (drop_idx [1]) (to_list v 3 3)) 2 1 = Some 9 /\ rect v 3.
Proof. split; [reflexivity|repeat constructor]. Qed.
