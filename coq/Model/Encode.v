(* TextContent / Border / Cell / Row / TableAttributes._encode / TextAttributes._encode_text,
   producing structured RTF items. *)
From Coq Require Import Ascii String.
From Coq Require Import List NArith ZArith QArith Bool.
From V Require Import Str Num Tok Tables Items Doc Broadcast TextConv.
Import ListNotations.
Local Open Scope string_scope.
Local Open Scope list_scope.

(* ---- colour context ---- *)
Definition master_index (c : str) : option Z := option_map fst (assoc c color_table).

Definition significant (c : str) : bool := negb (str_eqb c []) && negb (str_eqb c (s2l "black")).

(* the dense table: used colours in master-table order *)
Definition sorted_palette (used : list str) : list (str * (Z * (Z * Z * Z))) :=
  filter (fun e => mem_str (fst e) used && significant (fst e)) color_table.

Fixpoint index_in (c : str) (l : list (str * (Z * (Z * Z * Z)))) (i : Z) : Z :=
  match l with
  | [] => 0%Z
  | (n, _) :: r => if str_eqb n c then i else index_in c r (i + 1)%Z
  end.

Definition all_valid (used : list str) : bool :=
  all_b (fun c => match master_index c with Some _ => true | None => false end) (filter significant used).

(* Utils._get_color_index under a context (None = no document context: master index) *)
Definition color_index (ctx : option (list str)) (c : str) : Z :=
  if negb (significant c) then 0%Z
  else match ctx with
       | None => match master_index c with Some i => i | None => 0%Z end
       | Some used =>
         if all_valid used then index_in c (sorted_palette used) 1%Z else 0%Z
       end.

(* ---- code tables ---- *)
Definition code_tokens (table : list (str * str)) (k : str) : option (list tok) :=
  option_map lex (assoc k table).

(* ---- TextContent ---- *)
Record tcontent := {
  t_text : str; t_font : Z; t_size : Q; t_format : option str; t_color : option str; t_bg : option str;
  t_just : str; t_if : Z; t_il : Z; t_ir : Z; t_space : Z; t_sb : Z; t_sa : Z; t_conv : bool; t_hyph : bool
}.

Definition mk_tcontent (a : attrs) (text : str) (r c : nat) : res tcontent :=
  do font <- getreq (a_font a) r c;
  do size <- getreq (a_size a) r c;
  do fmt <- get (a_format a) r c;
  do col <- get (a_color a) r c;
  do bg <- get (a_bg a) r c;
  do just <- getreq (a_just a) r c;
  do i1 <- getreq (a_ifirst a) r c;
  do i2 <- getreq (a_ileft a) r c;
  do i3 <- getreq (a_iright a) r c;
  do sp <- getreq (a_space a) r c;
  do sb <- getreq (a_sb a) r c;
  do sa <- getreq (a_sa a) r c;
  do conv <- getreq (a_conv a) r c;
  do hy <- getreq (a_hyph a) r c;
  Ok {| t_text := text; t_font := font; t_size := size; t_format := fmt; t_color := col; t_bg := bg;
        t_just := just; t_if := i1; t_il := i2; t_ir := i3; t_space := sp; t_sb := sb; t_sa := sa;
        t_conv := conv; t_hyph := hy |}.

Definition para_fmt (t : tcontent) : res (list tok) :=
  do j <- of_opt (code_tokens text_just_codes (t_just t)) ValueErr;
  Ok ([if t_hyph t then ctrl "hyphpar" else ctrlz "hyphpar" 0; ctrlz "sb" (t_sb t); ctrlz "sa" (t_sa t)]
      ++ (if Z.eqb (t_space t) 1 then [] else [ctrlz "sl" (t_space t * line_spacing_factor); ctrlz "slmult" 1])
      ++ [ctrlz "fi" (t_if t); ctrlz "li" (t_il t); ctrlz "ri" (t_ir t)] ++ j).

(* sorted(set(format)) *)
Fixpoint insert_sorted (c : N) (l : list N) : list N :=
  match l with
  | [] => [c]
  | x :: r => if N.eqb c x then l else if N.ltb c x then c :: l else x :: insert_sorted c r
  end.
Definition sorted_set (s : str) : list N := fold_right insert_sorted [] s.

Fixpoint fmt_tokens (cs : list N) : res (list tok) :=
  match cs with
  | [] => Ok []
  | c :: r =>
    do t <- of_opt (code_tokens format_codes [c]) ValueErr;
    do ts <- fmt_tokens r;
    Ok (t ++ ts)
  end.

Definition truthy (o : option str) : option str :=
  match o with Some [] => None | x => x end.

Definition text_run (ctx : option (list str)) (t : tcontent) : res run :=
  do f <- match t_format t with Some s => fmt_tokens (sorted_set s) | None => Ok [] end;
  Ok {| rn_fs := round_half_even (t_size t * (2 # 1));
        rn_f := (t_font t - 1)%Z;
        rn_cf := option_map (color_index ctx) (truthy (t_color t));
        rn_cb := option_map (color_index ctx) (truthy (t_bg t));
        rn_body := f ++ text_tokens (t_conv t) (t_text t) |}.

(* ---- Border / Cell / Row ---- *)
Definition mk_border (ctx : option (list str)) (style : omat str) (color : omat str) (w : omat Z)
           (r c : nat) : res bord :=
  do st <- getreq style r c;
  do wd <- getreq w r c;
  do col <- get color r c;
  do code <- of_opt (code_tokens border_codes st) ValueErr;
  Ok {| bd_style := code; bd_w := wd; bd_cf := option_map (color_index ctx) (truthy col) |}.

Definition nth_res {A} (l : list A) (n : nat) : res A := of_opt (nth_error l n) IndexErr.

(* one table row of TableAttributes._encode: vals are the frame row, r the attribute row (i + row_offset) *)
Fixpoint encode_cells (ctx : option (list str)) (a : attrs) (widths : list Q) (ncols : nat)
         (vals : list val) (r : nat) (j : nat) : res (list cell) :=
  match vals with
  | [] => Ok []
  | v :: rest =>
    do t <- mk_tcontent a (display v) r j;
    do pf <- para_fmt t;
    do rn <- text_run ctx t;
    do bl <- mk_border ctx (a_bl a) (a_bcl a) (a_bw a) r j;
    do bt <- mk_border ctx (a_bt a) (a_bct a) (a_bw a) r j;
    do bb <- mk_border ctx (a_bb a) (a_bcb a) (a_bw a) r j;
    do br <- (if Nat.eqb (S j) ncols
              then do b <- mk_border ctx (a_br a) (a_bcr a) (a_bw a) r j; Ok (Some b)
              else Ok None);
    do vjn <- getreq (a_cvj a) r j;
    do vj <- of_opt (code_tokens vert_codes vjn) OtherErr;
    do w <- nth_res widths j;
    do cells <- encode_cells ctx a widths ncols rest r (S j);
    Ok ({| ce_bl := Some bl; ce_bt := Some bt; ce_br := br; ce_bb := Some bb;
           ce_vj := vj; ce_x := twip w; ce_pf := pf; ce_run := rn |} :: cells)
  end.

Definition encode_row (ctx : option (list str)) (a : attrs) (widths : list Q) (vals : list val) (r : nat)
  : res row :=
  do cells <- encode_cells ctx a widths (length vals) vals r 0;
  do jn <- getreq (a_cj a) r 0;
  do j <- of_opt (code_tokens row_just_codes jn) ValueErr;
  do h <- getreq (a_ch a) r 0;
  Ok {| rw_gaph := Z.div (twip h) 2; rw_just := j; rw_cells := cells |}.

Fixpoint encode_rows (ctx : option (list str)) (a : attrs) (widths : list Q) (rows : list (list val))
         (r : nat) : res (list row) :=
  match rows with
  | [] => Ok []
  | vals :: rest =>
    do x <- encode_row ctx a widths vals r;
    do xs <- encode_rows ctx a widths rest (S r);
    Ok (x :: xs)
  end.

(* TableAttributes._encode(df, col_widths, row_offset) *)
Definition table_encode (ctx : option (list str)) (a : attrs) (widths : list Q) (rows : list (list val))
           (row_offset : nat) : res (list item) :=
  do rs <- encode_rows ctx a widths rows row_offset;
  Ok (map IRow rs).

(* ---- TextAttributes._encode_text ---- *)
Fixpoint text_runs (ctx : option (list str)) (a : attrs) (lines : list str) (i : nat)
  : res (list (tcontent * run)) :=
  match lines with
  | [] => Ok []
  | l :: rest =>
    do t <- mk_tcontent a l i 0;
    do rn <- text_run ctx t;
    do rs <- text_runs ctx a rest (S i);
    Ok ((t, rn) :: rs)
  end.

(* method="line": all lines in one paragraph whose paragraph attributes are those of the last line *)
Definition encode_text_line (ctx : option (list str)) (a : attrs) (lines : list str) : res (list item) :=
  do rs <- text_runs ctx a lines 0;
  match last_opt rs with
  | None => Err OtherErr        (* UnboundLocalError on an empty text list *)
  | Some (t, _) =>
    do pf <- para_fmt t;
    Ok [IPara pf (map snd rs)]
  end.

(* method="paragraph": one paragraph per line *)
Fixpoint paras_of (l : list (tcontent * run)) : res (list item) :=
  match l with
  | [] => Ok []
  | (t, rn) :: rest =>
    do pf <- para_fmt t;
    do ps <- paras_of rest;
    Ok (IPara pf [rn] :: ps)
  end.
Definition encode_text_paragraph (ctx : option (list str)) (a : attrs) (lines : list str) : res (list item) :=
  do rs <- text_runs ctx a lines 0;
  paras_of rs.

(* ---- Utils._col_widths ---- *)
Fixpoint cumul (acc : Q) (rel : list Q) (W T : Q) : list Q :=
  match rel with
  | [] => []
  | w :: r => let acc' := Qred (acc + w * W / T) in acc' :: cumul acc' r W T
  end.
Definition col_widths (rel : list Q) (W : Q) : list Q := cumul (0 # 1) rel W (qsum rel).
