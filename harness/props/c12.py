"""C12: colour and font references resolve to what the user asked for."""
import random

import gen
from rtflite.dictionary.color_table import color_table

from . import common

TRUSTED = ["C12 predicate check_c12 (Model/Checks.v): every colour index of the parsed output is resolved through the document's own \\colortbl and compared with the RGB of the colour the model (run without colour context) says the element requested"]
ASSUMPTIONS = ["which element requests which colour is taken from the model's attribute binding (validated by item-level correspondence); colour-table logic is not trusted"]

NAMES = [c[0] for c in color_table]


def paint(r, comp, palette, n=1, table=False, matrix=None):
    pick = lambda: r.choice(palette + [""])
    def val():
        if matrix:
            nr, nc = matrix
            k = r.random()
            if k < 0.3:
                return pick()
            if k < 0.6:
                return [[pick() for _ in range(nc)]]
            return [[pick() for _ in range(nc)] for _ in range(max(1, nr))]
        return [pick() for _ in range(n)] if (n > 1 and r.random() < 0.5) else pick()
    if r.random() < 0.8:
        comp["text_color"] = val()
    if r.random() < 0.5:
        comp["text_background_color"] = val()
    if table:
        for side in ("left", "right", "top", "bottom"):
            if r.random() < 0.35:
                comp[f"border_color_{side}"] = val()
    if r.random() < 0.6:
        comp["text_font"] = (lambda: r.randint(1, 10))() if not matrix else [[r.randint(1, 10) for _ in range(matrix[1])]]


def colour_doc(r, palette, kind=None):
    g = gen.DocGen(r.randrange(1 << 30))
    kind = kind or r.choice(["single", "single", "single", "multi", "figure"])
    if kind == "single":
        spec = g.single(strategy=r.choice(["plain", "page_by", "subline", "group_by"]), contiguous=True)
        nr, nc = len(spec["df"]["rows"]), len(spec["df"]["cols"])
        paint(r, spec["body"], palette, table=True, matrix=(nr, nc))
        for h in spec.get("headers") or []:
            if h:
                paint(r, h, palette, table=True, matrix=(1, len(h["text"])))
    elif kind == "multi":
        spec = g.multi()
        for s in spec["sections"]:
            sub = r.sample(palette, max(1, len(palette) // 2))
            paint(r, s["body"], sub, table=True, matrix=(len(s["df"]["rows"]), len(s["df"]["cols"])))
    else:
        spec = g.figure()
    for name, tag in (("title", "T"), ("subline", "S"), ("page_header", "P"), ("page_footer", "Q")):
        if name not in spec or spec[name] is None:
            spec[name] = g.text_component(tag)
        if spec[name]:
            t = spec[name].get("text")
            paint(r, spec[name], palette, n=len(t) if isinstance(t, list) else 1)
    for name, tag in (("footnote", "F"), ("source", "R")):
        if name not in spec:
            spec[name] = g.table_text(tag)
            if kind == "figure":
                spec[name]["as_table"] = False
        paint(r, spec[name], palette, table=spec[name].get("as_table", name == "footnote") and kind != "figure", matrix=(1, 1))
    return spec


def _alias_groups():
    """Names of the colour table that share one RGB value (white / gray100 / grey100, azure / azure1, ...)."""
    import collections

    by = collections.defaultdict(list)
    for c in color_table:
        by[tuple(c[2:5])].append(c[0])
    return [v for v in by.values() if len(v) > 1]


ALIASES = _alias_groups()
# colours whose alphabetical order differs from their order in the master table
ORDER_TRAPS = [["white", "aliceblue", "black"], ["gray9", "gray10", "gray100"], ["yellow", "blue", "antiquewhite"]]


def generate(g, i):
    r = g.r
    if i < 24:
        # directed palettes: same-RGB aliases used side by side, and names whose alphabetical and master orders differ
        if i % 2 == 0:
            grp = ALIASES[(i // 2 * 13) % len(ALIASES)]
            palette = list(grp) + r.sample(NAMES, 2)
        else:
            palette = ORDER_TRAPS[(i // 2) % len(ORDER_TRAPS)] + r.sample(NAMES, 1)
        return colour_doc(r, palette, kind=["single", "multi", "figure"][i % 3])
    palette = r.sample(NAMES, r.randint(1, 8))
    if r.random() < 0.15:
        palette += r.choice(ALIASES)
    return colour_doc(r, palette)


def run(ctx):
    res = common.run_docprop(ctx, "c12", generate, None, n_quick=170, n_thorough=1200,
                             nontrivial=lambda rec: int((rec["result"] or {}).get("nuses", "0")) > 0)
    if ctx.get("replay") or ctx["tier"] != "thorough":
        return res
    # every one of the named colours, in batches of 8, on every document kind
    r = random.Random(ctx["seed"] + 12)
    names = NAMES[:]
    r.shuffle(names)
    ex = []
    for i in range(0, len(names), 8):
        for kind in ("single", "multi", "figure"):
            ex.append((f"pal{i}_{kind}", colour_doc(r, names[i:i + 8], kind)))
    stats = {}
    bad = 0
    for lo in range(0, len(ex), 200):
        for rec in common.evaluate("c12", ex[lo:lo + 200]):
            cls = common.classify(rec)
            stats[cls] = stats.get(cls, 0) + 1
            if cls in ("holds", "corr", "build", "harness") and bad < 3:
                bad += 1
                res["failures"].append(common.make_failure(ctx, "c12", rec, cls, None, None, 100))
    res["coverage"]["exhaustive_colours"] = {"colours": len(names), "documents": len(ex), "outcomes": stats}
    res["coverage"]["evaluations"] += len(ex)
    return res
