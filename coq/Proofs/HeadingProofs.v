(* C05: which group headings are rendered, in which order, and that a data row follows them. *)
From Coq Require Import Ascii String.
From Coq Require Import List NArith ZArith QArith Bool Arith Lia.
From V Require Import Str Num Tok Items Doc Encode Paginate Pipeline GroupByProofs.
Import ListNotations.
Local Open Scope nat_scope.

(* ---- the plan: which page_by levels get a heading at a boundary ---- *)
Fixpoint heading_plan (keys : list str) (new last : list (str * val)) (force : bool) : list (str * val) :=
  match keys with
  | [] => []
  | k :: rest =>
    match lookup_val k new with
    | None | Some VNull => heading_plan rest new last force
    | Some v =>
      if negb (str_eqb (py_str v) (opt_py_str (lookup_val k last))) || force
      then (k, v) :: heading_plan rest new last true
      else heading_plan rest new last force
    end
  end.

Fixpoint render_plan (ctx : option (list str)) (s : secdoc) (plan : list (str * val)) : res (list item) :=
  match plan with
  | [] => Ok []
  | (k, v) :: rest =>
    do here <- spanning_row ctx s (py_str v) (orig_col_index s k);
    do more <- render_plan ctx s rest;
    Ok (here ++ more)
  end.

(* the renderer's force_render loop renders exactly the plan, in plan order *)
Theorem boundary_headings_plan ctx s keys new last force :
  boundary_headings ctx s keys new last force = render_plan ctx s (heading_plan keys new last force).
Proof.
  revert force; induction keys as [|k rest IH]; intros force; cbn [boundary_headings heading_plan]; [reflexivity|].
  destruct (lookup_val k new) as [[| | |]|]; try apply IH;
    (destruct (negb (str_eqb _ _) || force); [cbn [render_plan]; rewrite IH; reflexivity|apply IH]).
Qed.

(* outer before inner: the planned levels are a subsequence of the page_by columns, in their order *)
Inductive subseq {A} : list A -> list A -> Prop :=
| sub_nil l : subseq [] l
| sub_skip x l1 l2 : subseq l1 l2 -> subseq l1 (x :: l2)
| sub_take x l1 l2 : subseq l1 l2 -> subseq (x :: l1) (x :: l2).

Theorem plan_order keys new last force : subseq (map fst (heading_plan keys new last force)) keys.
Proof.
  revert force; induction keys as [|k rest IH]; intros force; cbn [heading_plan]; [constructor|].
  destruct (lookup_val k new) as [[| | |]|]; try (apply sub_skip; apply IH);
    (destruct (negb (str_eqb _ _) || force); [cbn [map fst]; apply sub_take; apply IH|apply sub_skip; apply IH]).
Qed.

(* hierarchical re-rendering: once a level is rendered, every inner level that has a value is rendered too *)
Theorem plan_forced keys new last k v :
  lookup_val k new = Some v -> v <> VNull -> In k keys ->
  In (k, v) (heading_plan keys new last true).
Proof.
  intros Hl Hv. induction keys as [|k0 rest IH]; intro Hin; [contradiction|].
  cbn [heading_plan].
  destruct (list_eq_dec N.eq_dec k0 k) as [->|Hne].
  - rewrite Hl. destruct v; try congruence; rewrite orb_true_r; left; reflexivity.
  - destruct Hin as [->|Hin]; [congruence|].
    destruct (lookup_val k0 new) as [[| | |]|]; try (apply IH; exact Hin);
      rewrite orb_true_r; right; apply IH; exact Hin.
Qed.

(* a level whose value changed is rendered, whatever happened before it *)
Theorem plan_changed keys new last force k v :
  NoDup keys -> In k keys -> lookup_val k new = Some v -> v <> VNull ->
  str_eqb (py_str v) (opt_py_str (lookup_val k last)) = false ->
  In (k, v) (heading_plan keys new last force).
Proof.
  intros Hnd Hin Hl Hv Hch. revert force. induction keys as [|k0 rest IH]; intros force; [contradiction|].
  inversion Hnd as [|? ? Hnotin Hnd']; subst. cbn [heading_plan].
  destruct Hin as [->|Hin].
  - rewrite Hl. destruct v; try congruence; rewrite Hch; cbn [negb orb]; left; reflexivity.
  - destruct (lookup_val k0 new) as [[| | |]|]; try (apply IH; assumption);
      (destruct (negb (str_eqb _ _) || force); [right|]; apply IH; assumption).
Qed.

(* nothing is rendered for a boundary at which no level changed (and nothing forces it) *)
Theorem plan_unchanged keys new last :
  (forall k v, lookup_val k new = Some v -> v <> VNull ->
               str_eqb (py_str v) (opt_py_str (lookup_val k last)) = true) ->
  heading_plan keys new last false = [].
Proof.
  intro H. induction keys as [|k rest IH]; [reflexivity|]. cbn [heading_plan].
  destruct (lookup_val k new) as [v|] eqn:E; [|exact IH].
  destruct v; try exact IH; rewrite (H k _ E) by congruence; cbn [negb orb]; exact IH.
Qed.

(* divider values and nulls never produce a heading: they are filtered from the group values *)
Theorem group_values_no_divider cols keys row k v :
  In (k, v) (group_values cols keys row) -> str_eqb (py_str v) divider = false.
Proof.
  unfold group_values. intro H. apply in_flat_map in H as (k0 & _ & H).
  destruct (str_eqb (py_str (col_val cols row k0)) divider) eqn:E; [contradiction|].
  destruct H as [H|[]]. inversion H; subst. exact E.
Qed.

(* ---- boundaries: strictly increasing page-relative rows, each inside the page ---- *)
Lemma boundaries_from_range cols keys prev rows rel :
  Forall (fun b => rel <= fst b < rel + length rows) (boundaries_from cols keys prev rows rel).
Proof.
  revert prev rel; induction rows as [|r rows IH]; intros prev rel; cbn [boundaries_from]; [constructor|].
  apply Forall_app. split.
  - destruct (raw_differs cols keys prev r); [|constructor]. constructor; [cbn; lia|constructor].
  - eapply Forall_impl; [|apply IH]. intros b Hb. cbn [length]. cbn in Hb. lia.
Qed.

Fixpoint increasing (l : list nat) : Prop :=
  match l with
  | a :: ((b :: _) as r) => a < b /\ increasing r
  | _ => True
  end.

Lemma boundaries_from_increasing cols keys prev rows rel :
  increasing (map fst (boundaries_from cols keys prev rows rel)).
Proof.
  revert prev rel; induction rows as [|r rows IH]; intros prev rel; cbn [boundaries_from]; [exact I|].
  destruct (raw_differs cols keys prev r); cbn [app map]; [|apply IH].
  specialize (IH r (S rel)).
  pose proof (boundaries_from_range cols keys r rows (S rel)) as Hr.
  destruct (boundaries_from cols keys r rows (S rel)) as [|b bs]; [exact I|].
  cbn [map fst increasing]. split; [|exact IH].
  inversion Hr as [|? ? Hb _]; subst. cbn in Hb. cbn. lia.
Qed.

(* every in-page boundary lies strictly inside the page: rows precede it and at least one row follows,
   so the headings of a boundary are directly followed by the first data row of the new group *)
Theorem boundaries_inside f keys start len :
  Forall (fun b => 1 <= fst b < len) (boundaries f keys start len) \/ boundaries f keys start len = [].
Proof.
  unfold boundaries.
  destruct (firstn len (skipn start (f_rows f))) as [|r rest] eqn:E; [right; reflexivity|].
  left. pose proof (boundaries_from_range (f_cols f) keys r rest 1) as H.
  assert (Hl : length (r :: rest) <= len) by (rewrite <- E; apply firstn_le_length).
  eapply Forall_impl; [|exact H]. intros b Hb. cbn in Hb, Hl. lia.
Qed.

Theorem boundaries_increasing f keys start len : increasing (map fst (boundaries f keys start len)).
Proof.
  unfold boundaries. destruct (firstn len (skipn start (f_rows f))); [exact I|]. apply boundaries_from_increasing.
Qed.
