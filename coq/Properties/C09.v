(* C09 — cell formatting follows the data cell.
   The rendered cell at page-relative row i, displayed column j takes every attribute by
   BroadcastValue.iloc from the page's attribute matrices.  For ALL rectangular attribute matrices:
     C09_broadcast    expanding an attribute to the full (rows x cols) grid keeps value[r mod R][c mod C]
                      at every (r, c): a scalar applies to every cell, a per-column vector to its column,
                      a full matrix cell by cell;
     C09_columns      after the expansion and the removal of page_by / subline_by columns, the value at
                      (r, displayed column j) is the user's value at (r, ORIGINAL column of j);
     C09_pages        the per-page re-basing makes page row i read table row start+i (matrices of two or
                      more rows), and leaves scalars / single rows alone — so the binding does not depend
                      on where the page breaks fall;
     C09_order        displayed column j of a row is original column (kept j) of that row.
   On the implementation, check_c09 applies the attributes at the cell's ORIGINAL (row, column) directly
   (expected_cell) and compares font, size, style, colours, justification, indents, spacing,
   hyphenation, border style / width / colour, vertical alignment, row height and \cellx of every data
   cell of every page (boundary borders of C07 excepted). *)
From Coq Require Import List NArith ZArith Bool Arith.
From V Require Import Str Doc Broadcast Pipeline BroadcastProofs.
Import ListNotations.
Local Open Scope nat_scope.

Theorem C09_broadcast : forall (A : Type) (v : mat A) rows cols r c C,
  v <> [] -> 0 < C -> rect v C -> r < rows -> c < cols ->
  match nth_error (to_list v rows cols) r with Some row => nth_error row c | None => None end = iloc v r c.
Proof. exact @to_list_entry. Qed.
Print Assumptions C09_broadcast.

Theorem C09_columns : forall (A : Type) (v : mat A) rows cols C rem r j k,
  v <> [] -> 0 < C -> rect v C -> r < rows ->
  nth_error (kept rem 0 cols) j = Some k ->
  iloc (map (drop_idx rem) (to_list v rows cols)) r j = iloc v r k.
Proof. exact @slice_binding. Qed.
Print Assumptions C09_columns.

Theorem C09_pages : forall (A : Type) (start h : nat) (v : mat A) i,
  2 <= length v -> i < h ->
  match rebase start h (Some v) with Some m => nth_error m i | None => None end
  = nth_error v ((start + i) mod length v).
Proof. exact @rebase_row. Qed.

Theorem C09_pages_scalar : forall (A : Type) (start h : nat) (v : mat A),
  length v <= 1 -> rebase start h (Some v) = Some v.
Proof. exact @rebase_small. Qed.

Theorem C09_order : forall (A : Type) (rem : list nat) (l : list A) j,
  nth_error (drop_idx rem l) j
  = match nth_error (kept rem 0 (length l)) j with Some k => nth_error l k | None => None end.
Proof. exact @drop_idx_nth. Qed.
Print Assumptions C09_order.

(* a 3x3 format matrix, column 1 removed: displayed column 1 of row 2 is original column 2 *)
Example C09_example :
  let v := [[1; 2; 3]; [4; 5; 6]; [7; 8; 9]] in
  iloc (map (drop_idx [1]) (to_list v 3 3)) 2 1 = Some 9 /\ rect v 3.
Proof. split; [reflexivity|repeat constructor]. Qed.
