(* Exact rational arithmetic for lengths; Python round()/int() on them. *)
From Coq Require Import ZArith QArith Qround List.
Import ListNotations.
Local Open Scope Z_scope.

(* floor and round-half-even of a rational *)
Definition qfloor (q : Q) : Z := Qfloor q.

Definition round_half_even (q : Q) : Z :=
  let n := Qnum q in
  let d := Zpos (Qden q) in
  let f := Z.div n d in              (* floor *)
  let r2 := 2 * (n - f * d) in       (* 2 * remainder, in [0, 2d) *)
  if r2 <? d then f
  else if d <? r2 then f + 1
  else if Z.even f then f else f + 1.

(* int(x): truncation toward zero *)
Definition qtrunc (q : Q) : Z :=
  let n := Qnum q in
  let d := Zpos (Qden q) in
  Z.quot n d.

Definition is_half_tie (q : Q) : bool :=
  let n := Qnum q in
  let d := Zpos (Qden q) in
  let f := Z.div n d in
  Z.eqb (2 * (n - f * d)) d.

Definition is_int_tie (q : Q) : bool :=
  Z.eqb (Z.modulo (Qnum q) (Zpos (Qden q))) 0.

Definition twip (q : Q) : Z := round_half_even (q * (1440 # 1)).

Definition qred (q : Q) : Q := Qred q.

Definition Qeqb (a b : Q) : bool := Qeq_bool a b.
Definition Qleb (a b : Q) : bool := Qle_bool a b.
Definition Qltb (a b : Q) : bool := negb (Qle_bool b a).

Fixpoint qsum (l : list Q) : Q :=
  match l with
  | [] => 0 # 1
  | x :: r => Qred (x + qsum r)
  end.

Definition ZtoQ (z : Z) : Q := z # 1.
