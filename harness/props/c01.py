"""C01: every accepted document encodes to well-formed RTF."""
from . import common

TRUSTED = ["C01 predicate wf_rtf (Rtf/WellFormed.v) evaluated by the extracted driver on lex(rtf_encode())"]
ASSUMPTIONS = ["user text contains no raw RTF metacharacters except balanced, lexically valid fragments (as the quantifier says)"]


# characters whose escape needs care: Latin-1, BMP below and above U+7FFF (the signed wrap), and beyond the BMP (surrogate pairs)
UNI = ["\u00e9", "\u00b1", "\u2265", "\u7fff", "\u8000", "\uffee", "\U00010000", "\U0001f600", "\U00020bb7", "\U0010fffd",
       "\U0001d49c x", "a\U0001f9ea\u00e9b"]


def probe(t):
    """One string in every text-bearing position of a small paginated document."""
    rows = [[f"#{i}# {t}", f"@A{i // 2}{t}", f"@S{i // 3}{t}", t] for i in range(4)]
    return {"df": {"cols": ["id", "g0", "s0", "c0"], "rows": rows},
            "body": {"page_by": ["g0"], "subline_by": ["s0"]}, "page": {"nrow": 12},
            "title": {"text": ["T0 " + t, "T1 " + t]}, "subline": {"text": "S0 " + t},
            "headers": [{"text": ["H0 " + t, "H1 " + t]}],
            "footnote": {"text": "F0 " + t, "as_table": True}, "source": {"text": "R0 " + t, "as_table": False},
            "page_header": {"text": "P0 " + t}, "page_footer": {"text": "Q0 " + t},
            "kind": "single", "strategy": "probe"}


def sprinkle(spec, r):
    """Append non-ASCII snippets to some of the texts of a generated document."""
    def bump(c):
        if isinstance(c, dict) and "text" in c:
            t = c["text"]
            if isinstance(t, list):
                c["text"] = [x + " " + r.choice(UNI) if r.random() < 0.5 else x for x in t]
            elif isinstance(t, str):
                c["text"] = t + " " + r.choice(UNI)
    for k in ("title", "subline", "footnote", "source", "page_header", "page_footer"):
        if r.random() < 0.5:
            bump(spec.get(k))
    frames = [spec["df"]] if "df" in spec else [sec["df"] for sec in spec.get("sections", [])]
    for df in frames:
        for row in df["rows"]:
            for j, v in enumerate(row):
                if isinstance(v, str) and r.random() < 0.2:
                    row[j] = v + r.choice(UNI)
    return spec


def generate(g, i):
    if i < len(UNI):
        return probe(UNI[i])
    spec = g.any_doc()
    if g.r.random() < 0.25:
        sprinkle(spec, g.r)
    return spec


def signature(spec, result):
    return None


def run(ctx):
    return common.run_docprop(ctx, "c01", generate, signature, n_quick=160 + len(UNI), n_thorough=3000 + len(UNI))
