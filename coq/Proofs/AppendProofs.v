(* C04, "appending rows never changes how the earlier rows were paginated", at the level of row metadata + assignment:
   the metadata of the first n rows does not depend on rows appended after them, and neither do their page numbers. *)
From Coq Require Import Ascii String.
From Coq Require Import List NArith ZArith QArith Bool Arith Lia.
From V Require Import Str Num Doc Broadcast Paginate.
From V Require Import PaginateProofs DocumentWF.
Import ListNotations.
Local Open Scope list_scope.
Local Open Scope nat_scope.

Lemma last_cons_default {A} (l : list A) : forall x d, last (x :: l) d = last l x.
Proof.
  induction l as [|y l IH]; intros x d; [reflexivity|].
  change (last (x :: y :: l) d) with (last (y :: l) d). rewrite (IH y d), (IH y x). reflexivity.
Qed.

Lemma changes_from_app cols keys prev a b :
  changes_from cols keys prev (a ++ b) = changes_from cols keys prev a ++ changes_from cols keys (last a prev) b.
Proof.
  revert prev; induction a as [|r a IH]; intro prev; [reflexivity|].
  cbn [app changes_from]. rewrite IH. rewrite (last_cons_default a r prev). reflexivity.
Qed.

Lemma changes_from_length cols keys prev rows : length (changes_from cols keys prev rows) = length rows.
Proof. revert prev; induction rows as [|r rows IH]; intro prev; [reflexivity|]. cbn. f_equal. apply IH. Qed.

Lemma changes_length cols keys rows : length (changes cols keys rows) = length rows.
Proof. destruct rows as [|r rows]; [reflexivity|]. cbn. f_equal. apply changes_from_length. Qed.

Lemma changes_app cols keys a b : exists tail, changes cols keys (a ++ b) = changes cols keys a ++ tail.
Proof.
  destruct a as [|r a]; [exists (changes cols keys b); reflexivity|].
  cbn [app changes]. rewrite changes_from_app. eexists. reflexivity.
Qed.

Lemma metas_prefix widths fonts sizes cols rem cw pb sl rows extra :
  forall i pbc slc pbc' slc' ms',
  length pbc = length rows -> length slc = length rows ->
  metas widths fonts sizes i cols rem cw pb sl (rows ++ extra) (pbc ++ pbc') (slc ++ slc') = Ok ms' ->
  exists ms, metas widths fonts sizes i cols rem cw pb sl rows pbc slc = Ok ms /\ firstn (length rows) ms' = ms.
Proof.
  induction rows as [|row rows IH]; intros i pbc slc pbc' slc' ms' Hp Hs H.
  - exists []. split; reflexivity.
  - destruct pbc as [|pb0 pbc]; [discriminate|]. destruct slc as [|sl0 slc]; [discriminate|].
    cbn [app metas List.hd List.tl] in H |- *. do 4 inv_bind H. inv_ok H.
    destruct (IH (S i) pbc slc pbc' slc' x2 ltac:(cbn in Hp; lia) ltac:(cbn in Hs; lia) E2) as (ms & Hm & Hf).
    rewrite E; cbn [bind]. rewrite E0; cbn [bind]. rewrite E1; cbn [bind]. rewrite Hm; cbn [bind].
    eexists. split; [reflexivity|]. cbn [length firstn]. rewrite Hf. reflexivity.
Qed.

Definition with_rows (f : frame) (rows : list (list val)) : frame := {| f_cols := f_cols f; f_rows := rows |}.

Theorem row_metadata_prefix widths fonts sizes cols rows extra rem cw pb sl ms' :
  row_metadata widths fonts sizes {| f_cols := cols; f_rows := rows ++ extra |} rem cw pb sl = Ok ms' ->
  exists ms, row_metadata widths fonts sizes {| f_cols := cols; f_rows := rows |} rem cw pb sl = Ok ms
             /\ firstn (length rows) ms' = ms.
Proof.
  unfold row_metadata. cbn [f_cols f_rows]. intro H.
  set (pbc := match pb with Some ((_ :: _) as k) => changes cols k rows | _ => map (fun _ => true) rows end).
  set (slc := match sl with Some ((_ :: _) as k) => changes cols k rows | _ => map (fun _ => true) rows end).
  assert (Hp : exists t, match pb with Some ((_ :: _) as k) => changes cols k (rows ++ extra) | _ => map (fun _ => true) (rows ++ extra) end = pbc ++ t).
  { subst pbc. destruct pb as [[|k ks]|]; try (rewrite map_app; eexists; reflexivity). apply changes_app. }
  assert (Hs : exists t, match sl with Some ((_ :: _) as k) => changes cols k (rows ++ extra) | _ => map (fun _ => true) (rows ++ extra) end = slc ++ t).
  { subst slc. destruct sl as [[|k ks]|]; try (rewrite map_app; eexists; reflexivity). apply changes_app. }
  destruct Hp as [t1 Hp]. destruct Hs as [t2 Hs]. rewrite Hp, Hs in H.
  apply (metas_prefix _ _ _ _ _ _ _ _ rows extra 0 pbc slc t1 t2 ms').
  - subst pbc. destruct pb as [[|k ks]|]; try apply map_length. apply changes_length.
  - subst slc. destruct sl as [[|k ks]|]; try apply map_length. apply changes_length.
  - exact H.
Qed.

(* the page numbers of the first n rows do not depend on the rows appended after them *)
Theorem append_keeps_pages widths fonts sizes cols rows extra rem cw pb sl nrow add np ms' :
  row_metadata widths fonts sizes {| f_cols := cols; f_rows := rows ++ extra |} rem cw pb sl = Ok ms' ->
  exists ms, row_metadata widths fonts sizes {| f_cols := cols; f_rows := rows |} rem cw pb sl = Ok ms /\
             firstn (length rows) (assign_pages nrow add np ms') = assign_pages nrow add np ms.
Proof.
  intro H. destruct (row_metadata_prefix _ _ _ _ _ _ _ _ _ _ _ H) as (ms & Hm & Hf). exists ms. split; [exact Hm|].
  assert (Hl : length ms = length rows).
  { unfold row_metadata in Hm. cbn [f_cols f_rows] in Hm. clear -Hm.
    revert Hm. generalize 0 at 1. generalize (match pb with Some ((_ :: _) as k) => changes cols k rows | _ => map (fun _ => true) rows end).
    generalize (match sl with Some ((_ :: _) as k) => changes cols k rows | _ => map (fun _ => true) rows end).
    revert ms. induction rows as [|r rows IH]; intros ms slc pbc i Hm; cbn [metas] in Hm; [inv_ok Hm; reflexivity|].
    do 4 inv_bind Hm. inv_ok Hm. cbn [length]. f_equal. eapply IH. eassumption. }
  rewrite <- (firstn_skipn (length rows) ms'). rewrite Hf. rewrite <- Hl.
  apply assign_prefix.
Qed.
