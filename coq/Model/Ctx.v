(* The process-level shell around encoding: the colour context as explicit (per-thread) state.
   Generic in the document type: enc ctx d is the encoder run under context ctx, pal d the document's palette. *)
From Coq Require Import List NArith ZArith Bool Arith.
From V Require Import Str Doc.
Import ListNotations.

Section Shell.
  Variables (D O : Type).
  Variable pal : D -> list str.
  Variable enc : option (list str) -> D -> res O.

  Definition ctx := option (list str).

  Inductive op := Construct (d : D) | Encode (d : D).

  (* the repaired encoder: set the context for every path, encode, always clear (finally) *)
  Definition step (s : ctx) (o : op) : ctx * option (res O) :=
    match o with
    | Construct _ => (s, None)
    | Encode d =>
      let s1 : ctx := Some (pal d) in
      let out := enc s1 d in
      (None, Some out)
    end.

  Fixpoint run (s : ctx) (h : list op) : ctx * list (option (res O)) :=
    match h with
    | [] => (s, [])
    | o :: r =>
      let '(s1, out) := step s o in
      let '(s2, outs) := run s1 r in
      (s2, out :: outs)
    end.

  (* the encoder before the repairs: only the single-section path (uses_ctx d = true) set the context,
     nothing cleared it when encoding raised, the other paths read whatever was left *)
  Variable uses_ctx : D -> bool.
  Definition step_old (s : ctx) (o : op) : ctx * option (res O) :=
    match o with
    | Construct _ => (s, None)
    | Encode d =>
      if uses_ctx d then
        let s1 : ctx := Some (pal d) in
        match enc s1 d with
        | Ok x => (None, Some (Ok x))
        | Err e => (s1, Some (Err e))          (* no finally: the palette stays behind *)
        end
      else (s, Some (enc s d))
    end.

  Fixpoint run_old (s : ctx) (h : list op) : ctx * list (option (res O)) :=
    match h with
    | [] => (s, [])
    | o :: r =>
      let '(s1, out) := step_old s o in
      let '(s2, outs) := run_old s1 r in
      (s2, out :: outs)
    end.

  (* ---- threads: every thread has its own context (threading.local) ---- *)
  Definition tctx := list (nat * ctx).     (* thread id -> its context *)

  Fixpoint tget (t : nat) (s : tctx) : ctx :=
    match s with [] => None | (k, v) :: r => if Nat.eqb k t then v else tget t r end.
  Fixpoint tset (t : nat) (v : ctx) (s : tctx) : tctx :=
    match s with
    | [] => [(t, v)]
    | (k, w) :: r => if Nat.eqb k t then (k, v) :: r else (k, w) :: tset t v r
    end.

  (* one encode = Set, a number of Gets (colour look-ups), Clear; a schedule interleaves such events *)
  Inductive ev := ESet (t : nat) (d : D) | EGet (t : nat) | EClear (t : nat).

  (* what each Get of thread t observes *)
  Fixpoint observe (s : tctx) (sched : list ev) : list (nat * ctx) :=
    match sched with
    | [] => []
    | ESet t d :: r => observe (tset t (Some (pal d)) s) r
    | EGet t :: r => (t, tget t s) :: observe s r
    | EClear t :: r => observe (tset t None s) r
    end.

  (* with ONE shared context (the code before the repair) *)
  Fixpoint observe_shared (s : ctx) (sched : list ev) : list (nat * ctx) :=
    match sched with
    | [] => []
    | ESet _ d :: r => observe_shared (Some (pal d)) r
    | EGet t :: r => (t, s) :: observe_shared s r
    | EClear _ :: r => observe_shared None r
    end.
End Shell.

Arguments Construct {D} d.
Arguments Encode {D} d.
Arguments ESet {D} t d.
Arguments EGet {D} t.
Arguments EClear {D} t.
