From Coq Require Import Extraction ExtrOcamlBasic.
From V Require Import Case Driver.
Extraction Language OCaml.
Extraction "../ocaml/gen/model.ml" run_case run_case'.
