"""C05: every data row sits under its own group heading on its own page."""
import gen

from . import common

TRUSTED = ["C05 predicate check_c05 (Model/Checks.v): sequence of full-width heading rows / subline paragraphs and tagged data rows per parsed page"]
ASSUMPTIONS = ["group keys sorted (hierarchically contiguous), level-specific labels (@A.. outer, @B.., @C..) so that a heading's level is recognisable"]


def generate(g, i):
    r = g.r
    strategy = r.choice(["page_by", "page_by", "page_by", "subline", "subline+page_by"])
    nrows = r.choice([1, 2, 3, 5, 8, 13, 21, 30])
    spec = g.single(strategy=strategy, nrows=nrows, header_mode=r.choice(["default", "explicit", "none", "no_colheader"]))
    spec["body"].pop("group_by", None)
    spec["page"]["nrow"] = r.randint(3, 12)
    return spec


def run(ctx):
    return common.run_docprop(ctx, "c05", generate, None, n_quick=180, n_thorough=3000)
