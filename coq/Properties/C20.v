(* C20 — string width measurement is consistent.
   Model: StrWidth.v — width = sum of glyph advances + kerning of adjacent pairs (integers in 1/64 px at
   the reference size 12, dumped from the bundled font files through Pillow into Gen/Advances.v), scaled
   linearly with the font size, then converted.
     C20_empty        the empty string has width 0;
     C20_nonneg / C20_append   (all strings, all ten fonts) width >= 0 and appending a character never
                      decreases it — from the finite facts `every advance >= 0` and `advance(b) +
                      kern(a,b) >= 0` checked on the dumped tables (the dumped character range is the
                      bound: printable ASCII, Latin-1 without U+00AD, Greek);
     C20_units        in * dpi = px and mm = in * 25.4, exactly (rational arithmetic);
     C20_name_number  every font name resolves to the same font as its number; unsupported fonts and
                      units are refused with ValueError;
     C20_mono         the monospaced font (number 9) has one advance for every dumped glyph and no
                      kerning, hence width = count x advance.
     C20_api_nonneg / C20_api_empty / C20_api_append   the same three facts for the whole function
                      get_string_width (font resolution, scaling, unit conversion), for every font
                      reference, size >= 0, dpi > 0 and unit on which it answers at all;
     C20_model_linear the model's pixel width at k times the size is exactly k times the width (the
                      model's own scaling law; the implementation is compared with it to within 1 %).
   C20_partial: "scales with the font size to within one percent" concerns FreeType's hinting and 26.6
   rounding at sizes other than the reference; the model is linear by construction, and the relation is
   a sampled check against the implementation (harness/props/c20.py), not a theorem.  At the reference
   size the model's width must equal get_string_width exactly (in 1/64 px). *)
From Coq Require Import Ascii String.
From Coq Require Import List NArith ZArith QArith Bool Arith.
From V Require Import Str Num Tables Advances Doc StrWidth StrWidthProofs.
Import ListNotations.
Local Open Scope string_scope.
Local Open Scope list_scope.
Local Open Scope Z_scope.

Theorem C20_empty : forall adv kern, width64 adv kern [] = 0.
Proof. exact width64_empty. Qed.

Theorem C20_nonneg : forall font adv kern s,
  font_metrics font = Some (adv, kern) -> 0 <= width64 adv kern s.
Proof. exact font_width_nonneg. Qed.
Print Assumptions C20_nonneg.

Theorem C20_append : forall font adv kern s c,
  font_metrics font = Some (adv, kern) -> width64 adv kern s <= width64 adv kern (s ++ [c]).
Proof. exact font_width_append_mono. Qed.
Print Assumptions C20_append.

Theorem C20_units : forall dpi px, ~ dpi == 0 ->
  (convert UIn dpi px * dpi == convert UPx dpi px)%Q /\ (convert UMm dpi px == convert UIn dpi px * (254 # 10))%Q.
Proof. exact units_exact. Qed.

Theorem C20_name_number :
  forallb (fun kv => match resolve_font (FName (fst kv)), resolve_font (FNum (snd kv)) with
                     | Ok a, Ok b => Z.eqb a b | _, _ => false end) font_name_to_number = true
  /\ resolve_font (FNum 0) = Err ValueErr /\ resolve_font (FNum 11) = Err ValueErr
  /\ resolve_font (FName (s2l "Comic Sans")) = Err ValueErr /\ unit_of (s2l "cm") = Err ValueErr.
Proof. exact (conj name_number_agree unsupported_refused). Qed.

Theorem C20_mono : mono_ok = true /\
  forall adv a0 s, (forall c, In c s -> advance adv c = a0) -> width64 adv [] s = Z.of_nat (length s) * a0.
Proof. exact (conj mono_ok_true width_uniform). Qed.
Print Assumptions C20_mono.

Theorem C20_api_nonneg : forall s f size unit dpi w,
  (0 <= size)%Q -> (0 < dpi)%Q -> get_string_width s f size unit dpi = Ok w -> (0 <= w)%Q.
Proof. exact get_string_width_nonneg. Qed.
Print Assumptions C20_api_nonneg.

Theorem C20_api_empty : forall f size unit dpi w,
  get_string_width [] f size unit dpi = Ok w -> (w == 0)%Q.
Proof. exact get_string_width_empty. Qed.
Print Assumptions C20_api_empty.

Theorem C20_api_append : forall s c f size unit dpi w1 w2,
  (0 <= size)%Q -> (0 < dpi)%Q ->
  get_string_width s f size unit dpi = Ok w1 -> get_string_width (s ++ [c]) f size unit dpi = Ok w2 -> (w1 <= w2)%Q.
Proof. exact get_string_width_append_mono. Qed.
Print Assumptions C20_api_append.

Theorem C20_model_linear : forall font size k s q1 q2,
  width_px font size s = Ok q1 -> width_px font (k * size) s = Ok q2 -> (q2 == k * q1)%Q.
Proof. exact width_px_linear. Qed.
Print Assumptions C20_model_linear.

(* non-vacuity: the function answers on a concrete call *)
Example C20_api_answers :
  exists w, get_string_width (s2l "Table 1") (FNum 1) (9 # 1) (s2l "in") (72 # 1) = Ok w /\ (0 < w)%Q.
Proof. eexists; split; [vm_compute; reflexivity|reflexivity]. Qed.
