From Coq Require Import Ascii String.
From Coq Require Import List NArith ZArith QArith Bool Arith Lia.
From V Require Import Str Num Tok Items Doc Paginate Checks.
From V Require Import DocumentWF.
Import ListNotations.
Local Open Scope list_scope.

(* "divider values never cost a data row": a row all of whose grouping values are the divider is budgeted with its data
   lines only, whether or not it starts a group *)
Definition all_divider (cols keys : list str) (row : list val) : Prop :=
  Forall (fun k => str_eqb (py_str (col_val cols row k)) divider = true) keys.

Lemma heading_text_all_divider cols keys row : all_divider cols keys row -> heading_text cols keys row = [].
Proof.
  intro H. unfold heading_text.
  replace (flat_map _ keys) with (@nil str); [reflexivity|].
  symmetry. induction H as [|k keys Hk _ IH]; [reflexivity|]. cbn [flat_map]. rewrite Hk. exact IH.
Qed.

Theorem divider_row_costs_its_lines widths fonts sizes i cols removed cw pb sl row rest pbc slc m ms :
  metas widths fonts sizes i cols removed cw pb sl (row :: rest) pbc slc = Ok (m :: ms) ->
  (forall keys, pb = Some keys -> all_divider cols keys row) ->
  (forall keys, sl = Some keys -> all_divider cols keys row) ->
  rm_pb m = 0%Z /\ rm_sl m = 0%Z /\ rm_total m = rm_data m.
Proof.
  intros H Hpb Hsl. cbn [metas] in H.
  inv_bind H. inv_bind H. inv_bind H. inv_bind H. inv_ok H. cbn [rm_pb rm_sl rm_total rm_data].
  assert (Z1 : x0 = 0%Z).
  { destruct pb as [keys|]; [|inv_ok E0; reflexivity].
    rewrite (heading_text_all_divider cols keys row (Hpb keys eq_refl)) in E0.
    destruct (hd true pbc && negb match keys with [] => true | _ => false end); inv_ok E0; reflexivity. }
  assert (Z2 : x1 = 0%Z).
  { destruct sl as [keys|]; [|inv_ok E1; reflexivity].
    rewrite (heading_text_all_divider cols keys row (Hsl keys eq_refl)) in E1.
    destruct (hd true slc && negb match keys with [] => true | _ => false end); inv_ok E1; reflexivity. }
  subst. repeat split; lia.
Qed.

Local Open Scope Z_scope.

(* the greedy loop never trips clause 8 of check_c05: it closes a page before an all-divider row only when a grouping rule
   forces it or the row's own lines no longer fit - given that such rows are budgeted with their data lines only
   (divider_row_costs_its_lines) *)
Lemma loop_never_charges_dividers avail np f keys ms : forall t page cur,
  (forall i m, nth_error ms i = Some m -> all_divider_row f keys (t + i)%nat = true -> rm_total m = rm_data m) ->
  c05_divider_cost avail np f keys ms (assign_loop avail np ms false page cur) t page cur = false.
Proof.
  induction ms as [|m ms IH]; intros t page cur H; cbn [assign_loop c05_divider_cost]; [reflexivity|].
  cbn [negb]. rewrite !andb_true_r.
  set (force := rm_ss m || np && rm_gs m).
  set (over := avail <? cur + rm_total m).
  assert (Hm : all_divider_row f keys t = true -> rm_total m = rm_data m).
  { intro A. apply (H 0%nat m eq_refl). rewrite Nat.add_0_r. exact A. }
  assert (Hrest : forall i m', nth_error ms i = Some m' -> all_divider_row f keys (S t + i)%nat = true -> rm_total m' = rm_data m').
  { intros i m' Hn A. apply (H (S i) m' Hn). rewrite Nat.add_succ_r. exact A. }
  destruct ((force || over) && (0 <? cur)) eqn:E.
  - replace (page + 1 =? page) with false by (symmetry; apply Z.eqb_neq; lia).
    replace (0 + rm_total m) with (rm_total m) by lia.
    rewrite (IH (S t) (page + 1) (rm_total m) Hrest). rewrite orb_false_r.
    apply andb_prop in E as [E1 _].
    destruct (all_divider_row f keys t) eqn:A; [|reflexivity]. cbn [andb].
    destruct force; [reflexivity|]. cbn [orb negb andb] in *.
    unfold over in E1. rewrite (Hm eq_refl) in E1. apply Z.ltb_lt in E1. apply Z.leb_gt. exact E1.
  - rewrite Z.eqb_refl. apply (IH (S t) page (cur + rm_total m) Hrest).
Qed.
