#!/bin/bash
# Build the whole framework from files on disk (offline): regenerate tables from /repo/src,
# full .vo build of the Coq development, extraction, OCaml driver.
set -e
cd "$(dirname "$0")"
export PYTHONHASHSEED=0 PYTHONPATH=/repo/src
/venv/bin/python harness/gen_tables.py
MK_TAIL=40 ./build_driver.sh
echo "setup done"
