(* C01 — every accepted document encodes to well-formed RTF.
   Statements only; proofs live in Proofs/.  Full statement (for the whole pipeline):
     forall d ts, encode d = Ok ts -> user_text_ok d -> wf_rtf ts = true
   What is proved here is its structural core, for ALL items / rows / token lists:
     - C01_items_balanced, C01_one_group: any list of well-formed items emits a brace-neutral token
       list, and a neutral body between the document braces is exactly one top-level group;
     - C01_row_cells: every emitted row declares exactly as many \cellx as it has \cell;
     - C01_tables_*: the regenerated code tables only contain simple, lower-case control words and
       the pass-1 replacement strings are balanced, valid fragments (finite, by computation).
     - C01_document (Proofs/DocumentWF.v): for EVERY document (single-, multi-section, figure) the tokens
       the model's encode produces start with {\rtf1 and are exactly one brace-balanced top-level group,
       provided the bodies of its text runs are brace-neutral (the property's text domain: user text
       without unbalanced raw braces). Every structural part - code strings, paragraph formats, borders,
       rows, page breaks, pictures, font / colour tables, page settings - is proved for all inputs.
     - C01_document_lexical (Proofs/DocumentLex.v): under the analogous hypothesis on the text bodies, every
       control sequence of the document is lexically valid (clause 3 of wf_rtf).
   Still missing for the full statement: clauses 4-5 of wf_rtf (\u ranges with fallback counts, per-row
   cell counts) at document level; they are proved per escaped string (C10) / per row and evaluated per
   case by the driver (wf_rtf on the implementation's tokens). *)
From Coq Require Import Ascii String.
From Coq Require Import List NArith ZArith Bool.
Local Open Scope string_scope.
Local Open Scope list_scope.
From V Require Import Str Tok Items WellFormed Tables Doc Case Pipeline Document EmitWF TablesWF DocumentWF DocumentLex ExampleDoc.
Import ListNotations.

Theorem C01_items_balanced : forall its, Forall item_ok its -> neutral (emit_items its).
Proof. exact emit_items_neutral. Qed.
Print Assumptions C01_items_balanced.

Theorem C01_one_group : forall ts, neutral ts -> one_group (TOpen :: ts ++ [TClose]) = true.
Proof. exact one_group_wrap. Qed.
Print Assumptions C01_one_group.

Theorem C01_row_cells : forall r,
  Forall cell_clean (rw_cells r) -> free_of cellx_n (rw_just r) -> free_of cell_n (rw_just r) ->
  count_ctrl cellx_n (emit_row r) = length (rw_cells r) /\ count_ctrl cell_n (emit_row r) = length (rw_cells r).
Proof. exact emit_row_cell_counts. Qed.
Print Assumptions C01_row_cells.

Theorem C01_tables_border : table_simple border_codes = true.
Proof. exact border_codes_simple. Qed.
Theorem C01_tables_format : table_simple format_codes = true.
Proof. exact format_codes_simple. Qed.
Theorem C01_tables_just : table_simple text_just_codes = true /\ table_simple row_just_codes = true
                          /\ table_simple vert_codes = true.
Proof. exact (conj text_just_codes_simple (conj row_just_codes_simple vert_codes_simple)). Qed.
Theorem C01_tables_mapping : all_b (fun kv => fragment_ok (snd kv)) rtf_char_mapping = true.
Proof. exact rtf_char_mapping_fragments. Qed.
Theorem C01_tables_fonts :
  map fst font_table = [1; 2; 3; 4; 5; 6; 7; 8; 9; 10]%Z
  /\ all_b (fun e => simple_code (fst (snd e)) && simple_code (fst (snd (snd e)))) font_table = true.
Proof. exact (conj font_table_numbers font_table_codes_simple). Qed.
Print Assumptions C01_tables_fonts.

Theorem C01_document :
  forall ctx d ts,
    encode_with ctx d = Ok ts ->
    (forall pages, document_pages ctx d = Ok pages -> bodies_ok (concat pages)) ->
    comp_bodies_ok ctx (d_page_header d) -> comp_bodies_ok ctx (d_page_footer d) ->
    starts_rtf ts = true /\ one_group ts = true.
Proof. exact encode_one_group. Qed.
Print Assumptions C01_document.

(* clause 3 of wf_rtf at document level: every control sequence is a non-empty lower-case control word or an allowed
   control symbol, provided the text bodies are *)
Theorem C01_document_lexical :
  forall ctx d ts,
    encode_with ctx d = Ok ts ->
    (forall pages, document_pages ctx d = Ok pages -> bodies_lx (concat pages)) ->
    comp_bodies_lx ctx (d_page_header d) -> comp_bodies_lx ctx (d_page_footer d) ->
    all_b tok_lexical ts = true.
Proof. exact encode_lexical. Qed.
Print Assumptions C01_document_lexical.

(* non-vacuity at document level: the dumped state of a real RTFDocument (Gen/ExampleDoc.v, regenerated on every run:
   page_by table over two pages, colours, title, footnote table, source paragraph, page header and footer) decodes,
   encodes, meets the text-domain hypothesis, and its tokens are well-formed by computation as well *)
Example C01_document_example :
  match dDoc example_sexp with
  | Some d =>
    let ctx := Some (collect_colors d) in
    match document_pages ctx d, encode d with
    | Ok pages, Ok ts => bodies_okb (concat pages) = true /\ bodies_lxb (concat pages) = true
                         /\ Nat.ltb 1 (length pages) = true /\ wf_rtf ts = true
    | _, _ => False
    end
  | None => False
  end.
Proof. vm_compute. repeat split; reflexivity. Qed.

(* non-vacuity: a concrete non-trivial row meets the hypotheses *)
Example C01_row_example :
  let c := {| ce_bl := Some {| bd_style := [ctrl "brdrs"]; bd_w := 15; bd_cf := None |};
              ce_bt := None; ce_br := None; ce_bb := None; ce_vj := [ctrl "clvertalt"]; ce_x := 1440;
              ce_pf := [ctrl "hyphpar"; ctrlz "sb" 15]; 
              ce_run := {| rn_fs := 18; rn_f := 0; rn_cf := None; rn_cb := None;
                           rn_body := [ctrl "b"; TText (s2l "x"); TOpen; TText (s2l "y"); TClose] |} |} in
  item_ok (IRow {| rw_gaph := 108; rw_just := [ctrl "trqc"]; rw_cells := [c; c] |})
  /\ wf_rtf ([TOpen; ctrlz "rtf" 1] ++ emit_row {| rw_gaph := 108; rw_just := [ctrl "trqc"]; rw_cells := [c; c] |} ++ [TClose]) = true.
Proof.
  cbv zeta. split.
  - cbn. unfold row_ok, cell_ok, bord_ok, run_ok, brace_free, neutral; cbn.
    repeat split; repeat constructor; try discriminate.
  - vm_compute. reflexivity.
Qed.
