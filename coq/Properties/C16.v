(* C16 — figures are embedded byte-exactly, one per page, at the configured size.
   Model: Figure.v (ports of _binary_to_hex, _get_png_dimensions, _get_jpeg_dimensions, _get_dimension,
   _encode_single_figure) and Document.figure_pages.
     C16_hex        (all byte strings) the hexadecimal payload decodes to the file's exact bytes
                    (C16_hex_injective: so two different files never share a payload);
     C16_png        (all widths/heights < 2^32, any chunk header and tail) the PNG parser returns the
                    dimensions written big-endian at offsets 16..24 after the signature;
     C16_jpeg_sof / C16_jpeg_skip   (all segment shapes) the JPEG scanner returns the height/width of a
                    start-of-frame marker at the scan position, and skips any other segment by its
                    declared length — by induction over the segment list these give the dimensions of
                    the first SOF segment (fuel = file length, never exhausted on such data);
     C16_goal       \picwgoal / \pichgoal = int(inches x 1440) and the payload is the hex of the data;
     C16_positional size i is the i-th list value, or the last one when the list is shorter.
   One picture per page in order, captions per placement: Document.figure_pages (C06's `placed` rule),
   validated on the implementation by check_c16, which compares the pixel dimensions with the values the
   generator wrote into the image headers. *)
From Coq Require Import List NArith ZArith QArith Bool Arith.
From V Require Import Str Num Tok Items Doc Figure FigureProofs.
Import ListNotations.
Local Open Scope N_scope.

Theorem C16_hex : forall bs, Forall (fun b => b < 256) bs -> unhex (hex_of_bytes bs) = Some bs.
Proof. exact unhex_hex. Qed.
Print Assumptions C16_hex.

(* hence different files never share a payload: the encoding loses nothing *)
Theorem C16_hex_injective : forall a b,
  Forall (fun x => x < 256) a -> Forall (fun x => x < 256) b -> hex_of_bytes a = hex_of_bytes b -> a = b.
Proof.
  intros a b Ha Hb E. pose proof (unhex_hex a Ha) as H1. pose proof (unhex_hex b Hb) as H2.
  rewrite E in H1. rewrite H1 in H2. injection H2 as H. exact H.
Qed.
Print Assumptions C16_hex_injective.

Theorem C16_png : forall (pre rest : list N) (w h : N),
  length pre = 8%nat -> (0 < length rest)%nat -> w < 4294967296 -> h < 4294967296 ->
  png_dims (png_sig ++ pre ++ bytes32 w ++ bytes32 h ++ rest) = Some (Z.of_N w, Z.of_N h).
Proof. exact png_dims_spec. Qed.
Print Assumptions C16_png.

Theorem C16_jpeg_sof : forall fuel m l1 l2 p (w h : N) tail rem,
  is_sof m = true -> w < 65536 -> h < 65536 -> (9 < rem)%nat ->
  jpeg_scan (S fuel) (255 :: m :: l1 :: l2 :: p :: bytes16 h ++ bytes16 w ++ tail) rem = Some (Z.of_N w, Z.of_N h).
Proof. exact jpeg_sof_found. Qed.

Theorem C16_jpeg_skip : forall fuel m (len : N) payload rest rem,
  is_sof m = false -> len < 65536 -> 2 <= len -> (9 < rem)%nat ->
  length payload = (N.to_nat len - 2)%nat -> (7 <= length payload + length rest)%nat ->
  jpeg_scan (S fuel) (255 :: m :: bytes16 len ++ payload ++ rest) rem
  = jpeg_scan fuel rest (rem - (2 + N.to_nat len))%nat.
Proof. exact jpeg_segment_skipped. Qed.
Print Assumptions C16_jpeg_skip.

Theorem C16_goal : forall fmt data w h align,
  pc_wgoal (encode_single_figure fmt data w h align) = qtrunc (w * (1440 # 1))
  /\ pc_hgoal (encode_single_figure fmt data w h align) = qtrunc (h * (1440 # 1))
  /\ pc_hex (encode_single_figure fmt data w h align) = hex_of_bytes data.
Proof. exact goal_size. Qed.

Theorem C16_positional : forall (l : list Q) i x,
  dimension l i = Ok x <-> (nth_error l i = Some x \/ (nth_error l i = None /\ last_opt l = Some x)).
Proof. exact dimension_positional. Qed.

(* a JPEG with an APP0 segment before the frame header: 640 x 480 *)
Example C16_jpeg_example :
  jpeg_dims ([255; 216; 255; 224; 0; 4; 1; 2; 255; 192; 0; 17; 8] ++ bytes16 480 ++ bytes16 640 ++ [3; 0; 0; 0; 0; 0; 0; 0; 0; 0; 0; 0])
  = Some (640, 480)%Z.
Proof. vm_compute. reflexivity. Qed.
