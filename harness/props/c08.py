"""C08: all rows of a table share one right edge and proportional columns."""
import rt

from . import common

TRUSTED = ["C08 predicate check_c08 (Model/Checks.v): \\cellx of every parsed row vs twip(col_width) and the exact proportional boundaries"]
ASSUMPTIONS = ["explicit header texts have one entry per displayed column; binary64 noise at exact half-twip ties excluded (flagged)"]


def rel(r):
    return r.choice([0.2, 0.5, 1, 1, 1.5, 2, 2.5, 3, 4.2, 7, 10])


def generate(g, i):
    r = g.r
    if r.random() < 0.2:
        spec = g.multi()
        if r.random() < 0.35:
            # one RTFBody object, in the broadcast form "all columns equal", used for every section
            w = rel(r)
            for s in spec["sections"]:
                s["body"] = {"col_rel_width": [w]}
            spec["_share_body"] = True
            spec.pop("headers", None)
        else:
            for s in spec["sections"]:
                s["body"]["col_rel_width"] = [rel(r) for _ in s["df"]["cols"]]
        spec["page"]["col_width"] = round(r.uniform(2, 12), 2)
        return spec
    strategy = r.choice(["plain", "page_by", "page_by", "subline", "subline+page_by"])
    hmode = r.choice(["default", "default", "explicit", "multi", "none"])
    spec = g.single(strategy=strategy, nrows=r.choice([1, 3, 6, 12]), header_mode=hmode)
    ncol = len(spec["df"]["cols"])
    # widen the frame up to 12 columns
    extra = r.choice([0, 0, 2, 5, 8])
    if extra and hmode in ("default", "none"):
        for j in range(extra):
            spec["df"]["cols"].append(f"x{j}")
            for row in spec["df"]["rows"]:
                row.append(r.choice(["a", "b", "1.5"]))
        for k, v in list(spec["body"].items()):
            if isinstance(v, list) and v and isinstance(v[0], list) and k not in ("page_by", "subline_by", "group_by"):
                del spec["body"][k]
        ncol += extra
    k = r.random()
    if k < 0.15:
        spec["body"]["col_rel_width"] = [rel(r)]          # broadcast form: one value for all columns
    elif k < 0.6:
        spec["body"]["col_rel_width"] = [rel(r) for _ in range(ncol)]
    else:
        spec["body"].pop("col_rel_width", None)
    spec["page"]["col_width"] = round(r.uniform(2, 12), 2)
    for name in ("footnote", "source"):
        if name in spec and spec[name] is not None and r.random() < 0.6:
            spec[name]["as_table"] = True
    if r.random() < 0.3:
        n_prior = r.choice([c for c in (1, 2, 3, 5, 7) if c != ncol])
        spec["_prior_df"] = {"cols": [f"p{j}" for j in range(n_prior)], "rows": [["v"] * n_prior]}
        spec["_prior_encode"] = r.random() < 0.5
        # grouping columns do not exist in the earlier frame: build() ignores its failure
    return spec


def inherited_flags(spec):
    hs = spec.get("headers")
    if hs is None:
        return [True]
    if hs and isinstance(hs[0], list):
        return [h is not None and "col_rel_width" not in h for sec in hs for h in sec]
    return [h is not None and "col_rel_width" not in h for h in hs]


def extra_fn(spec, doc, ok, out):
    return rt.sx_list(rt.sx_bool(b) for b in inherited_flags(spec))


_orig_build = rt.build


def _build(spec):
    return _orig_build({k: v for k, v in spec.items() if not k.startswith("_") or k.startswith("_prior") or k == "_share_body"})


rt.build = _build


def run(ctx):
    common.TIE_EXCUSES["value"] = True
    return common.run_docprop(ctx, "c08", generate, None, extra_fn=extra_fn, n_quick=170, n_thorough=3000)
