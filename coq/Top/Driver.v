(* Entry points evaluated by the extracted driver: one harness case -> one report line. *)
From Coq Require Import Ascii String.
From Coq Require Import List NArith ZArith QArith Bool Arith.
From V Require Import Str Num Tok Tables Items Read Decode Bytes WellFormed Doc Case Paginate Pipeline Document TextSpec Checks Validate Assemble StrWidth Ctx Export.
Import ListNotations.
Local Open Scope string_scope.
Local Open Scope list_scope.

Definition err_name (e : err) : str :=
  s2l (match e with
       | ValueErr => "ValueError" | TypeErr => "TypeError" | IndexErr => "IndexError"
       | AttrErr => "AttributeError" | FileNotFound => "FileNotFoundError" | OtherErr => "Other"
       end).

Definition safe_char (c : N) : N := (if (32 <=? c) && (c <? 127) then c else 63)%N.
Definition safe (s : str) : str := map safe_char s.

Definition kv (k : string) (v : str) : str := s2l k ++ [61%N] ++ v.
Definition line (l : list str) : str := join [9%N] l.
Definition nat_str (n : nat) : str := dec_of_N (N.of_nat n).
Definition bool_str (b : bool) : str := if b then [49%N] else [48%N].

Definition window (ts : list tok) (i : nat) : str :=
  safe (print (firstn 10 (skipn (i - 3) ts))).

Definition doc_tie (d : doc) : bool :=
  match d_content d with
  | CSingle f b => section_tie (single_secdoc d f b)
  | CMulti l => any_b (fun fb => section_tie (single_secdoc d (fst fb) (snd fb))) l
  | CFigure _ => false
  end
  || is_half_tie (p_width (d_page d) * (1440 # 1)) || is_half_tie (p_height (d_page d) * (1440 # 1)).

(* strict correspondence: lex (rtf_encode()) against the model's tokens *)
Definition run_corr (id : str) (d : doc) (impl : sexp) : str :=
  let m := encode d in
  match impl with
  | SList [SNum [49%N]; SStr out] =>
    let it := lex out in
    match m with
    | Ok mt =>
      match first_diff mt it 0 with
      | None =>
        let items_ok :=
            match read_doc it, document_pages (Some (collect_colors d)) d with
            | Some pd, Ok pages => list_eqb item_eqb (pd_items pd) (concat pages)
            | _, _ => false
            end in
        line [kv "id" id; kv "m" (s2l "ok"); kv "i" (s2l "ok"); kv "agree" (bool_str true);
              kv "ntok" (nat_str (length it)); kv "read" (bool_str items_ok);
              kv "wf" (nat_str (wf_clause it))]
      | Some k => line [kv "id" id; kv "m" (s2l "ok"); kv "i" (s2l "ok"); kv "agree" (bool_str false);
                        kv "tie" (bool_str (doc_tie d));
                        kv "at" (nat_str k); kv "mt" (window mt k); kv "it" (window it k)]
      end
    | Err e => line [kv "id" id; kv "m" (err_name e); kv "i" (s2l "ok"); kv "agree" (bool_str false)]
    end
  | SList [SNum [48%N]; SStr cls] =>
    match m with
    | Ok _ => line [kv "id" id; kv "m" (s2l "ok"); kv "i" (safe cls); kv "agree" (bool_str false)]
    | Err e => line [kv "id" id; kv "m" (err_name e); kv "i" (safe cls);
                     kv "agree" (bool_str (str_eqb (err_name e) cls))]
    end
  | _ => line [kv "id" id; kv "bad" (s2l "impl")]
  end.

Definition doc_gb_bad (d : doc) : bool :=
  match d_content d with
  | CSingle f b => section_gb_bad (single_secdoc d f b)
  | CMulti l => any_b (fun fb => section_gb_bad (single_secdoc d (fst fb) (snd fb))) l
  | CFigure _ => false
  end.

(* C01: strict correspondence + well-formedness of the implementation's output *)
Definition run_c01 (id : str) (d : doc) (impl : sexp) : str :=
  let m := encode d in
  let tie := doc_tie d in
  match impl with
  | SList [SNum [49%N]; SStr out] =>
    let it := lex out in
    let cl := wf_clause it in
    let agree := match m with Ok mt => tok_list_eqb mt it | Err _ => false end in
    line [kv "id" id; kv "agree" (bool_str agree); kv "tie" (bool_str tie);
          kv "holds" (bool_str (Nat.eqb cl 0)); kv "clause" (nat_str cl);
          kv "m" (match m with Ok _ => s2l "ok" | Err e => err_name e end);
          kv "diff" (match m with
                     | Ok mt => match first_diff mt it 0 with
                                | Some k => window mt k ++ s2l " <> " ++ window it k
                                | None => [] end
                     | Err _ => [] end)]
  | SList [SNum [48%N]; SStr cls] =>
    let refusal_ok := str_eqb cls (s2l "ValueError") && doc_gb_bad d in
    line [kv "id" id;
          kv "agree" (bool_str (match m with Err e => str_eqb (err_name e) cls | Ok _ => false end));
          kv "tie" (bool_str tie);
          kv "holds" (bool_str refusal_ok); kv "clause" (s2l (if refusal_ok then "0" else "9"));
          kv "m" (match m with Ok _ => s2l "ok" | Err e => err_name e end); kv "i" (safe cls)]
  | _ => line [kv "id" id; kv "bad" (s2l "impl")]
  end.

Definition zlist_str (l : list Z) : str := join [44%N] (map dec_of_Z l).

(* generic wrapper for predicates on the parsed output of a successful encode *)
Definition with_parsed (id : str) (d : doc) (impl : sexp) (k : pdoc -> list str) : str :=
  match impl with
  | SList [SNum [49%N]; SStr out] =>
    match read_doc (lex out) with
    | Some pd => line (kv "id" id :: kv "tie" (bool_str (doc_tie d)) :: k pd)
    | None => line [kv "id" id; kv "tie" (bool_str (doc_tie d)); kv "agree" (s2l "0"); kv "holds" (s2l "1");
                    kv "unparsed" (s2l "1")]
    end
  | SList [SNum [48%N]; SStr cls] =>
    (* refusals are C01's business; here they only count when the model encodes *)
    line [kv "id" id; kv "tie" (bool_str (doc_tie d));
          kv "agree" (bool_str (match encode d with Err e => str_eqb (err_name e) cls | Ok _ => false end));
          kv "holds" (s2l "1"); kv "refused" (safe cls)]
  | _ => line [kv "id" id; kv "bad" (s2l "impl")]
  end.

Definition run_c04 (id : str) (d : doc) (impl : sexp) : str :=
  with_parsed id d impl (fun pd =>
    let '(cl, pages) := check_c04 d pd in
    [kv "holds" (bool_str (Nat.eqb cl 0)); kv "clause" (nat_str cl);
     kv "agree" (bool_str (match model_pages_c04 d with
                           | Some mp => list_eqb Z.eqb mp pages
                           | None => match d_content d with CSingle _ _ => false | _ => true end end));
     kv "pages" (zlist_str pages);
     kv "npages" (nat_str (length (observed_pages pd)))]).

(* item-level correspondence: the parsed output equals the model's items *)
Definition items_agree (d : doc) (pd : pdoc) : bool :=
  match document_pages (Some (collect_colors d)) d with
  | Ok pages => list_eqb item_eqb (pd_items pd) (concat pages)
  | Err _ => false
  end.

Definition run_c02 (id : str) (d : doc) (impl : sexp) : str :=
  with_parsed id d impl (fun pd =>
    let cl := check_c02 d pd in
    [kv "holds" (bool_str (Nat.eqb cl 0)); kv "clause" (nat_str cl);
     kv "agree" (bool_str (items_agree d pd));
     kv "npages" (nat_str (length (observed_pages pd)));
     kv "nrows" (nat_str (length (all_data_rows pd)))]).

Definition run_c13 (id : str) (d : doc) (impl : sexp) : str :=
  match impl with
  | SList [SNum [48%N]; SStr cls] =>
    let ok := str_eqb cls (s2l "ValueError") && c13_should_refuse d in
    line [kv "id" id; kv "tie" (bool_str (doc_tie d));
          kv "agree" (bool_str (match encode d with Err e => str_eqb (err_name e) cls | Ok _ => false end));
          kv "holds" (bool_str ok); kv "clause" (s2l (if ok then "0" else "9")); kv "refused" (safe cls)]
  | _ =>
    with_parsed id d impl (fun pd =>
      let cl := check_c13 d pd in
      [kv "holds" (bool_str (Nat.eqb cl 0)); kv "clause" (nat_str cl);
       kv "agree" (bool_str (items_agree d pd));
       kv "npages" (nat_str (length (observed_pages pd)))])
  end.

(* C10: impl = bytes of the file written by write_rtf; extra = the strings that must be read back *)
Definition run_c10 (id : str) (d : doc) (impl : sexp) (extra : sexp) : str :=
  match impl with
  | SList [SNum [49%N]; SStr bytes] =>
    let chars := chars_of_bytes bytes in
    let ts := lex chars in
    let seven_bit := all_b (fun b => N.ltb b 128) bytes in
    match read_doc ts, dList dStr extra with
    | Some pd, Some expected =>
      let miss := first_missing expected (all_texts pd) 0 in
      let c2 := check_c02 d pd in
      let uok := unicode_ok 1 ts in
      let cl := (if negb uok then 3 else match miss with Some _ => 1 | None => if Nat.eqb c2 0 then 0 else 2 end)%nat in
      line [kv "id" id; kv "tie" (s2l "0");
            kv "holds" (bool_str (Nat.eqb cl 0)); kv "clause" (nat_str cl);
            kv "missing" (match miss with Some k => nat_str k | None => s2l "-" end);
            kv "sevenbit" (bool_str seven_bit);
            kv "agree" (bool_str (match encode d with Ok mt => tok_list_eqb mt ts | Err _ => false end));
            kv "ntexts" (nat_str (length (all_texts pd)))]
    | None, _ => line [kv "id" id; kv "tie" (s2l "0"); kv "holds" (s2l "0"); kv "clause" (s2l "4");
                       kv "agree" (s2l "0"); kv "unparsed" (s2l "1")]
    | _, None => line [kv "id" id; kv "bad" (s2l "extra")]
    end
  | SList [SNum [48%N]; SStr cls] =>
    line [kv "id" id; kv "tie" (s2l "0"); kv "holds" (s2l "0"); kv "clause" (s2l "9"); kv "agree" (s2l "0");
          kv "refused" (safe cls)]
  | _ => line [kv "id" id; kv "bad" (s2l "impl")]
  end.

(* C11: extra = list of (tag, text, convert) probes *)
Definition dProbe : dec (str * str * bool) := fun e =>
  match e with
  | SList [a; b; c] =>
    match dStr a, dStr b, dBool c with
    | Some x, Some y, Some z => Some (x, y, z)
    | _, _, _ => None
    end
  | _ => None
  end.

Fixpoint worst (l : list nat) (i : nat) (best : nat * nat) : nat * nat :=
  match l with
  | [] => best
  | c :: r =>
    let rank x := match x with 2 => 3 | 1 => 2 | 7 => 1 | _ => 0 end%nat in
    worst r (S i) (if Nat.ltb (rank (fst best)) (rank c) then (c, i) else best)
  end.

Definition run_c11 (id : str) (d : doc) (impl : sexp) (extra : sexp) : str :=
  match dList dProbe extra with
  | None => line [kv "id" id; kv "bad" (s2l "extra")]
  | Some probes =>
    with_parsed id d impl (fun pd =>
      let bodies := map events_of_tokens (all_bodies pd) in
      let classes := map (fun p => let '(tag, text, conv) := p in probe_class bodies tag text conv) probes in
      let '(cl, idx) := worst classes 0 (0%nat, 0%nat) in
      [kv "holds" (bool_str (Nat.eqb cl 0)); kv "clause" (nat_str cl); kv "probe" (nat_str idx);
       kv "agree" (bool_str (items_agree d pd));
       kv "classes" (join [44%N] (map nat_str classes))])
  end.

Definition run_c12 (id : str) (d : doc) (impl : sexp) : str :=
  with_parsed id d impl (fun pd =>
    let cl := check_c12 d pd in
    [kv "holds" (bool_str (Nat.eqb cl 0)); kv "clause" (nat_str cl);
     kv "agree" (bool_str (items_agree d pd));
     kv "ncolors" (nat_str (match pd_colors pd with Some l => length l | None => 0 end));
     kv "nuses" (nat_str (length (filter (fun o => match o with Some z => negb (Z.eqb z 0) | None => false end)
                                         (flat_map item_colors (all_items_pd pd)))))]).

Definition run_simple (check : doc -> pdoc -> nat) (id : str) (d : doc) (impl : sexp) : str :=
  with_parsed id d impl (fun pd =>
    let cl := check d pd in
    [kv "holds" (bool_str (Nat.eqb cl 0)); kv "clause" (nat_str cl);
     kv "agree" (bool_str (items_agree d pd));
     kv "npages" (nat_str (length (observed_pages pd)))]).

Definition run_case (e : sexp) : str :=
  match e with
  | SList [SStr mode; SStr id; de; impl] =>
    match dDoc de with
    | None => line [kv "id" id; kv "bad" (s2l "decode")]
    | Some d =>
      if str_eqb mode (s2l "corr") then run_corr id d impl
      else if str_eqb mode (s2l "c01") then run_c01 id d impl
      else if str_eqb mode (s2l "c04") then run_c04 id d impl
      else if str_eqb mode (s2l "c06") then run_simple check_c06 id d impl
      else if str_eqb mode (s2l "c05") then run_simple check_c05 id d impl
      else if str_eqb mode (s2l "c07") then run_simple check_c07 id d impl
      else if str_eqb mode (s2l "c09") then run_simple check_c09 id d impl
      else if str_eqb mode (s2l "c12") then run_c12 id d impl
      else if str_eqb mode (s2l "c13") then run_c13 id d impl
      else if str_eqb mode (s2l "c02") then run_c02 id d impl
      else line [kv "id" id; kv "bad" (s2l "mode")]
    end
  | _ => s2l "bad=case"
  end.

(* debugging aid: which rendering step of which page fails *)
From V Require Import Pipeline Encode Paginate.
Definition res_tag {A} (r : res A) : str := match r with Ok _ => s2l "ok" | Err e => err_name e end.

Definition dbg_page (ctx : option (list str)) (s : secdoc) (pf : frame) (cw : list Q)
           (rows : list (list val)) (pattrs : attrs) (p : pagectx) : str :=
  let pg := s_page s in
  let pb := process_page s pattrs p (length (f_cols pf)) in
  line [kv "title" (res_tag (render_textcomp ctx (s_title s)));
        kv "hdr" (res_tag (render_headers ctx s p (f_cols pf) (flat_headers (s_headers s)) 0));
        kv "body" (res_tag (table_encode ctx (pb_attrs pb) cw (page_rows rows p) 0));
        kv "fn" (res_tag (match s_footnote s with Some t => render_tabletext ctx t (p_col_width pg) (pb_footnote pb) | None => Ok [] end));
        kv "src" (res_tag (match s_source s with Some t => render_tabletext ctx t (p_col_width pg) (pb_source pb) | None => Ok [] end))].

Definition run_dbg (id : str) (d : doc) : str :=
  match d_content d with
  | CSingle f b =>
    let s := single_secdoc d f b in
    let ctx := Some (collect_colors d) in
    match section_pages s with
    | Err e => line [kv "id" id; kv "section_pages" (err_name e)]
    | Ok (pf, pattrs, cw, pages, rows) =>
      line (kv "id" id :: kv "npages" (nat_str (length pages))
            :: map (fun p => dbg_page ctx s pf cw rows pattrs p) pages)
    end
  | _ => line [kv "id" id; kv "dbg" (s2l "single only")]
  end.

(* C19: ([c19] [id] [kind] (values)) -> does construction accept the value? *)
Definition dRaw : dec rawv := fun e =>
  match e with
  | SList [t; x] =>
    match dZ t with
    | Some 0%Z => option_map RStr (dStr x)
    | Some 1%Z => option_map RNum (dQ x)
    | _ => None
    end
  | _ => None
  end.

Definition kind_of (name : str) : option vkind :=
  assoc name [(s2l "border", KBorder); (s2l "color", KColor); (s2l "font", KFont); (s2l "format", KFormat);
              (s2l "just", KJust); (s2l "rowjust", KRowJust); (s2l "vert", KVert); (s2l "orient", KOrient); (s2l "place", KPlace);
              (s2l "positive", KPositive); (s2l "pageby_row", KPagebyRow); (s2l "fig_align", KFigAlign);
              (s2l "fig_pos", KFigPos)].

Definition run_c19 (id kind : str) (vals : sexp) : str :=
  match dList dRaw vals with
  | None => line [kv "id" id; kv "bad" (s2l "vals")]
  | Some l =>
    let nums := flat_map (fun v => match v with RNum q => [q] | _ => [] end) l in
    let flag i := match nth_error nums i with Some q => negb (Qeq_bool q (0 # 1)) | None => false end in
    let acc :=
        match kind_of kind with
        | Some k => Some (accepts k l)
        | None =>
          if str_eqb kind (s2l "margin") then Some (margin_ok nums)
          else if str_eqb kind (s2l "new_page") then
            Some (new_page_ok (if flag 0%nat then Some [] else None) (flag 1%nat))
          else if str_eqb kind (s2l "content") then Some (content_ok (flag 0%nat) (flag 1%nat))
          else if str_eqb kind (s2l "sections") then
            Some (sections_ok (Z.to_nat (Qnum (nth 0%nat nums (0#1)))) (Z.to_nat (Qnum (nth 1%nat nums (0#1))))
                              (match nth_error nums 2%nat with Some q => if Qle_bool 0 q then Some (Z.to_nat (Qnum q)) else None | None => None end))
          else if str_eqb kind (s2l "columns") then Some (flag 0%nat)
          else None
        end in
    match acc with
    | Some b => line [kv "id" id; kv "accept" (bool_str b)]
    | None => line [kv "id" id; kv "bad" (s2l "kind")]
    end
  end.

(* C17: ([c17] [id] (input file texts) (1 [assembled text] | 0 [class])) *)
Fixpoint intersperse_page (l : list (list item)) : list item :=
  match l with
  | [] => []
  | [x] => x
  | x :: r => x ++ IPage :: intersperse_page r
  end.

Definition body_geoms (ts : list tok) : list (geom * bool) :=
  match ts with
  | TOpen :: r0 =>
    match take_group r0 0 [] with
    | Some (inner, _) => match elems inner with Some es => ext_geoms (S (length es)) es false | None => [] end
    | None => []
    end
  | _ => []
  end.

Definition run_c17 (id : str) (inputs : list str) (out : sexp) : str :=
  match out with
  | SList [SNum [49%N]; SStr output] =>
    let ts := lex output in
    let model := assemble inputs in
    let agree := match model with Some m => str_eqb m output | None => false end in
    let ins := map (fun i => read_doc (lex i)) inputs in
    let all_read := all_b (fun o => match o with Some _ => true | None => false end) ins in
    let pds := flat_map (fun o => match o with Some pd => [pd] | None => [] end) ins in
    let cl : nat :=
       (if negb all_read then 8
        else if Nat.eqb (wf_clause ts) 0 then
          match read_assembled ts with
          | None => 2
          | Some pd =>
            if negb (list_eqb item_eqb (pd_items pd) (intersperse_page (map pd_items pds))) then 3
            else if negb (list_eqb (fun a b => geom_eqb (fst a) (fst b) && Bool.eqb (snd a) (snd b))
                                   (body_geoms ts) (map (fun p => (pd_geom p, pd_landscape p)) pds)) then 4
            else match inputs with [one] => if str_eqb one output then 0 else 5 | _ => 0 end
          end
        else 1)%nat in
    line [kv "id" id; kv "tie" (s2l "0"); kv "agree" (bool_str agree);
          kv "holds" (bool_str (Nat.eqb cl 0)); kv "clause" (nat_str cl);
          kv "ninputs" (nat_str (length inputs)); kv "nitems" (nat_str (length (flat_map pd_items pds)))]
  | SList [SNum [48%N]; SStr cls] =>
    line [kv "id" id; kv "tie" (s2l "0"); kv "agree" (s2l "0"); kv "holds" (s2l "0"); kv "clause" (s2l "9");
          kv "refused" (safe cls)]
  | _ => line [kv "id" id; kv "bad" (s2l "out")]
  end.

(* C14: ([c14] [id] ((fails (colours)) ...) ((kind doc) ...)) -> the context each encode runs under and leaves behind.
   C15: ([c15] [id] ((fails (colours)) ...) ((kind thread doc) ...)) -> what every colour look-up observes. *)
Definition ctx_str (c : option (list str)) : str :=
  match c with None => s2l "N" | Some l => s2l "S:" ++ join [44%N] l end.

Definition run_c14 (id : str) (pals : list (bool * list str)) (ops : list (Z * nat)) : str :=
  let pal d := snd (nth d pals (false, [])) in
  let enc (c : option (list str)) d := if fst (nth d pals (false, [])) then Err ValueErr else Ok c in
  let h := map (fun o => if Z.eqb (fst o) 0 then Construct (snd o) else Encode (snd o)) ops in
  let '(final, outs) := run nat (option (list str)) pal enc None h in
  let show o := match o with
                | None => s2l "C"
                | Some (Ok c) => s2l "E" ++ ctx_str c
                | Some (Err _) => s2l "X"
                end in
  line [kv "id" id; kv "trace" (join [59%N] (map show outs)); kv "final" (ctx_str final)].

Definition run_c15 (id : str) (pals : list (bool * list str)) (evs : list (Z * (nat * nat))) : str :=
  let pal d := snd (nth d pals (false, [])) in
  let sched := map (fun e => let '(k, (t, d)) := e in
                             if Z.eqb k 0 then ESet t d else if Z.eqb k 1 then EGet t else EClear t) evs in
  let obs := observe nat pal [] sched in
  line [kv "id" id; kv "obs" (join [59%N] (map (fun p => nat_str (fst p) ++ [58%N] ++ ctx_str (snd p)) obs))].

(* C18: ([c18] [id] (fmt target stem files dirs code beh resdir fault tmp) (query paths)) -> outcome and final file system *)
Definition fs_of (files : list (path * str)) (dirs : list path) : fsys :=
  {| file := fun q => match find (fun e => path_eqb (fst e) q) files with Some e => Some (snd e) | None => None end;
     isdir := fun q => any_b (path_eqb q) dirs |}.

Definition run_c18 (id : str) (ins : list sexp) (queries : sexp) : str :=
  match ins with
  | [f; tg; st; fl; dl; cd; bh; rd; ft; tm] =>
    match dZ f, dList dStr tg, dStr st, dList (dPair (dList dStr) dStr) fl, dList (dList dStr) dl,
          dPair dBool dStr cd, dZ bh, dBool rd, dZ ft, dList dStr tm, dList (dList dStr) queries with
    | Some f, Some tg, Some st, Some fl, Some dl, Some cd, Some bh, Some rd, Some ft, Some tm, Some qs =>
      let c := {| sc_fmt := match f with 0%Z => FRtf | 1%Z => FDocx | 2%Z => FHtml | _ => FPdf end;
                  sc_target := tg; sc_stem := st;
                  sc_code := if fst cd then Ok (snd cd) else Err ValueErr;
                  sc_beh := match bh with 0%Z => BOk | 1%Z => BFailBefore | 2%Z => BFailAfter | 3%Z => BNoOutput
                                        | 4%Z => BRetList | 5%Z => BRetNone | 6%Z => BRetStr | _ => BRetMissing end;
                  sc_resdir := rd;
                  sc_fault := match ft with 0%Z => FNone | 1%Z => FCtor | 2%Z => FEncode | _ => FConvert end;
                  sc_conv := s2l "CONV"; sc_resfile := s2l "RES";
                  sc_t1 := tm ++ [s2l "t1"]; sc_t2 := tm ++ [s2l "t2"]; sc_fixed := true |} in
      let '(s', o) := export c (fs_of fl dl) in
      let show q := match file s' q with
                    | Some x => s2l "F:" ++ x
                    | None => if isdir s' q then s2l "D" else s2l "-"
                    end in
      line [kv "id" id; kv "out" (match o with None => s2l "ok" | Some e => err_name e end);
            kv "fs" (join [59%N] (map show qs))]
    | _, _, _, _, _, _, _, _, _, _, _ => line [kv "id" id; kv "bad" (s2l "c18 fields")]
    end
  | _ => line [kv "id" id; kv "bad" (s2l "c18 arity")]
  end.

Definition run_case' (e : sexp) : str :=
  match e with
  | SList [SStr mode; SStr id; SList ins; out] =>
    if str_eqb mode (s2l "c18") then run_c18 id ins out
    else if str_eqb mode (s2l "c14") then
      match dList (dPair dBool (dList dStr)) (SList ins), dList (dPair dZ dNat) out with
      | Some pals, Some ops => run_c14 id pals ops
      | _, _ => line [kv "id" id; kv "bad" (s2l "c14")]
      end
    else if str_eqb mode (s2l "c15") then
      match dList (dPair dBool (dList dStr)) (SList ins), dList (dPair dZ (dPair dNat dNat)) out with
      | Some pals, Some evs => run_c15 id pals evs
      | _, _ => line [kv "id" id; kv "bad" (s2l "c15")]
      end
    else if str_eqb mode (s2l "c17") then
      match mapO dStr ins with
      | Some inputs => run_c17 id inputs out
      | None => line [kv "id" id; kv "bad" (s2l "inputs")]
      end
    else if str_eqb mode (s2l "dbg") then
      match dDoc (SList ins) with Some d => run_dbg id d | None => line [kv "id" id; kv "bad" (s2l "decode")] end
    else run_case e
  | SList [SStr mode; SStr id; SStr kind; vals] =>
    if str_eqb mode (s2l "c19") then run_c19 id kind vals else run_case e
  | SList [SStr mode; SStr id; SNum f; SStr text] =>
    (* C20: model width of `text` in 1/64 px at the reference size, for font number f *)
    match dZ (SNum f) with
    | Some font =>
      match font_metrics font with
      | Some (adv, kern) => line [kv "id" id; kv "w64" (dec_of_Z (width64 adv kern text))]
      | None => line [kv "id" id; kv "w64" (s2l "unsupported")]
      end
    | None => line [kv "id" id; kv "bad" (s2l "font")]
    end
  | SList [SStr mode; SStr id; de; impl; extra] =>
    match dDoc de with
    | Some d => if str_eqb mode (s2l "c10") then run_c10 id d impl extra
                else if str_eqb mode (s2l "c11") then run_c11 id d impl extra
                else if str_eqb mode (s2l "c03") then
                  match dList dZ extra with
                  | Some lb =>
                    with_parsed id d impl (fun pd =>
                      let '(cl, codes) := check_c03 d pd lb in
                      [kv "holds" (bool_str (Nat.eqb cl 0)); kv "clause" (nat_str cl);
                       kv "agree" (bool_str (items_agree d pd));
                       kv "codes" (join [44%N] (map nat_str codes));
                       kv "npages" (nat_str (length (observed_pages pd)))])
                  | None => line [kv "id" id; kv "bad" (s2l "extra")]
                  end
                else if str_eqb mode (s2l "c16") then
                  match dList (dPair dBool (dPair dZ dZ)) extra with
                  | Some truth => run_simple (fun d pd => check_c16 d pd truth) id d impl
                  | None => line [kv "id" id; kv "bad" (s2l "extra")]
                  end
                else if str_eqb mode (s2l "c08") then
                  match dList dBool extra with
                  | Some inh => run_simple (fun d pd => check_c08 d pd inh) id d impl
                  | None => line [kv "id" id; kv "bad" (s2l "extra")]
                  end
                else line [kv "id" id; kv "bad" (s2l "mode5")]
    | None => line [kv "id" id; kv "bad" (s2l "decode")]
    end
  | SList (SStr mode :: SStr id :: de :: _) =>
    if str_eqb mode (s2l "dbg") then
      match dDoc de with Some d => run_dbg id d | None => line [kv "id" id; kv "bad" (s2l "decode")] end
    else run_case e
  | _ => run_case e
  end.
