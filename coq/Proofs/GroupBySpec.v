(* C13: the model's suppression meets the independent blank-iff-repeat statement used on the implementation. *)
From Coq Require Import List NArith ZArith Bool Arith Lia.
From V Require Import Str Doc Paginate GroupBy Checks GroupByProofs.
Import ListNotations.

Lemma raw_differs_tuple cols lvl a b :
  raw_differs cols lvl a b = negb (tuple_eqb (key_tuple cols lvl a) (key_tuple cols lvl b)).
Proof.
  unfold raw_differs, tuple_eqb, key_tuple.
  induction lvl as [|k lvl IH]; cbn [any_b map list_eqb]; [reflexivity|].
  rewrite IH. destruct (val_eqb (col_val cols a k) (col_val cols b k)); reflexivity.
Qed.

(* a row that is not first on its page shows, in group column k of level j, exactly what the rule says *)
Theorem suppress_meets_spec cols keys prev cur j k :
  NoDup keys -> nth_error keys j = Some k -> In k cols -> length cols <= length cur ->
  display (col_val cols (suppress_row cols keys prev cur) k)
  = expected_group_cell cols (firstn (S j) keys) k (Some prev) cur.
Proof.
  intros Hnd Hj Hk Hlen. rewrite (suppress_row_key cols keys prev cur j k Hnd Hj Hk Hlen).
  unfold expected_group_cell. rewrite raw_differs_tuple.
  destruct (tuple_eqb _ _); reflexivity.
Qed.

(* the first row of a page shows the original values (restoration) *)
Theorem restore_meets_spec cols o keys acc lvl k :
  In k keys -> In k cols -> length cols <= length acc ->
  display (col_val cols (fold_left (fun a k' => set_col cols a k' (col_val cols o k')) keys acc) k)
  = expected_group_cell cols lvl k None o.
Proof.
  intros H1 H2 H3. rewrite fold_restore_key by assumption. reflexivity.
Qed.
