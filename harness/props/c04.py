"""C04: page breaks occur only when required, and always when required."""
import copy
import itertools
import random

import gen
import rt
from rtflite.strwidth import get_string_width

from . import common

TRUSTED = ["C04 predicate check_assign (Model/Paginate.v) evaluated on the page membership of tagged rows read back from rtf_encode()"]
ASSUMPTIONS = ["row heights unambiguous: every generated cell is well inside a k-line band (no flagged tie)"]

WORDS = ["alpha", "beta", "mean", "visit", "dose", "placebo", "x", "ci", "pct"]


def sized_text(r, cw, lines, prefix=""):
    """Text whose width / cw lies well inside the band of `lines` lines (font 1, 9pt)."""
    lo = (lines - 1 + 0.25) * cw
    hi = (lines - 1 + 0.75) * cw
    t = prefix
    for _ in range(400):
        w = get_string_width(t, font=1, font_size=9) if t else 0.0
        if lo <= w <= hi:
            return t
        if w > hi:
            t = t[:-1]
            continue
        t += (" " if t else "") + r.choice(WORDS)
    # fine adjustment with single characters
    for _ in range(400):
        w = get_string_width(t, font=1, font_size=9)
        if lo <= w <= hi:
            return t
        t = t[:-1] if w > hi else t + "i"
    return t


def make_spec(r, heights, nrow, strategy, changes=None, reservations=None):
    n = len(heights)
    W = 6.0
    gcols = {}
    body = {}
    two = strategy != "plain" and r.random() < 0.4
    keys = ["g0", "g1"] if two else ["g0"]
    if strategy in ("page_by", "page_by_new"):
        body["page_by"] = keys
        if strategy == "page_by_new":
            body["new_page"] = True
            if r.random() < 0.5:
                body["pageby_row"] = "first_row"
    if strategy == "subline":
        body["subline_by"] = keys
    if strategy != "plain":
        vals = []
        k = 0
        for i in range(n):
            if i > 0 and changes[i - 1]:
                k += 1
            vals.append(f"@G{k}")
        gcols["g0"] = vals
        if two:
            # inner key: changes on its own pattern and may keep its value across an outer change
            inner = []
            j = 0
            for i in range(n):
                if i > 0 and r.random() < 0.3:
                    j = (j + 1) % 3
                inner.append(f"@H{j}")
            gcols["g1"] = inner
    cols = ["id", "c0"] + list(gcols)
    displayed = 2 + (len(gcols) if (strategy == "page_by_new" and body.get("pageby_row", "column") == "column") else 0)
    cw = W / displayed
    rows = []
    for i in range(n):
        row = [sized_text(r, cw, heights[i], f"#{i}#"), r.choice(["a", "b", "12.5", ""])]
        for g in gcols:
            row.append(gcols[g][i])
        rows.append(row)
    spec = {"df": {"cols": cols, "rows": rows}, "body": body, "page": {"nrow": nrow, "col_width": W},
            "kind": "single", "strategy": strategy}
    res = reservations if reservations is not None else r.randint(0, 4)
    if res >= 1:
        spec["footnote"] = {"text": "F note", "as_table": r.random() < 0.5}
        if r.random() < 0.5:
            spec["page"]["page_footnote"] = r.choice(["first", "last", "all"])
    if res >= 2:
        spec["source"] = {"text": "R src", "as_table": r.random() < 0.5}
    if res >= 3:
        k = displayed
        spec["headers"] = [{"text": [f"H{j}" for j in range(k)]}]
        if res >= 4:
            spec["headers"].insert(0, {"text": ["HT"], "col_rel_width": [1]})
    elif r.random() < 0.3:
        spec["headers"] = []
    if r.random() < 0.3:
        spec["title"] = {"text": "T title"}
    return spec


def collision_spec(r):
    """Two grouping columns whose values contain the separator the heading text is joined with: adjacent groups
    ('@A', '@B | @C') and ('@A | @B', '@C') differ in both columns although their joined texts coincide."""
    strategy = r.choice(["page_by_new", "page_by_new", "subline"])
    n = r.randint(4, 8)
    cut = r.randint(1, n - 1)
    spec = make_spec(r, [1] * n, r.randint(6, 14), strategy, [False] * (n - 1), reservations=r.choice([0, 1, 3]))
    cols = spec["df"]["cols"]
    for extra in ("g0", "g1"):
        if extra not in cols:
            cols.append(extra)
            for row in spec["df"]["rows"]:
                row.append("")
    j0, j1 = cols.index("g0"), cols.index("g1")
    for i, row in enumerate(spec["df"]["rows"]):
        row[j0], row[j1] = ("@A", "@B | @C") if i < cut else ("@A | @B", "@C")
    key = "subline_by" if strategy == "subline" else "page_by"
    spec["body"][key] = ["g0", "g1"]
    spec.pop("headers", None)
    return spec


def generate(g, i):
    r = g.r
    if r.random() < 0.06:
        return collision_spec(r)
    if r.random() < 0.15:
        # every row the same multi-line height, capacity often not a multiple of it
        h = r.choice([2, 2, 3, 4])
        n = r.randint(4, 12)
        return make_spec(r, [h] * n, r.randint(h + 1, 3 * h + 3), "plain", None, reservations=r.choice([0, 1, 3]))
    n = r.choice([1, 2, 3, 4, 5, 6, 8, 10, 14, 20])
    heights = [r.choice([1, 1, 1, 2, 2, 3]) for _ in range(n)]
    nrow = r.randint(2, 14)
    strategy = r.choice(["plain", "page_by", "page_by_new", "subline"])
    changes = [r.random() < 0.35 for _ in range(max(0, n - 1))]
    return make_spec(r, heights, nrow, strategy, changes)


def exhaustive_specs(seed):
    r = random.Random(seed)
    out = []
    for n in range(1, 6):
        for heights in itertools.product([1, 2, 3], repeat=n):
            for nrow in (2, 3, 4, 5, 7):
                out.append((f"ex_plain_{''.join(map(str, heights))}_{nrow}",
                            make_spec(r, list(heights), nrow, "plain", reservations=r.choice([0, 0, 1, 3]))))
    for n in range(2, 5):
        for heights in itertools.product([1, 2], repeat=n):
            for changes in itertools.product([False, True], repeat=n - 1):
                for nrow in (3, 4, 6):
                    for st in ("page_by", "page_by_new", "subline"):
                        out.append((f"ex_{st}_{''.join(map(str, heights))}_{''.join('1' if c else '0' for c in changes)}_{nrow}",
                                    make_spec(r, list(heights), nrow, st, list(changes), reservations=r.choice([0, 1, 2]))))
    return out


def signature(spec, result):
    return None


def prefix_failures(ctx, recs_sample):
    """Appending rows never changes how the earlier rows were paginated (on the implementation)."""
    failures = []
    items = []
    base = {}
    r = random.Random(ctx["seed"] + 5)
    for rec in recs_sample:
        spec = rec["spec"]
        n = len(spec["df"]["rows"])
        res = rec.get("result") or {}
        if n < 2 or "pages" not in res or res.get("tie") == "1":
            continue
        k = r.randint(1, n - 1)
        p = copy.deepcopy(spec)
        p["df"]["rows"] = p["df"]["rows"][:k]
        name = rec["name"] + f"_prefix{k}"
        items.append((name, p))
        base[name] = (rec, k)
    checked = 0
    for rec in common.evaluate("c04", items):
        if not rec["built"] or "pages" not in (rec["result"] or {}):
            continue
        full, k = base[rec["name"]]
        a = (full["result"]["pages"].split(",") if full["result"]["pages"] else [])[:k]
        b = rec["result"]["pages"].split(",") if rec["result"]["pages"] else []
        checked += 1
        if a != b and rec["result"].get("tie") != "1" and len(failures) < 2:
            failures.append({"kind": "holds", "name": "append", "spec": full["spec"], "prefix_rows": k,
                             "pages_full": full["result"]["pages"], "pages_prefix": rec["result"]["pages"],
                             "what": "appending rows changed the pagination of the earlier rows", "signature": None})
    return failures, checked


def run(ctx):
    collected = []

    def gen_and_keep(g, i):
        return generate(g, i)

    res = common.run_docprop(ctx, "c04", gen_and_keep, signature, n_quick=140, n_thorough=1200)
    if ctx.get("replay"):
        return res
    # metamorphic append check on a fresh sample
    g = gen.DocGen(ctx["seed"] * 31 + 3)
    sample = [(f"m{i}", generate(g, i)) for i in range(40 if ctx["tier"] == "quick" else 300)]
    recs = common.evaluate("c04", sample)
    fails, checked = prefix_failures(ctx, recs)
    res["failures"].extend(fails)
    res["coverage"]["append_pairs_checked"] = checked
    if ctx["tier"] == "thorough":
        ex = exhaustive_specs(ctx["seed"])
        bad = 0
        stats = {"ok": 0}
        for lo in range(0, len(ex), 300):
            for rec in common.evaluate("c04", ex[lo:lo + 300]):
                cls = common.classify(rec)
                stats[cls] = stats.get(cls, 0) + 1
                if cls in ("holds", "corr", "build", "harness") and bad < 3:
                    bad += 1
                    res["failures"].append(common.make_failure(ctx, "c04", rec, cls, signature, None, 100))
        res["coverage"]["exhaustive_core"] = {"cases": len(ex), "outcomes": stats,
                                              "space": "heights {1,2,3}^n n<=5 x nrow {2,3,4,5,7} (plain); heights {1,2}^n n<=4 x all change patterns x nrow {3,4,6} x {page_by, page_by+new_page, subline_by}"}
        res["coverage"]["evaluations"] += len(ex)
    return res
