(* GroupingService: validate_data_sorting (group_by only), enhance_group_by, restore_page_context. *)
From Coq Require Import Ascii String.
From Coq Require Import List NArith ZArith Bool Arith.
From V Require Import Str Doc Paginate.
Import ListNotations.
Local Open Scope string_scope.
Local Open Scope list_scope.

Fixpoint mem_val (v : val) (l : list val) : bool :=
  match l with [] => false | x :: r => val_eqb v x || mem_val v r end.

(* contiguity of a value sequence under equality eqb *)
Fixpoint contiguous_from {A} (eqb : A -> A -> bool) (cur : A) (seen : list A) (l : list A) : bool :=
  match l with
  | [] => true
  | x :: r =>
    if eqb x cur then contiguous_from eqb cur seen r
    else if existsb (eqb x) seen then false
    else contiguous_from eqb x (x :: seen) r
  end.
Definition contiguous {A} (eqb : A -> A -> bool) (l : list A) : bool :=
  match l with [] => true | x :: r => contiguous_from eqb x [x] r end.

Definition key_str (v : val) : str :=
  match v with VNull => s2l "__NULL__" | _ => py_str v end.

Fixpoint dedup (l : list str) (seen : list str) : list str :=
  match l with
  | [] => []
  | x :: r => if mem_str x seen then dedup r seen else x :: dedup r (x :: seen)
  end.

Fixpoint prefixes {A} (l : list A) (acc : list A) : list (list A) :=
  match l with
  | [] => []
  | x :: r => let acc' := acc ++ [x] in acc' :: prefixes r acc'
  end.

(* validate_data_sorting(df, group_by=keys): level 0 by raw value, deeper levels by the tuple of raw values
   (after the repair 31c71dd; before it the tuple was flattened to a "|"-joined string with nulls spelt "__NULL__") *)
Definition sorting_ok (cols : list str) (rows : list (list val)) (keys : list str) : bool :=
  match rows with
  | [] => true
  | _ =>
    let uniq := dedup keys [] in
    match uniq with
    | [] => true
    | k0 :: _ =>
      contiguous val_eqb (map (fun r => col_val cols r k0) rows)
      && all_b (fun lvl =>
                  contiguous (list_eqb val_eqb)
                    (map (fun r => map (fun k => col_val cols r k) lvl) rows))
               (tl (prefixes uniq []))
    end
  end.

Fixpoint set_col (cols : list str) (row : list val) (name : str) (v : val) : list val :=
  match cols, row with
  | c :: cs, x :: xs => if str_eqb c name then v :: xs else x :: set_col cs xs name v
  | _, _ => row
  end.

(* show key i iff some key of keys[0..i] differs (ne_missing) from the previous row of the ORIGINAL frame *)
Definition suppress_row (cols : list str) (keys : list str) (prev cur : list val) : list val :=
  fold_left (fun acc lvl =>
               match last_opt lvl with
               | None => acc
               | Some k => if raw_differs cols lvl prev cur then acc else set_col cols acc k VNull
               end)
            (prefixes keys []) cur.

Fixpoint suppress_from (cols keys : list str) (prev : list val) (rows : list (list val)) : list (list val) :=
  match rows with
  | [] => []
  | r :: rest => suppress_row cols keys prev r :: suppress_from cols keys r rest
  end.

Definition enhance_group_by (cols : list str) (rows : list (list val)) (keys : list str)
  : res (list (list val)) :=
  match keys, rows with
  | [], _ => Ok rows
  | _, [] => Ok rows
  | _, r0 :: rest =>
    if negb (all_b (fun k => mem_str k cols) keys) then Err ValueErr
    else if negb (sorting_ok cols rows keys) then Err ValueErr
    else Ok (r0 :: suppress_from cols keys r0 rest)
  end.

(* restore_page_context: at each page start the group columns get their original values back *)
Fixpoint restore_from (cols keys : list str) (starts : list nat) (i : nat)
         (sup orig : list (list val)) : list (list val) :=
  match sup, orig with
  | s :: ss, o :: os =>
    (if existsb (Nat.eqb i) starts
     then fold_left (fun acc k => set_col cols acc k (col_val cols o k)) keys s
     else s) :: restore_from cols keys starts (S i) ss os
  | _, _ => sup
  end.
Definition restore_page_context (cols keys : list str) (starts : list nat)
           (sup orig : list (list val)) : list (list val) :=
  match keys, starts with
  | [], _ => sup
  | _, [] => sup
  | _, _ => restore_from cols keys starts 0 sup orig
  end.
