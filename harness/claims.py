# table of claimed properties (executed by make_manifest.py)
claim("C01",
      "Theorems (Coq): C01_document - for EVERY document (single-, multi-section, figure; Proofs/DocumentWF.v walks the whole "
      "model pipeline) the tokens the model's encode produces start with {\\rtf1 and are exactly one brace-balanced top-level "
      "group, provided the bodies of its text runs are brace-neutral (the property's text domain); every structural part - code "
      "strings from the regenerated tables, paragraph formats, borders, rows, page breaks, pictures, font / colour tables, page "
      "settings - is proved for all inputs; C01_document_lexical - under the analogous hypothesis every control sequence of the "
      "document is a non-empty lower-case control word or an allowed symbol (clause 3); per row #cellx = #cell; the regenerated code tables hold only simple lower-case "
      "control words. The executable model of rtf_encode is tied to the code by strict token-level correspondence "
      "(lex(rtf_encode()) = model tokens) on generated documents of all three kinds, the model's Ok / ValueError outcome must "
      "equal the implementation's, and the full predicate wf_rtf (five clauses) is evaluated on the implementation's real output.",
      "Clauses 4-5 of wf_rtf (\\u ranges, row cell counts) are proved per escaped string / per row and evaluated per case, "
      "not proved at document level. Trusted: Coq kernel, table translator, extraction (ExtrOcamlBasic), OCaml glue, Python harness; "
      "modelled not verified: pydantic/polars/CPython primitives, Pillow widths (oracle), binary64 noise at flagged ties.",
      "Rocq proof over a Gallina model of the whole encoder + checked model/code correspondence (differential, extracted OCaml)",
      "DESIGN.md section 6 C01")
claim("C04",
      "Theorems (Coq, unbounded): the greedy assignment assign_pages (port of _assign_pages) satisfies the boolean "
      "check_assign for every metadata list, budget and new_page flag (break only if forced or overflowing; forced or "
      "overflowing rows always break) and, when every row occupies at least one line, is the only page list that does "
      "(C04_check_unique); pages are numbered in steps of 0/1 from 1, the accounting never overflows except on "
      "single-row pages, and appending rows leaves earlier pages unchanged - C04_append_rows carries this through the row "
      "metadata (K2): the metadata of the first n frame rows, hence their page numbers, do not depend on appended rows. The same check_assign is evaluated on the "
      "page membership of tagged rows read back from rtf_encode(); the model's page list must equal the implementation's.",
      "Row heights are taken from the width oracle (Pillow, trusted); K2 (row metadata) is modelled and tied by "
      "correspondence; that the sliced attributes of the longer frame agree on the first n rows is checked metamorphically; generators keep every cell inside a k-line band (ties flagged and excluded).",
      "Rocq proof (induction over the greedy loop) + checked model/code correspondence + exhaustive small core in thorough tier",
      "DESIGN.md section 6 C04, section 5 K1")
claim("C02",
      "Theorems (Coq, unbounded): C02_section_partition - for every section without group_by whose pagination succeeds the "
      "pages' row slices concatenate to exactly the frame's rows (one metadata entry per row, non-decreasing greedy page "
      "numbers, build_pages ranges summing to the row count, re-slicing by those lengths); C02_page_rows - a page rendered in "
      "segments around group headings is an order-preserving interleaving of its data rows (each once, at its own offset) "
      "with heading rows, and C02_page_body / C02_section_bounds assemble them: every rendered page of every such section is "
      "pre ++ body ++ post with body an interleaving of headings and table_encode of exactly that page's row slice; page slices taken by cumulative heights partition the rows; segment-wise rendering "
      "with carried offsets equals whole-page rendering (no row dropped or duplicated at a group boundary); one rendered "
      "row per frame row and one cell per value; column removal preserves order. The predicate check_c02 (tags 0..n-1 in "
      "order per section, every visible cell text equal to the value's display text) is evaluated on the parsed output of "
      "rtf_encode(), and the parsed items must equal the model's items.",
      "Not proved: that the reader recovers the text of each cell (C10/C11's theorems on the C02 text domain) and the "
      "identification of cell k of rendered row j with value (j,k) (definitional in encode_cells); see the C02_partial note in "
      "Properties/C02.v; text domain as the quantifier states; RTF reader (Rtf/Read.v, Rtf/Decode.v) is my formalisation.",
      "Rocq proof of slicing/segment kernels + checked model/code correspondence on tagged rows",
      "DESIGN.md section 6 C02")
claim("C13",
      "Theorems (Coq, unbounded): for every frame and every distinct key list, the model's suppression shows in group "
      "column j exactly expected_group_cell (blank iff the hierarchical key tuple equals the preceding row's), page starts "
      "restore the original values, other columns are untouched, and non-contiguous keys yield Err ValueErr. The rule "
      "check_c13 (same expected_group_cell, stated on key tuples) is evaluated on every page of the parsed rtf_encode() "
      "output; thorough tier enumerates all key sequences over {A,B,C,null} up to length 6.",
      "polars ne_missing / when-otherwise / slice semantics are modelled as list operations (GroupBy.v), tied by "
      "correspondence; the string-key contiguity test is modelled literally and compared with tuple contiguity on the generated domain.",
      "Rocq proof (fold over hierarchy levels) + checked correspondence + exhaustive key sequences",
      "DESIGN.md section 6 C13")
claim("C10",
      "Theorems (Coq): C10_chars - for EVERY string of Unicode scalar values whose 7-bit characters are not \\ { } CR LF, "
      "decode_tokens (lex (escape s)) = s: the escaper's text read back through the Gallina lexer and decoder is the string "
      "(character level, unbounded; the lexer's compositionality is proved: one step per plain character, three per escaped "
      "UTF-16 unit, decimal parameters of all 65536 units parsed back by computation); token-level round trip with UTF-16 "
      "arithmetic by lia; every \\u parameter in the signed 16-bit range with one fallback character. Against the "
      "implementation: the bytes of the file written by write_rtf are decoded by the same Gallina reader (cp1252 for high "
      "bytes) and every probe string placed in every text-bearing position must be read back, including 28 normalisation- / "
      "folding-sensitive characters and sequences; thorough tier sweeps all 1.1M scalar values as c, ac, cb, acb.",
      "With conversion on the statement goes through C11's reference converter (not a theorem for all texts); RTF reader "
      "semantics (cp1252 under \\ansi, \\uc skipping) are my formalisation of RTF 1.9.",
      "Rocq proof (lexer state-machine induction + UTF-16 arithmetic + finite reflection over 65536 units) + byte-level "
      "differential check incl. exhaustive code-point sweep",
      "DESIGN.md section 6 C10")
claim("C11",
      "Theorems (Coq): on the regenerated 682-entry table and RTF_CHAR_MAPPING — every command alone reads back as its "
      "mapped character; the two-pass model equals the independent single-pass reference tokenizer on every command in 16 "
      "context templates and on the special sequences; pass-1 control words are not captured by pass 2 (finite, by "
      "computation, re-checked whenever the code's tables change); one step of the pass-2 scanner for ALL names, brace groups and "
      "continuations (the whole match - command, or command with its brace group - is looked up; a miss stays verbatim; unbounded); "
      "text without trigger characters is only escaped "
      "(unbounded, induction); conversion off = escaping only. Against the implementation: reader-level events of every "
      "rendered probe run vs the reference converter, for all 682 commands in every component kind and per-cell flags.",
      "Model = reference for all texts is not proved (C11_partial). Known findings C11-sign-space and C11-pagefield-space "
      "(inserted space) are witnessed by C11_refuted_sign_space and reported as KNOWN-FINDING.",
      "Rocq: finite reflection over regenerated tables + induction for plain text + reference-converter differential check",
      "DESIGN.md section 6 C11")
claim("C12",
      "Theorems (Coq): C12_document - for EVERY document (single-, multi-section, figure) every colour index the encoder writes "
      "(text, background, the four cell borders; every row and paragraph of every page) is color_index of a non-empty colour "
      "name that collect_colors d contains, i.e. the palette in force is complete for everything the pipeline looks up "
      "(Proofs/ColorWalk.v walks the whole model pipeline); with C12_resolves each such index points at the requested colour's "
      "entry of the document's own dense table; for every palette of valid names and every non-default colour in it, the index the encoder writes "
      "points at the master-table entry of that very colour inside the document's dense table (unbounded over palettes); "
      "index 0 iff default; the reader reads the emitted \\colortbl back as that dense table; a table exists iff a "
      "non-default colour is used; finite facts on the regenerated colour and font tables (unique names, dense indices, "
      "RGB strings, ten fonts with matching names). Against the implementation: every \\cf/\\cb/\\chcbpat/\\brdrcf index of "
      "the parsed output is resolved through the output's own table and compared with the RGB of the colour the element "
      "requested; thorough tier places each of the 657 colours on single-, multi-section and figure documents.",
      "Which element requests which colour comes from the model run without colour context (attribute binding, validated "
      "by item-level correspondence); the colour-table logic itself is not trusted on the implementation side.",
      "Rocq proof (index-in-filtered-table lemma) + finite reflection on regenerated tables + differential check",
      "DESIGN.md section 6 C12")
claim("C06",
      "Theorems (Coq, unbounded): C06_pages - for every section with at least one row the pages the pagination builds are "
      "numbered 1..n, know the total, and exactly the first / last page carries the first / last flag (C06_exact_pages: so 'first' shows on page index 0 only, 'last' on the final page only, 'all' on every page); a rendered page is break?/title/subline/heading/column headers/body/footnote/source in "
      "that order with each block empty exactly when its placement predicate or needs_header says so; the renderer's "
      "predicate equals the placement rule used on the implementation; one-page documents make first/last/all coincide; "
      "needs_header = pageby_header || first page; every page break restates exactly the document-start geometry "
      "(twip of the configured inches). Against the implementation: roles of every parsed item per page (sentinels), "
      "counts per page vs the placement rule, geometry after each \\page, \\header/\\footer destinations; thorough tier "
      "enumerates the placement x as_table x strategy x pageby_header product.",
      "Role classification relies on the sentinel conventions of the generators; twip rounding is exact-rational (ties flagged).",
      "Rocq proof (structure of render_page, placement predicate) + role-level differential check + exhaustive placement product",
      "DESIGN.md section 6 C06")
claim("C08",
      "Theorems (Coq, unbounded, exact rationals): the last cumulative boundary equals the table width so every row "
      "ends at twip(col_width) - C08_rows_right_edge states it of the RENDERED rows (every row table_encode renders from "
      "col_widths(rel, W) with one value per relative width has its last cell at twip W; every group-heading row too); each boundary is the rounding of its exact proportional position and rounding is within "
      "half a twip (widths proportional to within one twip); twip depends only on the value of the rational. Against the "
      "implementation: \\cellx of every parsed row (headers, spanning rows, data, footnote/source tables, multi-section) vs "
      "twip(col_width), data boundaries vs exact proportional positions, inherited headers cell-by-cell vs data rows, "
      "including documents whose component objects were first used by an earlier document with another column count.",
      "Header width inheritance is constructor logic observed through the dumped state and checked on the output (clause 3), "
      "not proved; binary64 noise at exact half-twip ties is excluded (flagged).",
      "Rocq proof (Q arithmetic: field / lia / nia) + differential check on \\cellx values",
      "DESIGN.md section 6 C08, section 5 K4")
claim("C09",
      "Theorems (Coq, unbounded over rectangular attribute matrices): expansion to the full grid keeps "
      "value[r mod R][c mod C] at every cell; after column removal the value at displayed column j is the user's value at "
      "the original column of j; per-page re-basing reads table row start+i (scalars untouched); column order is "
      "preserved; C09_page_binding composes them (after slicing AND re-basing, page row i / displayed column j reads the user's "
      "attribute at table row start+i / original column of j) and C09_page_fields shows every attribute of the page's record "
      "except border_top / border_bottom is exactly that. Against the implementation: check_c09 renders the expected cell from the attributes at the cell's "
      "original (row, column) and compares every character / paragraph / cell / border property and \\cellx of every data "
      "cell on every page, for all attributes in scalar / per-column / matrix shapes with 0..k removed columns.",
      "The cell emitter (Encode.v) is shared between the expected cell and the model and is validated by C01's strict token "
      "correspondence; boundary borders of the first/last data row of a page belong to C07.",
      "Rocq proof (list arithmetic on broadcast / slice / re-base) + direct-rule differential check per cell",
      "DESIGN.md section 6 C09, section 5 K3")
claim("C07",
      "Theorems (Coq, unbounded): on every page the closing style (rtf_body.border_last before a break, "
      "rtf_page.border_last at the end) lands on every cell of the last data row, or on the table-rendered "
      "footnote/source shown there (source first); the first data row's top gets rtf_page.border_first on a first page "
      "without rendered header and rtf_body.border_first at every other page start; update_cell changes exactly one cell "
      "of the broadcast grid; every other top / bottom edge keeps the user's value of the cell's original row and the "
      "left / right edges, colours and widths are untouched (C07_interior_top / _bottom, C07_sides_untouched). Against the implementation: border styles of the first/last table row of the document and "
      "of every page and the four border styles of every other data cell read back from the output, over all border choices x header modes x footnote/source "
      "(table/paragraph/absent) x placements x strategies.",
      "Known finding C07-border-top-override (per-column border_top replaces border_first on page-first rows) is reported "
      "as KNOWN-FINDING and witnessed by C07_refuted_border_top_override; header-row top border is checked differentially only.",
      "Rocq proof (case analysis of the page processor + matrix update lemmas) + differential check on boundary rows",
      "DESIGN.md section 6 C07")
claim("C05",
      "Theorems (Coq, unbounded): C05_state - the loop invariant: at every row of every page the carried heading state agrees with "
      "the row on every non-divider page_by level, so each boundary compares against the true values above it; the renderer's hierarchical loop renders exactly heading_plan — outer levels before "
      "inner, every changed level rendered, every inner level re-rendered once an outer one is, nothing when nothing "
      "changed; divider values never reach the heading values; in-page boundaries are strictly increasing and strictly "
      "inside the page, so headings are followed by the first data row of their group. Against the implementation: per "
      "page, the sequence of full-width heading rows / subline paragraphs and tagged data rows must put every row under "
      "the heading of each of its levels, outer-before-inner, never stranded, no divider heading, one subline heading "
      "naming the page's single group.",
      "The loop invariant (carried state = key of the previous row) is validated by check_c05 and item correspondence, not "
      "proved; domain: sorted keys with level-specific labels.",
      "Rocq proof (induction over page_by levels and boundaries) + role-sequence differential check",
      "DESIGN.md section 6 C05")
claim("C03",
      "Theorems (Coq, unbounded): the implementation's accounting never overflows (budgeted rows per page within "
      "max 1 (nrow - reserved) or a single-row page), every row the pipeline measures occupies >= 1 line (composed: C03_pipeline_accounting), the budgeted line "
      "count of a cell dominates the lines it needs, and budget + reserved <= nrow (C03_partial). The full statement is "
      "refuted on the faithful model by two accounting gaps (known findings, witnessed by C03_refuted_heading_rows). "
      "Against the implementation: rows by role per parsed page with data rows weighted by an independent line bound at "
      "the cell's own font/size; every overflowing page is decomposed into header / heading / data components and any "
      "excess the known gaps do not explain is a violation.",
      "Line bounds come from Pillow through get_string_width (trusted oracle); footnote/source/heading rows are counted as "
      "one line each (a lower bound). Known findings: C03-auto-header-unreserved, C03-heading-rows-underbudgeted.",
      "Rocq proof (greedy-loop invariant, Q/Z arithmetic) + role-weighted differential check with excess decomposition",
      "DESIGN.md section 6 C03")
claim("C19",
      "Theorems (Coq): one illegal entry anywhere in a scalar / vector / matrix value makes the model's construction refuse "
      "it (unbounded, by position); acceptance iff every entry legal; non-positive numbers never legal; structural rules; "
      "legal sets come from the regenerated tables. Against the implementation: for every validated field of every "
      "component, invalid values at random positions inside scalar / list / nested-list forms mixed with valid ones must "
      "raise ValueError (FileNotFoundError for a missing figure) and valid ones must be accepted; the model's accept / "
      "reject decision is computed by the extracted Validate.accepts on the same flattened value.",
      "pydantic's type coercion is outside the model (trials are well-typed); keyword sets that are literals in the source "
      "(orientation, placement, pageby_row, fig_align, fig_pos) are hand-modelled and tied by the differential check only.",
      "Rocq proof (forallb/existsb lemmas over regenerated legal sets) + malformed-input differential stream",
      "DESIGN.md section 6 C19")
claim("C16",
      "Theorems (Coq, unbounded): the hex payload decodes to the exact bytes for every byte string (hence is injective); the PNG parser returns "
      "the big-endian dimensions after any chunk header; the JPEG scanner returns the first start-of-frame's dimensions "
      "and skips every other segment by its declared length; display size = int(inches x 1440); sizes are positional "
      "with the last value reused. Against the implementation: picture destinations of the parsed output — payload "
      "decoded and compared with the file bytes, blip keyword per suffix, \\picw/\\pich vs the dimensions the generator "
      "wrote into random PNG/JPEG headers (EMF: 96-dpi fallback), goals, alignment, one picture per page in order, captions "
      "per placement.",
      "EMF has no dimension parser (fallback, as the anchor states); suffix/MIME detection is checked differentially only.",
      "Rocq proof (byte arithmetic by lia, scanner step lemmas) + differential check on picture destinations",
      "DESIGN.md section 6 C16")
claim("C17",
      "Theorems (Coq, unbounded over files of rtflite's line shape): assemble's output is the first file without its final "
      "line, then per later input a \\page line and that input's lines after its font table, then the last closing brace — "
      "every body exactly once, in order; the start index is just after the font-table closing line; a single input is "
      "reproduced unchanged; an empty list writes nothing. Against the implementation: the model's output must equal the "
      "assembled file character by character; the assembled file must be wf_rtf; its parsed items must equal the "
      "concatenation of the inputs' parsed items with one \\page between inputs; the restated geometries must be the inputs' "
      "own; empty list and missing input are exercised.",
      "Token-level well-formedness of the concatenation is evaluated per case, not proved (lexer compositionality); inputs "
      "whose text contains the word 'fcharset' are outside the quantifier.",
      "Rocq proof (list arithmetic on lines) + exact-output differential check + parse-back of assembled pages",
      "DESIGN.md section 6 C17")
claim("C20",
      "Theorems (Coq): with the advances and kerning pairs dumped from the bundled fonts, for every font and every string "
      "the model width is >= 0 and never decreases when a character is appended (unbounded over strings; finite facts on "
      "the dumped tables); empty string = 0; unit conversions exact in rational arithmetic; names and numbers resolve to "
      "the same font, unsupported fonts/units refused; the monospaced font has one advance and no kerning; the same non-negativity, empty-string and "
      "append-monotonicity facts are lifted to the whole get_string_width function (font resolution, scaling, unit "
      "conversion; any size >= 0, dpi > 0) and the model's scaling is proved exactly linear in the size (C20_api_*, "
      "C20_model_linear). Against the "
      "implementation: the model's width must equal get_string_width exactly (1/64 px) at the reference size; units, "
      "name/number, append-monotonicity, 1% scaling across sizes 4..48, mono = count x advance and rejections are checked "
      "on random strings.",
      "C20_partial: scaling with the font size (FreeType hinting) is a sampled relation, not a theorem; Pillow/FreeType are "
      "the oracle for the dumped metrics; U+00AD (zero-advance format character) is outside the domain; the exact model comparison is "
      "made on single-script strings (HarfBuzz shapes common-script characters next to Greek letters differently), mixed strings are "
      "covered by the sampled relations only.",
      "Rocq proof (fold invariants + finite reflection on dumped font metrics) + exact differential check at the reference size",
      "DESIGN.md section 6 C20")
claim("C14",
      "Theorems (Coq, unbounded over histories): in the model of the encoder's process shell (Model/Ctx.v: the colour context "
      "is set for every path, the encoder runs, the context is always cleared) the result of encoding t after ANY history of "
      "constructions and successful or failing encodes, from any starting context, is enc (Some (pal t)) t - its fresh-process "
      "result - and so is every output of the history (C14_every_output: the whole output list characterised); two consecutive encodes agree; no history leaves a context behind; the shell before the repairs is refuted by a "
      "witness. The encoder inside the shell is the Gallina function Document.encode (pure by construction, tied to the code by "
      "strict token correspondence on the pool). Against the implementation: every history (exhaustive length 1, and 2 in the "
      "thorough tier; sampled 2-4; failing-encode-then-X) is run in a FRESH interpreter, with and without shared component "
      "objects, and every encode in it must equal (sha1 / exception class) the same document encoded alone in a fresh "
      "interpreter (two hash seeds); the context observed by a recorder must equal the model's run; the caller's DataFrames "
      "must be equal before and after.",
      "Object aliasing between documents and StrategyRegistry are not in the Gallina model (history runs only); pool of 18 documents.",
      "Rocq proof (induction over histories of a state-machine model of the colour context) + fresh-interpreter history runs "
      "compared with a subprocess baseline and with the model's context trace",
      "DESIGN.md section 6 C14")
claim("C15",
      "Theorems (Coq, unbounded over schedules and thread counts): with one context per thread (Model/Ctx.v: tctx), what the "
      "colour look-ups of thread t observe in ANY interleaving of context events equals what they observe when t's events run "
      "alone, and every look-up made during an encode of d sees d's own palette - also when each thread runs any number of encodes "
      "one after another (C15_many_encodes); with a single shared context the statement is "
      "refuted by a witness schedule. Against the implementation: real threads under a deterministic baton scheduler that "
      "preempts at library call boundaries (sys.settrace); one preemption at every boundary (thorough: exhaustive for three "
      "document pairs in both directions; quick: all boundaries around context reads/writes plus a sample) and sampled 2-3 "
      "preemptions over 2-3 threads; every thread's string must equal its solo string; the recorded read/write trace of the "
      "context is replayed through the model's observe and must predict every value the look-ups saw.",
      "The model covers the colour context only (the one piece of state the anchors name); preemption inside a function body "
      "and non-rtflite libraries' thread safety are outside the model and the scheduler.",
      "Rocq proof (interleaving-independence of a per-thread map by induction over schedules) + systematic schedule "
      "enumeration with a deterministic scheduler, traces replayed through the extracted model",
      "DESIGN.md section 6 C15")
claim("C18",
      "Theorem (Coq, for every scenario and every well-formed file system; Model/Export.v): with the file system as "
      "functions over component paths and write_rtf / write_docx / write_html / write_pdf as the code's sequence of mkdir -p, "
      "mkdtemp, encode, write, convert, type check, move, resource-folder move and TemporaryDirectory clean-ups, if anything "
      "fails (rtf_encode raises, the converter fails before or after producing output, produces nothing, returns a list / None / "
      "str / a missing Path, or an exception is injected in the constructor, encode or convert phase) the export raises, EVERY "
      "file equals its previous contents and nothing is left below the temporary directories; otherwise the target holds the "
      "output, the resource folder holds exactly the new resources, every other file is unchanged and the temporary "
      "directories are gone. The hypotheses are preserved by every export (C18_wf_preserved), so the theorem applies again to a retry "
      "after a failure and to a re-export over the previous output (C18_again). The pre-repair write_html is refuted by a "
      "witness (existing resource folder). Against the "
      "implementation: sandboxed exports with a private tempfile.tempdir, the real LibreOfficeConverter over a fake soffice "
      "executable and converter stubs, an exception injected at every library call site (first and a random instance) via "
      "sys.settrace; the real file tree before/after decides the property and must equal the model's final file system path by path.",
      "OS-level failure inside write_text / rename (disk full, cross-device move) is outside the model; precondition wf: no "
      "regular file sits where the resource folder goes, temp dirs are fresh; LibreOffice's contract is played by a fake executable.",
      "Rocq proof (refinement of the export procedures to an all-or-nothing specification over a path-indexed file system) + "
      "fault injection at every library call site with model/implementation file-system comparison",
      "DESIGN.md section 6 C18")
