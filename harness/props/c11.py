"""C11: text conversion translates exactly the documented tokens and nothing else."""
import collections
import random

import rt
from rtflite.dictionary.unicode_latex import latex_to_char

from . import common

TRUSTED = ["reference converter spec_events (Model/TextSpec.v): an independent single-pass tokenizer of the input text; events_of_tokens: reader view of a run"]
ASSUMPTIONS = ["probe texts contain braces only in balanced pairs; with conversion off no raw \\ { }"]

KEYS = list(latex_to_char.keys())
NONLETTER = None


def is_letter_command(k):
    import re
    return re.fullmatch(r"\\[a-zA-Z]+(\{[^}]*\})?", k) is not None


# characters that case-fold / normalise to ASCII letters, or look like them: they must END a command name
FOLLOWERS = ["\u212a", "\u017f", "\u0130", "\u0131", "\uff41", "\u0430", "\u03b1", "\u00e9", "\ufb01", "\u2113", "\u00b5"]


def follower_texts():
    out = []
    for cmd in ("\\alpha", "\\pm", "\\beta", "\\infty"):
        cmd = cmd.replace("\\\\", "\\")
        for f in FOLLOWERS:
            out.append(cmd + f)
            out.append("a " + cmd + f + " b")
    return out


def templates(r, cmd):
    other = r.choice(KEYS)
    return [cmd, "x " + cmd, cmd + " y", cmd + "1", "(" + cmd + ")", cmd + other, cmd + " " + other, cmd + ".", "a" + cmd + "b" if not cmd[-1].isalpha() else "a" + cmd + " b",
            cmd + "x", cmd + "{z}", cmd + "^2", cmd + "_i", "n" + cmd + "10"]


def prefix_pairs():
    """Texts holding a command and a longer command it is a prefix of (mapped or unknown), in both orders."""
    out = []
    letter = sorted(k for k in KEYS if is_letter_command(k) and "{" not in k)
    for a in letter:
        for b in letter:
            if b != a and b.startswith(a) and b[len(a):].isalpha():
                out.append(f"{a} and {b}")
                out.append(f"{b} and {a}")
    for a in ("\\alpha", "\\pm", "\\in"):
        a = a.replace("\\\\", "\\")
    out += ["\\alphabet and \\alpha".replace("\\\\", "\\"), "x >= 1, y \\geqslant 2".replace("\\\\", "\\"),
            "\\cdot then \\cdots".replace("\\\\", "\\")]
    return out


SPECIALS = ["x^2", "a_i", "a>=b", "a <= b", ">=", "<=5", "line1\nline2", "Page \\pagenumber of \\totalpage", "\\pagefield", "p\\pagenumber.",
            "x^2_i>=3", "\\foo", "\\foo12 bar", "\\foo bar", "\\unknowncmd{arg}", "plain text only", "a{b}c", "50% (n=3)", "\\%", "tab\\'x",
            # newlines at the edges and doubled; characters that only LOOK like line ends to str.splitlines must pass unchanged
            "line1\n", "\nline2", "a\n\nb", "x\n\n", "a\u2028b", "a\u2029b", "end\u2028", "q\u2029\nr"]


def probe_texts(r, n, thorough_slice=None):
    out = []
    if thorough_slice is not None:
        for cmd in thorough_slice:
            out.extend(templates(r, cmd))
        return out
    while len(out) < n:
        k = r.random()
        if k < 0.6:
            out.append(r.choice(templates(r, r.choice(KEYS))))
        elif k < 0.85:
            out.append(r.choice(SPECIALS))
        else:
            out.append(" ".join(r.choice(["mean", "sd", "12.5", "n", "(%)", "ci"]) for _ in range(r.randint(1, 5))))
    return out


def make_doc(r, texts, pos=None):
    """texts: probe texts for body rows (conversion on, except odd rows of column c1 which are off).
    pos: position (0 or 1) of a page_by column that is removed from the display and whose own text_convert flag differs from the
    neighbour that takes its place; per-cell flags must follow their cells."""
    rows = []
    probes = []
    conv = []
    cols = ["id", "c1"]
    if pos is not None:
        cols.insert(pos, "g0")
    for i, t in enumerate(texts):
        plain_off = "".join(ch for ch in t if ch not in "\\{}\n") or "x"
        row = [f"#{i}#" + t, f"%{i}%" + plain_off]
        flags = [True, False]
        if pos is not None:
            row.insert(pos, "@G")
            flags.insert(pos, pos == 1)     # differs from the column that moves into its place
        rows.append(row)
        probes.append((f"#{i}#", t, True))
        probes.append((f"%{i}%", plain_off, False))
        conv.append(flags)
    if pos is not None and r.random() < 0.5 and conv:
        conv = [conv[0]]                    # the per-column form
    extra = r.choice(texts) if texts else "x"
    body = {"text_convert": conv if conv else True}
    if pos is not None:
        body["page_by"] = ["g0"]
    spec = {"df": {"cols": cols, "rows": rows}, "body": body,
            "page": {"nrow": 200}, "kind": "single", "strategy": "probe",
            "title": {"text": "T" + extra}, "footnote": {"text": "F" + extra, "as_table": r.random() < 0.5},
            "source": {"text": "R" + extra}, "headers": [{"text": ["H" + extra, "HH"]}],
            "subline": {"text": "S" + "".join(ch for ch in extra if ch not in "\\{}\n")},
            "page_footer": {"text": "Q" + extra, "text_convert": True}}
    probes += [("T", extra, True), ("F", extra, True), ("R", extra, True), ("H", extra, True),
               ("S", "".join(ch for ch in extra if ch not in "\\{}\n"), False), ("Q", extra, True)]
    spec["_probes"] = probes
    return spec


def extra_fn(spec, doc, ok, out):
    return rt.sx_list(rt.sx_list([rt.sx_str(a), rt.sx_str(b), rt.sx_bool(c)]) for a, b, c in spec.get("_probes", []))


_orig_build = rt.build


def _build(spec):
    return _orig_build({k: v for k, v in spec.items() if not k.startswith("_")})


rt.build = _build


def signature_for(text):
    if ">=" in text or "<=" in text:
        return "c11-sign-space"
    if "\\pagefield" in text:
        return "c11-pagefield-space"
    return None


def run(ctx):
    r = random.Random(ctx["seed"] * 101 + 7)
    tier = ctx["tier"]
    docs = []
    if ctx.get("replay"):
        import json
        payload = json.load(open(ctx["replay"]))
        docs.append(("replay", payload["spec"]))
    else:
        for name, spec in common.corpus_specs("C11"):
            docs.append((name, spec))
        if tier == "quick":
            # every key once (template drawn at random), plus specials and random probes
            keys = KEYS[:]
            r.shuffle(keys)
            texts = [r.choice(templates(r, k)) for k in keys] + SPECIALS * 2 + probe_texts(r, 60) + prefix_pairs() + follower_texts()
        else:
            texts = []
            for k in KEYS:
                texts.extend(templates(r, k))
            texts += SPECIALS * 3 + probe_texts(r, 400) + prefix_pairs() + follower_texts()
        for i in range(0, len(texts), 40):
            docs.append((f"d{i}", make_doc(r, texts[i:i + 40], [None, 0, 1][(i // 40) % 3])))
    failures = []
    stats = collections.Counter()
    probe_stats = collections.Counter()
    samples = []
    distinct = set()
    known_seen = {}
    recs = []
    for lo in range(0, len(docs), 100):
        recs.extend(common.evaluate("c11", docs[lo:lo + 100], extra_fn))
    for rec in recs:
        cls = common.classify(rec)
        res = rec.get("result") or {}
        classes = [int(x) for x in res.get("classes", "").split(",") if x != ""]
        probes = rec["spec"].get("_probes", [])
        for (tag, text, conv), c in zip(probes, classes):
            probe_stats[f"class{c}"] += 1
            distinct.add((text, conv))
        stats[cls] += 1
        if cls == "ok" and len(samples) < 2:
            samples.append({"probes": probes[:6], "result": {k: v for k, v in res.items() if k != "classes"}})
        if cls in ("corr", "build", "harness"):
            if len([f for f in failures if f["kind"] == cls]) < 2:
                failures.append({"kind": cls, "name": cls, "spec": rec["spec"], "result": res, "error": rec.get("error"),
                                 "what": "model and implementation disagree on a C11 probe document", "signature": None})
        # per-probe failures
        for (tag, text, conv), c in zip(probes, classes):
            if c in (1, 2, 7):
                sig = signature_for(text) if c == 7 else None
                key = sig or ("viol", text)
                if key in known_seen:
                    continue
                known_seen[key] = True
                if c != 7 and len([f for f in failures if f["kind"] == "holds" and f.get("signature") is None]) >= 3:
                    continue
                failures.append({"kind": "holds", "name": "probe", "signature": sig,
                                 "spec": make_single(text, conv, tag), "probe_text": text, "convert": conv, "class": c,
                                 "what": "the reader-level events of the rendered run differ from the reference conversion of this text"
                                         + (" (only by a documented deviation)" if c == 7 else "")})
    coverage = {
        "evaluations": sum(probe_stats.values()),
        "distinct_nontrivial": len(distinct),
        "rule": "probe = (text, convert flag) rendered in a body cell / title / header / footnote / source / subline / page footer; "
                "distinct = different (text, flag); all 682 table keys appear (quick: one random context each; thorough: 14 contexts each)",
        "samples": samples,
        "outcomes": dict(stats), "probe_classes": dict(probe_stats),
        "documents": len(docs), "exhaustive": tier == "thorough",
        "traces_validated_against_impl": stats["ok"],
    }
    return {"failures": failures, "coverage": coverage}


def make_single(text, conv, tag):
    spec = {"df": {"cols": ["id"], "rows": [["#0#" + text]]}, "body": {"text_convert": conv}, "page": {"nrow": 20},
            "title": None, "headers": [], "kind": "single", "strategy": "probe", "_probes": [("#0#", text, conv)]}
    return spec
