(* UnifiedRTFEncoder.encode: single-section, multi-section and figure documents -> tokens. *)
From Coq Require Import Ascii String.
From Coq Require Import List NArith ZArith QArith Bool Arith.
From V Require Import Str Num Tok Tables Items Doc Broadcast TextConv Encode Paginate GroupBy Pipeline Figure.
Import ListNotations.
Local Open Scope string_scope.
Local Open Scope list_scope.

(* ---- colour collection ---- *)
Definition mat_strs (o : omat str) : list str := match o with Some v => concat v | None => [] end.

Definition attr_colors_text (a : attrs) : list str := mat_strs (a_color a) ++ mat_strs (a_bg a).
Definition attr_colors_sides (a : attrs) : list str :=
  mat_strs (a_bcl a) ++ mat_strs (a_bcr a) ++ mat_strs (a_bct a) ++ mat_strs (a_bcb a).
Definition attr_colors_body (a : attrs) : list str :=
  attr_colors_text a ++ attr_colors_sides a ++ mat_strs (a_bcfirst a) ++ mat_strs (a_bclast a).

Definition bodies_of (c : content) : list body :=
  match c with
  | CSingle _ b => [b]
  | CMulti l => map snd l
  | CFigure _ => []
  end.

Definition all_headers (hs : headers) : list header :=
  flat_map (fun o => match o with Some h => [h] | None => [] end)
           (match hs with HFlat l => l | HNested l => concat l | HNone => [] end).

Definition collect_colors (d : doc) : list str :=
  filter (fun c => negb (str_eqb c []))
    (flat_map (fun b => attr_colors_body (b_attrs b)) (bodies_of (d_content d))
     ++ flat_map (fun o => match o with Some t => attr_colors_text (tc_attrs t) ++ attr_colors_sides (tc_attrs t) | None => [] end)
          [d_title d; d_subline d; d_page_header d; d_page_footer d]
     ++ flat_map (fun o => match o with Some t => attr_colors_text (tt_attrs t) ++ attr_colors_sides (tt_attrs t) | None => [] end)
          [d_footnote d; d_source d]
     ++ flat_map (fun h => attr_colors_text (h_attrs h) ++ attr_colors_sides (h_attrs h)) (all_headers (d_headers d))).

(* ---- preamble ---- *)
Definition doc_start : list tok := [TOpen; ctrlz "rtf" 1; ctrl "ansi"; ctrlz "deff" 0; ctrlz "deflang" 1033].

Fixpoint font_entries (l : list (Z * (str * (str * str)))) (i : Z) : list tok :=
  match l with
  | [] => []
  | (_, (style, (charset, name))) :: r =>
    [TOpen; ctrlz "f" i] ++ lex style ++ lex charset ++ [ctrlz "fprq" 2; TText (name ++ [59%N]); TClose]
    ++ font_entries r (i + 1)%Z
  end.
Definition font_table_tokens : list tok :=
  [TOpen; ctrl "fonttbl"] ++ font_entries font_table 0 ++ [TClose].

Definition color_table_tokens (used : list str) : list tok :=
  if negb (nonempty (filter significant used)) then []
  else
    [TOpen; ctrl "colortbl"; TText [59%N]]
    ++ flat_map (fun e => let '(_, (_, (r, g, b))) := e in
                          [ctrlz "red" r; ctrlz "green" g; ctrlz "blue" b; TText [59%N]])
                (sorted_palette used)
    ++ [TClose].

Definition header_footer_tokens (ctx : option (list str)) (name : string) (o : option textcomp)
  : res (list tok) :=
  match text_shown o with
  | None => Ok []
  | Some t =>
    do its <- encode_text_line ctx (tc_attrs t) (opt_list (tc_text t));
    Ok ([TOpen; ctrl name] ++ emit_items its ++ [TClose])
  end.

Definition page_settings_tokens (pg : page) : list tok :=
  let g := geom_of pg in
  [ctrlz "paperw" (g_w g); ctrlz "paperh" (g_h g)]
  ++ (if p_landscape pg then [ctrl "landscape"] else [])
  ++ emit_margins margin_names (g_margins g).

Definition preamble (ctx : option (list str)) (d : doc) : res (list tok) :=
  do h <- header_footer_tokens ctx "header" (d_page_header d);
  do f <- header_footer_tokens ctx "footer" (d_page_footer d);
  Ok (doc_start ++ font_table_tokens ++ color_table_tokens (collect_colors d)
      ++ h ++ f ++ page_settings_tokens (d_page d)).

(* ---- sections ---- *)
Definition single_secdoc (d : doc) (f : frame) (b : body) : secdoc :=
  {| s_page := d_page d; s_title := d_title d; s_subline := d_subline d; s_headers := d_headers d;
     s_footnote := d_footnote d; s_source := d_source d; s_frame := f; s_body := b;
     s_widths := d_widths d |}.

Definition no_text (o : option textcomp) : option textcomp :=
  option_map (fun t => {| tc_text := None; tc_attrs := tc_attrs t |}) o.
Definition no_tt_text (o : option tabletext) : option tabletext :=
  option_map (fun t => {| tt_text := None; tt_as_table := tt_as_table t; tt_attrs := tt_attrs t |}) o.

Definition with_borders (pg : page) (bf bl : option str) : page :=
  {| p_landscape := p_landscape pg; p_width := p_width pg; p_height := p_height pg; p_margin := p_margin pg;
     p_nrow := p_nrow pg; p_border_first := bf; p_border_last := bl; p_col_width := p_col_width pg;
     p_title := p_title pg; p_footnote := p_footnote pg; p_source := p_source pg |}.

Definition multi_secdoc (d : doc) (n i : nat) (f : frame) (b : body) : secdoc :=
  let pg := d_page d in
  let first_sec := Nat.eqb i 0 in
  let last_sec := Nat.eqb (S i) n in
  let hs := match d_headers d with
            | HNested l => match nth_error l i with Some x => HFlat x | None => HNone end
            | HFlat l => if first_sec then HFlat l else HNone
            | HNone => HNone
            end in
  let suppress_title := negb first_sec && (str_eqb (p_title pg) (s2l "first") || negb (b_new_page b)) in
  {| s_page := with_borders pg (if first_sec then p_border_first pg else None)
                               (if last_sec then p_border_last pg else None);
     s_title := if suppress_title then no_text (d_title d) else d_title d;
     s_subline := if suppress_title then no_text (d_subline d) else d_subline d;
     s_headers := hs;
     s_footnote := if negb last_sec && str_eqb (p_footnote pg) (s2l "last")
                   then no_tt_text (d_footnote d) else d_footnote d;
     s_source := if negb last_sec && str_eqb (p_source pg) (s2l "last")
                 then no_tt_text (d_source d) else d_source d;
     s_frame := f; s_body := b; s_widths := d_widths d |}.

Fixpoint multi_sections (ctx : option (list str)) (d : doc) (n i : nat) (l : list (frame * body))
  : res (list (list item)) :=
  match l with
  | [] => Ok []
  | (f, b) :: rest =>
    do x <- encode_section ctx (multi_secdoc d n i f b);
    do xs <- multi_sections ctx d n (S i) rest;
    Ok (x ++ xs)
  end.

(* ---- figure documents ---- *)
Definition placed (loc : str) (first last : bool) : bool :=
  str_eqb loc (s2l "all") || (str_eqb loc (s2l "first") && first) || (str_eqb loc (s2l "last") && last).

Fixpoint figure_pages (ctx : option (list str)) (d : doc) (fg : figure) (figs : list (str * str))
         (i n : nat) : res (list (list item)) :=
  match figs with
  | [] => Ok []
  | (fmt, data) :: rest =>
    let first := Nat.eqb i 0 in
    let last := Nat.eqb (S i) n in
    let pg := d_page d in
    do title <- (if placed (p_title pg) first last then render_textcomp ctx (d_title d) else Ok []);
    do subl <- (if first then render_textcomp ctx (d_subline d) else Ok []);
    do w <- dimension (fg_width fg) i;
    do h <- dimension (fg_height fg) i;
    let pic := IPict (encode_single_figure fmt data w h (fg_align fg)) in
    do fn <- (match d_footnote d with
              | Some t => if placed (p_footnote pg) first last
                          then render_tabletext ctx
                                 {| tt_text := tt_text t; tt_as_table := false; tt_attrs := tt_attrs t |}
                                 (p_col_width pg) None
                          else Ok []
              | None => Ok []
              end);
    do src <- (match d_source d with
               | Some t => if placed (p_source pg) first last
                           then render_tabletext ctx t (p_col_width pg) None else Ok []
               | None => Ok []
               end);
    do more <- figure_pages ctx d fg rest (S i) n;
    Ok ((title ++ subl ++ [pic] ++ fn ++ src ++ (if last then [] else [IBreak (geom_of pg)])) :: more)
  end.

(* pages of the document body, as lists of items *)
Definition document_pages (ctx : option (list str)) (d : doc) : res (list (list item)) :=
  match d_content d with
  | CSingle f b => encode_section ctx (single_secdoc d f b)
  | CMulti l => multi_sections ctx d (length l) 0 l
  | CFigure fg => figure_pages ctx d fg (fg_data fg) 0 (length (fg_data fg))
  end.

Definition encode_with (ctx : option (list str)) (d : doc) : res (list tok) :=
  do pages <- document_pages ctx d;
  do pre <- preamble ctx d;
  Ok (canon (pre ++ emit_items (concat pages) ++ [TClose])).

(* the document's own palette is the context on every path (after the colour-context fix) *)
Definition encode (d : doc) : res (list tok) := encode_with (Some (collect_colors d)) d.
