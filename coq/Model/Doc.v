(* Document state as rtf_encode() sees it (after construction): the model's input. *)
From Coq Require Import Ascii String.
From Coq Require Import List NArith ZArith QArith Bool.
From V Require Import Str Num.
Import ListNotations.

Inductive err := ValueErr | TypeErr | IndexErr | AttrErr | FileNotFound | OtherErr.
Inductive res (A : Type) := Ok (a : A) | Err (e : err).
Arguments Ok {A} a.
Arguments Err {A} e.
Definition bind {A B} (r : res A) (f : A -> res B) : res B :=
  match r with Ok a => f a | Err e => Err e end.
Notation "'do' x <- r ; k" := (bind r (fun x => k)) (at level 200, x pattern, r at level 100, k at level 200).

Fixpoint mapM {A B} (f : A -> res B) (l : list A) : res (list B) :=
  match l with
  | [] => Ok []
  | x :: r => do y <- f x; do ys <- mapM f r; Ok (y :: ys)
  end.

Definition of_opt {A} (o : option A) (e : err) : res A :=
  match o with Some a => Ok a | None => Err e end.

(* DataFrame cell values *)
Inductive val := VNull | VStr (s : str) | VInt (z : Z) | VFloat (s : str).

Definition py_str (v : val) : str :=
  match v with
  | VNull => s2l "None"
  | VStr s => s
  | VInt z => dec_of_Z z
  | VFloat s => s
  end.

(* display text of a body cell: null shown as empty *)
Definition display (v : val) : str :=
  match v with VNull => [] | _ => py_str v end.

Definition val_eqb (a b : val) : bool :=
  match a, b with
  | VNull, VNull => true
  | VStr s, VStr t => str_eqb s t
  | VInt x, VInt y => Z.eqb x y
  | VFloat s, VFloat t => str_eqb s t
  | _, _ => false
  end.

Record frame := { f_cols : list str; f_rows : list (list val) }.

Definition mat (A : Type) := list (list A).
Definition omat (A : Type) := option (mat A).

(* attributes shared by text and table components, already in nested-list form *)
Record attrs := {
  a_font : omat Z;
  a_format : omat str;
  a_size : omat Q;
  a_color : omat str;
  a_bg : omat str;
  a_just : omat str;
  a_ifirst : omat Z;
  a_ileft : omat Z;
  a_iright : omat Z;
  a_space : omat Z;
  a_sb : omat Z;
  a_sa : omat Z;
  a_hyph : omat bool;
  a_conv : omat bool;
  (* table part *)
  a_crw : option (list Q);
  a_bl : omat str; a_br : omat str; a_bt : omat str; a_bb : omat str;
  a_bfirst : omat str; a_blast : omat str;
  a_bcl : omat str; a_bcr : omat str; a_bct : omat str; a_bcb : omat str;
  a_bcfirst : omat str; a_bclast : omat str;
  a_bw : omat Z;
  a_ch : omat Q;
  a_cj : omat str;
  a_cvj : omat str
}.

Record textcomp := { tc_text : option (list str); tc_attrs : attrs }.

(* footnote / source: text already joined with "\line " at construction *)
Record tabletext := { tt_text : option str; tt_as_table : bool; tt_attrs : attrs }.

Record header := { h_text : option (list str); h_attrs : attrs }.

Record body := {
  b_attrs : attrs;
  b_as_colheader : bool;
  b_group_by : option (list str);
  b_page_by : option (list str);
  b_new_page : bool;
  b_pageby_header : bool;
  b_pageby_row : str;
  b_subline_by : option (list str)
}.

Record page := {
  p_landscape : bool;
  p_width : Q; p_height : Q;
  p_margin : list Q;
  p_nrow : Z;
  p_border_first : option str;
  p_border_last : option str;
  p_col_width : Q;
  p_title : str; p_footnote : str; p_source : str
}.

Record figure := {
  fg_data : list (str * str);      (* (format, bytes) per figure, format as rtf_read_figure reports it *)
  fg_width : list Q;
  fg_height : list Q;
  fg_align : str
}.

(* column headers of a single-section document: flat list, None entries allowed *)
Inductive headers :=
| HFlat (l : list (option header))
| HNested (l : list (list (option header)))
| HNone.

Inductive content :=
| CSingle (f : frame) (b : body)
| CMulti (l : list (frame * body))
| CFigure (f : figure).

Record doc := {
  d_content : content;
  d_page : page;
  d_page_header : option textcomp;
  d_page_footer : option textcomp;
  d_title : option textcomp;
  d_subline : option textcomp;
  d_headers : headers;
  d_footnote : option tabletext;
  d_source : option tabletext;
  (* string-width oracle: width in inches of (text) at font 1, 9pt, as get_string_width reports *)
  d_widths : list (str * Q)
}.
