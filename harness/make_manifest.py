#!/venv/bin/python
"""Write /verif/MANIFEST.json from the table of claimed properties below."""
import json
import os

VERIF = os.path.dirname(os.path.dirname(os.path.abspath(__file__)))

CLAIMED = {}   # pid -> dict(text, note, technique, design_ref)
NOT_YET = {}   # pid -> reason


def claim(pid, text, note, technique, design_ref):
    CLAIMED[pid] = dict(text=text, note=note, technique=technique, design_ref=design_ref)


exec(open(os.path.join(VERIF, "harness", "claims.py")).read())

props = [json.loads(l) for l in open(os.path.join(VERIF, "properties.jsonl"))]
checks = []
na = []
for p in props:
    pid = p["id"]
    if pid in CLAIMED:
        c = CLAIMED[pid]
        checks.append({
            "property_id": pid,
            "quick_cmd": f"./check {pid} quick",
            "thorough_cmd": f"./check {pid} thorough",
            "evidence_file": f"/verif/evidence/{pid}.json",
            "replay_cmd_template": f"./check {pid} --replay {{path}}",
            "engine": "coq-model",
            "level_claimed": {"category": "proof", "text": c["text"], "design_ref": c["design_ref"]},
            "level_note": c["note"],
            "technique": c["technique"],
        })
    else:
        na.append({"property_id": pid, "reason": NOT_YET.get(pid, "check not built yet in this round; nothing is claimed for it")})

manifest = {
    "version": 1,
    "setup_cmd": "./setup.sh",
    "hooks": {
        "guard": "RTFLITE_VERIF",
        "enable": "no hooks: the harness drives the public API only; nothing in /repo reads RTFLITE_VERIF",
        "baseline_off_cmd": "cd /repo && /venv/bin/python -m pytest -ra -q -p no:cacheprovider --timeout=900 --continue-on-collection-errors",
        "source_commits": [],
        "add_only": True,
    },
    "engines": [{
        "name": "coq-model",
        "path": "/verif/coq",
        "serves_properties": sorted(CLAIMED),
        "kind_free_text": "Rocq (Coq 8.16.1) model of rtflite's encoding pipeline with theorems per property; tied to /repo by a table translator (harness/gen_tables.py) and a correspondence check running the extracted model against the implementation",
    }],
    "checks": checks,
    "not_applicable": na,
    "notes": "See DESIGN.md. Known findings: /verif/KNOWN_FINDINGS.json. Fix commits in /repo are listed there as 'fixed:' entries.",
}
with open(os.path.join(VERIF, "MANIFEST.json"), "w") as f:
    json.dump(manifest, f, indent=1)
print("MANIFEST.json:", len(checks), "checks,", len(na), "not claimed")
