"""Export scenarios (C18): sandboxed targets, fake LibreOffice, converter stubs, fault injection at library call boundaries."""
from __future__ import annotations

import contextlib
import hashlib
import io
import os
import shutil
import stat
import sys
import tempfile
from pathlib import Path

import rtflite
from rtflite.convert import LibreOfficeConverter

import rt

SRC = os.path.dirname(os.path.abspath(rtflite.__file__))

FAKE_SOFFICE = r'''#!/usr/bin/python3
import os, sys, hashlib
a = sys.argv[1:]
if "--version" in a:
    print("LibreOffice 24.8.3.2 480(Build:2)"); sys.exit(0)
mode = os.environ.get("FAKE_SOFFICE_MODE", "ok")
res = os.environ.get("FAKE_SOFFICE_RES", "1") == "1"
fmt = a[a.index("--convert-to") + 1]; outdir = a[a.index("--outdir") + 1]; inp = a[-1]
stem = os.path.splitext(os.path.basename(inp))[0]
if mode == "fail_before": sys.exit(1)
if mode == "no_output": sys.exit(0)
data = open(inp, "rb").read()
out = os.path.join(outdir, f"{stem}.{fmt}")
open(out, "w").write(f"CONVERTED {fmt} {hashlib.sha1(data).hexdigest()}\n")
if fmt == "html" and res:
    os.makedirs(out + "_files", exist_ok=True)
    open(os.path.join(out + "_files", "img0.png"), "w").write("IMG " + hashlib.sha1(data).hexdigest())
if mode == "fail_after": sys.exit(1)
'''

BEHAVIOURS = ["ok", "fail_before", "fail_after", "no_output", "ret_list", "ret_none", "ret_str", "ret_missing"]
FMT = {"rtf": 0, "docx": 1, "html": 2, "pdf": 3}
FAULT = {None: 0, "ctor": 1, "encode": 2, "convert": 3}


class InjectedFault(Exception):
    pass


def fake_soffice_dir() -> str:
    d = os.path.join(rt.scratch_dir(), "fakebin")
    if not os.path.isdir(d):
        os.makedirs(d)
        p = os.path.join(d, "soffice")
        with open(p, "w") as f:
            f.write(FAKE_SOFFICE)
        os.chmod(p, os.stat(p).st_mode | stat.S_IXUSR | stat.S_IXGRP | stat.S_IXOTH)
    return d


class Stub:
    """A converter that writes its output and then returns something that is not a Path (or a Path to nothing)."""

    def __init__(self, behaviour, resdir):
        self.behaviour, self.resdir = behaviour, resdir

    def convert(self, input_files, output_dir, format="pdf", overwrite=False):  # noqa: A002
        inp = Path(input_files)
        out = Path(output_dir) / f"{inp.stem}.{format}"
        if self.behaviour == "ret_missing":
            return Path(output_dir) / "missing"
        sha = hashlib.sha1(inp.read_bytes()).hexdigest()
        out.write_text(f"CONVERTED {format} {sha}\n")
        if format == "html" and self.resdir:
            rd = Path(str(out) + "_files")
            rd.mkdir()
            (rd / "img0.png").write_text("IMG " + sha)
        return {"ret_list": [out], "ret_none": None, "ret_str": str(out)}[self.behaviour]


def snapshot(root: str) -> dict:
    """relative path (tuple of components) -> bytes for files, None for directories"""
    out = {}
    for r, ds, fs in os.walk(root):
        for d in ds:
            out[tuple(os.path.relpath(os.path.join(r, d), root).split(os.sep))] = None
        for f in fs:
            p = os.path.join(r, f)
            out[tuple(os.path.relpath(p, root).split(os.sep))] = open(p, "rb").read()
    return out


TARGET_STATES = ["absent", "exists", "missingdirs", "exists_res", "exists_res_nested"]


def prepare(root: str, fmt: str, state: str, name: str = "rep"):
    """Create the sandbox; returns (target path, stem)."""
    shutil.rmtree(root, ignore_errors=True)
    os.makedirs(os.path.join(root, "out"))
    os.makedirs(os.path.join(root, "tmp"))
    with open(os.path.join(root, "out", "other.txt"), "w") as f:
        f.write("KEEP")
    ext = fmt
    sub = ["out"] + (["a", "b"] if state == "missingdirs" else [])
    target = os.path.join(root, *sub, f"{name}.{ext}")
    if state.startswith("exists"):
        with open(target, "w") as f:
            f.write("OLD")
    if state in ("exists_res", "exists_res_nested"):
        rd = os.path.join(root, "out", f"{name}.html_files")
        os.makedirs(rd)
        with open(os.path.join(rd, "old.png"), "w") as f:
            f.write("OLDRES")
        if state == "exists_res_nested":
            os.makedirs(os.path.join(rd, f"{name}.html_files"))
            with open(os.path.join(rd, f"{name}.html_files", "x.png"), "w") as f:
                f.write("NEST")
    return target, name


def phase_of(frame) -> str:
    f = frame
    names = []
    while f is not None:
        names.append((os.path.basename(f.f_code.co_filename), f.f_code.co_name))
        f = f.f_back
    # only public names decide the phase, so that private helpers can be renamed freely
    if any(n == "rtf_encode" for _f, n in names):
        return "encode"
    if any(n == "convert" for _f, n in names):
        return "convert"
    if any(n == "__init__" and fn == "convert.py" for fn, n in names) or any(fn == "convert.py" for fn, _n in names):
        return "ctor"
    return "entry"


def run_export(doc, fmt: str, target: str, root: str, behaviour: str, resdir: bool, via_path: bool, fault_k: int | None,
               profile: list | None = None):
    """Run one export. Returns dict(outcome, exc, phase, calls)."""
    conv = None
    env_backup = dict(os.environ)
    os.environ["FAKE_SOFFICE_MODE"] = behaviour if behaviour in ("ok", "fail_before", "fail_after", "no_output") else "ok"
    os.environ["FAKE_SOFFICE_RES"] = "1" if resdir else "0"
    tempfile.tempdir = os.path.join(root, "tmp")
    info = {"phase": None, "calls": 0, "injected": False}
    try:
        if fmt != "rtf":
            if behaviour in ("ret_list", "ret_none", "ret_str", "ret_missing"):
                conv = Stub(behaviour, resdir)
            elif via_path:
                os.environ["PATH"] = fake_soffice_dir() + os.pathsep + env_backup.get("PATH", "")
            else:
                conv = LibreOfficeConverter(executable_path=os.path.join(fake_soffice_dir(), "soffice"))

        def tracer(frame, event, arg):
            # function calls only: a generator / genexpr frame being resumed (co_flags & CO_GENERATOR) is not a call boundary
            if event == "call" and frame.f_code.co_filename.startswith(SRC) and not frame.f_code.co_flags & 0x20:
                info["calls"] += 1
                if profile is not None:
                    caller = frame.f_back
                    profile.append((os.path.basename(frame.f_code.co_filename), frame.f_code.co_name,
                                    caller.f_lineno if caller else 0, phase_of(frame)))
                if fault_k is not None and info["calls"] == fault_k:
                    info["phase"] = phase_of(frame)
                    info["injected"] = True
                    raise InjectedFault(f"injected at library call {fault_k}")
            return None

        method = getattr(doc, "write_" + fmt)
        sink = io.StringIO()
        sys.settrace(tracer)
        try:
            with contextlib.redirect_stdout(sink):
                if fmt == "rtf":
                    method(target)
                else:
                    method(target, converter=conv)
            info["outcome"] = "ok"
        except BaseException as e:  # noqa: BLE001
            info["outcome"] = "raised"
            info["exc"] = "Injected" if isinstance(e, InjectedFault) else rt.exc_class(e)
            info["exc_text"] = f"{type(e).__name__}: {e}"[:200]
        finally:
            sys.settrace(None)
    finally:
        tempfile.tempdir = None
        os.environ.clear()
        os.environ.update(env_backup)
    return info
