(* C13 — group_by blanks only true repeats and restores context on each page.
   For ALL frames, key lists (distinct, present) and rows:
     C13_blank_iff   a group cell of level j is blanked iff the hierarchical key (levels 0..j, null a
                     value of its own) equals the preceding row's; otherwise it keeps the original value;
                     stated against expected_group_cell, the rule check_c13 applies to the implementation;
     C13_page_start  at a page start the original values are restored for every group column;
     C13_others      columns not named in group_by are untouched;
     C13_reject      non-contiguous keys -> Err ValueErr (nothing rendered); contiguous -> Ok.
   The fill-down clause is the corollary of C13_blank_iff + C13_page_start for columns without nulls
   (a null also displays blank), as DESIGN.md appendix A states. *)
From Coq Require Import Ascii String.
From Coq Require Import List NArith ZArith Bool Arith.
Local Open Scope string_scope.
Local Open Scope list_scope.
From V Require Import Str Doc Paginate GroupBy Checks GroupByProofs GroupBySpec.
Import ListNotations.

Theorem C13_blank_iff : forall cols keys prev cur j k,
  NoDup keys -> nth_error keys j = Some k -> In k cols -> length cols <= length cur ->
  display (col_val cols (suppress_row cols keys prev cur) k)
  = expected_group_cell cols (firstn (S j) keys) k (Some prev) cur.
Proof. exact suppress_meets_spec. Qed.
Print Assumptions C13_blank_iff.

Theorem C13_rows : forall cols keys prev rows i,
  i < length rows ->
  nth i (suppress_from cols keys prev rows) []
  = suppress_row cols keys (match i with O => prev | S i' => nth i' rows [] end) (nth i rows []).
Proof. exact suppress_from_nth. Qed.

Theorem C13_page_start : forall cols o keys acc lvl k,
  In k keys -> In k cols -> length cols <= length acc ->
  display (col_val cols (fold_left (fun a k' => set_col cols a k' (col_val cols o k')) keys acc) k)
  = expected_group_cell cols lvl k None o.
Proof. exact restore_meets_spec. Qed.
Print Assumptions C13_page_start.

Theorem C13_others : forall cols keys prev cur c,
  ~ In c keys -> col_val cols (suppress_row cols keys prev cur) c = col_val cols cur c.
Proof. exact suppress_row_other. Qed.

Theorem C13_reject : forall cols rows keys,
  keys <> [] -> rows <> [] -> sorting_ok cols rows keys = false ->
  enhance_group_by cols rows keys = Err ValueErr.
Proof. exact enhance_rejects. Qed.
Print Assumptions C13_reject.

Theorem C13_accept : forall cols r0 rows keys,
  all_b (fun k => mem_str k cols) keys = true -> sorting_ok cols (r0 :: rows) keys = true ->
  enhance_group_by cols (r0 :: rows) keys = Ok (r0 :: suppress_from cols keys r0 rows) \/ keys = [].
Proof. exact enhance_accepts. Qed.

(* the probe that failed before the repair: [null,null,A,A,B] keeps the first A *)
Example C13_null_example :
  let cols := [s2l "k"] in
  let rows := [[VNull]; [VNull]; [VStr (s2l "A")]; [VStr (s2l "A")]; [VStr (s2l "B")]] in
  enhance_group_by cols rows [s2l "k"]
  = Ok [[VNull]; [VNull]; [VStr (s2l "A")]; [VNull]; [VStr (s2l "B")]].
Proof. vm_compute. reflexivity. Qed.
