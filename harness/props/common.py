"""Generic runner for properties decided on whole-document cases."""
from __future__ import annotations

import collections
import copy
import hashlib
import json
import os

import gen
import rt
import shrink as shrinker

VERIF = rt.VERIF


def spec_hash(spec) -> str:
    return hashlib.sha1(json.dumps(spec, sort_keys=True, default=str).encode()).hexdigest()[:16]


def corpus_specs(pid: str):
    d = os.path.join(VERIF, "corpus", pid)
    out = []
    if os.path.isdir(d):
        for f in sorted(os.listdir(d)):
            if f.endswith(".json"):
                out.append((f"corpus/{f}", json.load(open(os.path.join(d, f)))))
    return out


def evaluate(mode: str, items, extra_fn=None, shards: int = 8, impl_fn=None):
    """items: list of (name, spec). Returns list of dict(name, spec, built, result)."""
    cases = []
    recs = []
    for name, spec in items:
        rec = {"name": name, "spec": spec, "built": True, "result": None}
        try:
            doc = rt.build(spec)
            sx = rt.dump_doc(doc)
            if impl_fn is not None:
                ok, out, impl_sx = impl_fn(spec, doc)
            else:
                ok, out = rt.run_impl(doc)
                impl_sx = rt.sx_impl(ok, out)
            rec["impl_ok"] = ok
            rec["impl_out"] = out if not ok else None
            extra = extra_fn(spec, doc, ok, out) if extra_fn else ""
            rec["case_index"] = len(cases)
            cases.append(rt.case_text(mode, name, sx, impl_sx, extra))
        except Exception as e:  # noqa: BLE001
            rec["built"] = False
            rec["error"] = f"{type(e).__name__}: {e}"[:300]
        recs.append(rec)
    results = rt.run_driver(cases, shards=shards)
    for rec in recs:
        if rec["built"]:
            rec["result"] = results[rec["case_index"]]
    return recs


TIE_EXCUSES = {"value": False, "clauses": None}   # set by properties whose predicate itself rounds (C03, C06, C08; C05 for its clause 8 only)


def classify(rec):
    """-> 'ok' | 'tie' | 'holds' | 'corr' | 'build' | 'harness'"""
    if not rec["built"]:
        return "build"
    r = rec["result"] or {}
    if "bad" in r:
        return "harness"
    if r.get("holds") == "0":
        if TIE_EXCUSES["value"] and r.get("tie") == "1" and (TIE_EXCUSES.get("clauses") is None or r.get("clause") in TIE_EXCUSES["clauses"]):
            # the predicate rounds exactly where binary64 lands a hair beside the tie: outside the compared domain
            return "tie"
        return "holds"
    if r.get("agree") == "0":
        if r.get("tie") == "1":
            return "tie"
        return "corr"
    return "ok"


def run_docprop(ctx, mode, generate, signature=None, nontrivial=None, extra_fn=None, n_quick=150, n_thorough=1500,
                shrink_steps=150, impl_fn=None):
    """generate(g: gen.DocGen, i) -> spec.  Returns dict(failures, coverage)."""
    pid = ctx["pid"]
    tier = ctx["tier"]
    seed = ctx["seed"]
    if ctx.get("replay"):
        payload = json.load(open(ctx["replay"]))
        items = [("replay", payload["spec"] if "spec" in payload else payload)]
    else:
        g = gen.DocGen(seed * 7919 + 17)
        n = n_quick if tier == "quick" else n_thorough
        items = corpus_specs(pid)
        for i in range(n):
            items.append((f"g{seed}_{i}", generate(g, i)))
    failures = []
    known_sigs = {k.get("signature") for k in ctx.get("known", [])}
    seen_known = set()
    stats = collections.Counter()
    dist = collections.Counter()
    distinct = set()
    samples = []
    B = 250
    for lo in range(0, len(items), B):
        batch = items[lo:lo + B]
        recs = evaluate(mode, batch, extra_fn, impl_fn=impl_fn)
        for rec in recs:
            cls = classify(rec)
            stats[cls] += 1
            spec = rec["spec"]
            dist["kind=" + str(spec.get("kind", "?"))] += 1
            if "strategy" in spec:
                dist["strategy=" + spec["strategy"]] += 1
            if "header_mode" in spec:
                dist["header=" + spec["header_mode"]] += 1
            if rec["built"]:
                dist["impl=" + ("ok" if rec.get("impl_ok") else str(rec.get("impl_out")))] += 1
                r = rec["result"] or {}
                for k in ("npages", "clausecount"):
                    if k in r:
                        dist[f"{k}={r[k]}"] += 1
            if cls in ("ok", "tie") and (nontrivial is None or nontrivial(rec)):
                distinct.add(spec_hash(spec))
            if len(samples) < 3 and cls == "ok":
                samples.append({"name": rec["name"], "spec": abbreviate(spec), "result": rec["result"]})
            if cls in ("holds", "corr", "build", "harness"):
                if cls == "holds" and signature:
                    # a case fully explained by open known findings is recorded once per signature set, unshrunk,
                    # and does not use up the budget of analysed failures: a NEW failure later in the stream still surfaces
                    pre = signature(spec, rec["result"] or {})
                    sigs = pre if isinstance(pre, list) else ([pre] if pre else [])
                    if sigs and all(x in known_sigs for x in sigs):
                        key = tuple(sorted(sigs))
                        stats["known"] += 1
                        if key not in seen_known:
                            seen_known.add(key)
                            failures.append({"kind": "holds", "name": "known", "spec": abbreviate(spec), "result": rec["result"],
                                             "what": "explained by open known findings", "signatures": sigs, "signature": None})
                        continue
                if len([f for f in failures if f["kind"] == cls and f.get("name") != "known"]) >= 3:
                    stats["not_analysed_" + cls] += 1
                    continue
                failures.append(make_failure(ctx, mode, rec, cls, signature, extra_fn, shrink_steps, impl_fn))
    coverage = {
        "evaluations": sum(stats.values()),
        "distinct_nontrivial": len(distinct),
        "rule": "documents drawn by harness/gen.py from one PRNG (VERIF_SEED) after the committed corpus; distinct = different spec hash; "
                "non-trivial = constructed, encoded and compared without a flagged binary64 tie",
        "samples": samples,
        "outcomes": dict(stats),
        "input_distribution": dict(dist),
        "traces_validated_against_impl": stats["ok"],
    }
    return {"failures": failures, "coverage": coverage}


def abbreviate(spec, limit=900):
    s = json.dumps(spec, default=str)
    return json.loads(s) if len(s) <= limit else {"abbreviated": s[:limit] + "..."}


def make_failure(ctx, mode, rec, cls, signature, extra_fn, shrink_steps, impl_fn=None):
    spec = rec["spec"]
    clause = (rec.get("result") or {}).get("clause")

    def still(sp):
        r = evaluate(mode, [("s", sp)], extra_fn, shards=1, impl_fn=impl_fn)[0]
        c = classify(r)
        if c != cls:
            return False
        if cls == "holds":
            return (r["result"] or {}).get("clause") == clause
        return True

    small = spec
    if cls in ("holds", "corr") and not ctx.get("replay"):
        try:
            small = shrinker.shrink(copy.deepcopy(spec), still, max_steps=shrink_steps)
        except Exception:  # noqa: BLE001
            small = spec
    final = evaluate(mode, [("final", small)], extra_fn, shards=1, impl_fn=impl_fn)[0]
    f = {
        "kind": cls,
        "name": cls,
        "spec": small,
        "result": final.get("result"),
        "error": final.get("error") or rec.get("error"),
        "impl_outcome": final.get("impl_out") or ("ok" if final.get("impl_ok") else None),
        "what": {
            "holds": "the property predicate is false on the implementation's output for this document",
            "corr": f"correspondence corr_{ctx['pid']}: model and implementation disagree on this document (property predicate still true)",
            "build": "a generated, valid configuration was rejected at construction",
            "harness": "the case could not be decoded by the model driver",
        }[cls],
        "replay_cmd": f"./check {ctx['pid']} --replay <this file>",
    }
    sig = signature(small, final.get("result") or {}) if (signature and cls == "holds") else None
    if isinstance(sig, list):
        f["signatures"] = sig
        f["signature"] = None
    else:
        f["signature"] = sig
    return f
