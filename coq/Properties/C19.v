(* C19 — invalid configuration is rejected up front with ValueError.
   Model: Validate.v — `legal k v` per field kind (border styles, colours, font numbers, format letters,
   justifications, vertical alignments from the REGENERATED tables; orientation / placement / pageby_row /
   figure keywords hand-modelled), `accepts k flat` for a value in any shape, and the structural rules.
     C19_rejects      (unbounded) one illegal entry anywhere in a scalar, vector or matrix value makes
                      construction refuse it; C19_matrix: stated by (row, column) position;
     C19_iff          a value is accepted iff every entry is legal;
     C19_positive     zero and negative numbers are never legal for the positive fields;
     C19_structure    margin length 6, new_page needs page_by, exactly one of df / figure;
     C19_fonts        finite: fonts 1..10 legal; 0, 11 and 1.5 not.
   That the CODE's validators compute `accepts` — for every field of every component, in every raw form
   — and that the exception class is ValueError (FileNotFoundError for a missing figure) is the
   correspondence check (harness/props/c19.py): invalid values at random positions mixed with valid
   ones; a valid value rejected or an invalid one accepted / rejected with another class is reported. *)
From Coq Require Import Ascii String.
From Coq Require Import List NArith ZArith QArith Bool Arith.
From V Require Import Str Num Tables Doc Validate ValidateProofs.
Import ListNotations.
Local Open Scope string_scope.
Local Open Scope list_scope.
Local Open Scope nat_scope.

Theorem C19_rejects : forall k (flat : list rawv) v,
  In v flat -> legal k v = false -> accepts k flat = false.
Proof. exact rejects_anywhere. Qed.
Print Assumptions C19_rejects.

Theorem C19_matrix : forall k (m : list (list rawv)) r row c v,
  nth_error m r = Some row -> nth_error row c = Some v -> legal k v = false -> accepts k (concat m) = false.
Proof. exact rejects_in_matrix. Qed.

Theorem C19_iff : forall k flat, accepts k flat = true <-> forall v, In v flat -> legal k v = true.
Proof. exact accepts_iff. Qed.

Theorem C19_positive : forall q, (q <= 0)%Q -> legal KPositive (RNum q) = false.
Proof. exact nonpositive_illegal. Qed.
Print Assumptions C19_positive.

Theorem C19_structure :
  (forall l, margin_ok l = true <-> length l = 6)
  /\ new_page_ok None true = false
  /\ (forall a b, content_ok a b = true <-> a <> b).
Proof. exact (conj margin_rule (conj new_page_rule content_rule)). Qed.

Theorem C19_fonts :
  all_b (fun n => legal KFont (RNum (n # 1))) [1; 2; 3; 4; 5; 6; 7; 8; 9; 10]%Z = true
  /\ legal KFont (RNum (0 # 1)) = false /\ legal KFont (RNum (11 # 1)) = false /\ legal KFont (RNum (3 # 2)) = false.
Proof. exact font_numbers_legal. Qed.

Example C19_example :
  accepts KBorder [RStr (s2l "single"); RStr (s2l "zzz"); RStr (s2l "")] = false
  /\ accepts KBorder [RStr (s2l "single"); RStr (s2l "double"); RStr (s2l "")] = true.
Proof. vm_compute. split; reflexivity. Qed.
