#!/venv/bin/python
"""Apply every seeded change in /verif/seeded to /repo in turn, run the property's quick check, undo, and record the result.

Usage: harness/seed_matrix.py [seed-id ...]      (never leaves /repo modified; refuses to start on a dirty /repo)"""
import json
import os
import re
import subprocess
import sys

VERIF = os.path.dirname(os.path.dirname(os.path.abspath(__file__)))
SEEDED = os.path.join(VERIF, "seeded")


def sh(cmd, **kw):
    return subprocess.run(cmd, stdout=subprocess.PIPE, stderr=subprocess.STDOUT, text=True, **kw)


def main():
    if sh(["git", "-C", "/repo", "status", "--porcelain", "--untracked-files=no"]).stdout.strip():
        print("refusing: /repo has uncommitted changes")
        return 2
    ids = sys.argv[1:] or sorted(d for d in os.listdir(SEEDED) if not d.startswith("harmless_"))
    rows = []
    for sid in ids:
        d = os.path.join(SEEDED, sid)
        meta_p = os.path.join(d, "meta.json")
        if not os.path.exists(os.path.join(d, "patch.diff")):
            continue
        meta = json.load(open(meta_p)) if os.path.exists(meta_p) else {"seed": sid, "property": sid.split("_")[0]}
        prop = meta["property"]
        ap = sh(["git", "-C", "/repo", "apply", os.path.join(d, "patch.diff")])
        if ap.returncode != 0:
            rows.append((sid, prop, "patch does not apply", ""))
            continue
        try:
            r = sh([os.path.join(VERIF, "check"), prop, "quick"], cwd=VERIF)
        finally:
            sh(["git", "-C", "/repo", "checkout", "--", "."])
        lines = [l for l in r.stdout.split("\n") if l.startswith("VIOLATION")]
        concrete = [l for l in lines if not l.endswith("no-failing-input-found")]
        how = "concrete failing input" if concrete else ("no-failing-input-found" if lines else "")
        names = sorted({re.sub(r"_\d+\.json.*$", "", os.path.basename(l.split("replay=")[1])) for l in lines})
        meta["check_result"] = {"exit": r.returncode, "detected": r.returncode == 1 and bool(lines), "how": how, "replays": names}
        json.dump(meta, open(meta_p, "w"), indent=1)
        rows.append((sid, prop, "DETECTED" if meta["check_result"]["detected"] else "MISSED", how + " " + ",".join(names)))
        print(rows[-1], flush=True)
    print()
    for row in rows:
        print("| %s | %s | %s | %s |" % row)
    return 0


if __name__ == "__main__":
    sys.exit(main())
