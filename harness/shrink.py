"""Structural shrinking of document specs: drop rows, columns, components, attributes."""
from __future__ import annotations

import copy


def _frames(spec):
    if "sections" in spec:
        return [s for s in spec["sections"]]
    if "df" in spec:
        return [spec]
    return []


def candidates(spec: dict):
    """Yield smaller variants of spec (each a deep copy)."""
    # drop optional components
    for k in ("title", "subline", "footnote", "source", "page_header", "page_footer", "headers"):
        if k in spec:
            s = copy.deepcopy(spec)
            del s[k]
            yield s
    # drop sections
    if "sections" in spec and len(spec["sections"]) > 2:
        for i in range(len(spec["sections"])):
            s = copy.deepcopy(spec)
            del s["sections"][i]
            if "headers" in s and s["headers"] and isinstance(s["headers"][0], list) and len(s["headers"]) > i:
                del s["headers"][i]
            yield s
    # figures
    if "figure" in spec and len(spec["figure"]["files"]) > 1:
        for i in range(len(spec["figure"]["files"])):
            s = copy.deepcopy(spec)
            del s["figure"]["files"][i]
            yield s
    # page settings
    for k in list(spec.get("page", {}).keys()):
        if k == "nrow":
            continue
        s = copy.deepcopy(spec)
        del s["page"][k]
        yield s
    # component attributes
    for comp in ("title", "subline", "footnote", "source", "page_header", "page_footer"):
        c = spec.get(comp)
        if isinstance(c, dict):
            for k in list(c.keys()):
                if k == "text":
                    if isinstance(c[k], list) and len(c[k]) > 1:
                        s = copy.deepcopy(spec)
                        s[comp]["text"] = c[k][:1]
                        yield s
                    continue
                s = copy.deepcopy(spec)
                del s[comp][k]
                yield s
    fi = 0
    for fi, holder in enumerate(_frames(spec)):
        body = holder.get("body", {})
        df = holder["df"]
        n = len(df["rows"])
        # rows: halves, then singles
        for lo, hi in ([(0, n // 2), (n // 2, n)] if n > 3 else []) + [(i, i + 1) for i in range(n)]:
            s = copy.deepcopy(spec)
            h = _frames(s)[fi]
            del h["df"]["rows"][lo:hi]
            _renumber(h["df"])
            _trim_matrix_attrs(h.get("body", {}), lo, hi, n)
            yield s
        # columns not used for grouping
        used = set()
        for k in ("page_by", "subline_by", "group_by"):
            v = body.get(k)
            if v:
                used.update([v] if isinstance(v, str) else v)
        for j, c in enumerate(df["cols"]):
            if c in used or c == "id" or len(df["cols"]) <= 1:
                continue
            s = copy.deepcopy(spec)
            h = _frames(s)[fi]
            del h["df"]["cols"][j]
            for row in h["df"]["rows"]:
                del row[j]
            if not _drop_col_attrs(h.get("body", {}), j, len(df["cols"])):
                continue
            if "headers" in s and "sections" not in s:
                del s["headers"]
            yield s
        # body attributes
        for k in list(body.keys()):
            s = copy.deepcopy(spec)
            h = _frames(s)[fi]
            del h["body"][k]
            if k == "page_by":
                h["body"].pop("new_page", None)
                h["body"].pop("pageby_row", None)
            yield s
        # shorten cell strings
        for i, row in enumerate(df["rows"]):
            for j, v in enumerate(row):
                if isinstance(v, str) and len(v) > 6 and not v.startswith("@"):
                    s = copy.deepcopy(spec)
                    keep = v[: v.index("#", 1) + 1] if v.startswith("#") and "#" in v[1:] else v[:3]
                    if keep != v:
                        _frames(s)[fi]["df"]["rows"][i][j] = keep
                        yield s


def _renumber(df: dict) -> None:
    """Keep the sentinel convention: the id cell of data row i starts with #i#."""
    if "id" not in df["cols"]:
        return
    j = df["cols"].index("id")
    for i, row in enumerate(df["rows"]):
        v = row[j]
        if isinstance(v, str) and v.startswith("#") and "#" in v[1:]:
            row[j] = f"#{i}#" + v[v.index("#", 1) + 1:]


def _trim_matrix_attrs(body: dict, lo: int, hi: int, n: int) -> None:
    for k, v in body.items():
        if isinstance(v, list) and v and isinstance(v[0], list) and len(v) == n:
            del v[lo:hi]
            if not v:
                body[k] = [[]]


def _drop_col_attrs(body: dict, j: int, ncol: int) -> bool:
    for k, v in list(body.items()):
        if k == "col_rel_width" and isinstance(v, list) and len(v) == ncol:
            del v[j]
        elif isinstance(v, list) and v and isinstance(v[0], list):
            for row in v:
                if len(row) == ncol:
                    del row[j]
    return True


def shrink(spec: dict, still_fails, max_steps: int = 400) -> dict:
    """Greedy: accept any smaller variant on which still_fails(variant) is true."""
    steps = 0
    improved = True
    while improved and steps < max_steps:
        improved = False
        for cand in candidates(spec):
            steps += 1
            if steps > max_steps:
                break
            try:
                ok = still_fails(cand)
            except Exception:  # noqa: BLE001
                ok = False
            if ok:
                spec = cand
                improved = True
                break
    return spec
