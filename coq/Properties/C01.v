(* C01 — every accepted document encodes to well-formed RTF.
   Statements only; proofs live in Proofs/.  Full statement (for the whole pipeline):
     forall d ts, encode d = Ok ts -> user_text_ok d -> wf_rtf ts = true
   What is proved here is its structural core, for ALL items / rows / token lists:
     - C01_items_balanced, C01_one_group: any list of well-formed items emits a brace-neutral token
       list, and a neutral body between the document braces is exactly one top-level group;
     - C01_row_cells: every emitted row declares exactly as many \cellx as it has \cell;
     - C01_tables_*: the regenerated code tables only contain simple, lower-case control words and
       the pass-1 replacement strings are balanced, valid fragments (finite, by computation).
   Missing for the full statement (hence the _partial suffix on the pipeline-level corollary):
   the proof that every item the model's render produces satisfies item_ok / cell_clean; this is
   checked per case by the driver (wf_rtf on model and implementation tokens), not proved. *)
From Coq Require Import Ascii String.
From Coq Require Import List NArith ZArith Bool.
Local Open Scope string_scope.
Local Open Scope list_scope.
From V Require Import Str Tok Items WellFormed Tables EmitWF TablesWF.
Import ListNotations.

Theorem C01_items_balanced : forall its, Forall item_ok its -> neutral (emit_items its).
Proof. exact emit_items_neutral. Qed.
Print Assumptions C01_items_balanced.

Theorem C01_one_group : forall ts, neutral ts -> one_group (TOpen :: ts ++ [TClose]) = true.
Proof. exact one_group_wrap. Qed.
Print Assumptions C01_one_group.

Theorem C01_row_cells : forall r,
  Forall cell_clean (rw_cells r) -> free_of cellx_n (rw_just r) -> free_of cell_n (rw_just r) ->
  count_ctrl cellx_n (emit_row r) = length (rw_cells r) /\ count_ctrl cell_n (emit_row r) = length (rw_cells r).
Proof. exact emit_row_cell_counts. Qed.
Print Assumptions C01_row_cells.

Theorem C01_tables_border : table_simple border_codes = true.
Proof. exact border_codes_simple. Qed.
Theorem C01_tables_format : table_simple format_codes = true.
Proof. exact format_codes_simple. Qed.
Theorem C01_tables_just : table_simple text_just_codes = true /\ table_simple row_just_codes = true
                          /\ table_simple vert_codes = true.
Proof. exact (conj text_just_codes_simple (conj row_just_codes_simple vert_codes_simple)). Qed.
Theorem C01_tables_mapping : all_b (fun kv => fragment_ok (snd kv)) rtf_char_mapping = true.
Proof. exact rtf_char_mapping_fragments. Qed.
Theorem C01_tables_fonts :
  map fst font_table = [1; 2; 3; 4; 5; 6; 7; 8; 9; 10]%Z
  /\ all_b (fun e => simple_code (fst (snd e)) && simple_code (fst (snd (snd e)))) font_table = true.
Proof. exact (conj font_table_numbers font_table_codes_simple). Qed.
Print Assumptions C01_tables_fonts.

(* non-vacuity: a concrete non-trivial row meets the hypotheses *)
Example C01_row_example :
  let c := {| ce_bl := Some {| bd_style := [ctrl "brdrs"]; bd_w := 15; bd_cf := None |};
              ce_bt := None; ce_br := None; ce_bb := None; ce_vj := [ctrl "clvertalt"]; ce_x := 1440;
              ce_pf := [ctrl "hyphpar"; ctrlz "sb" 15]; 
              ce_run := {| rn_fs := 18; rn_f := 0; rn_cf := None; rn_cb := None;
                           rn_body := [ctrl "b"; TText (s2l "x"); TOpen; TText (s2l "y"); TClose] |} |} in
  item_ok (IRow {| rw_gaph := 108; rw_just := [ctrl "trqc"]; rw_cells := [c; c] |})
  /\ wf_rtf ([TOpen; ctrlz "rtf" 1] ++ emit_row {| rw_gaph := 108; rw_just := [ctrl "trqc"]; rw_cells := [c; c] |} ++ [TClose]) = true.
Proof.
  cbv zeta. split.
  - cbn. unfold row_ok, cell_ok, bord_ok, run_ok, brace_free, neutral; cbn.
    repeat split; repeat constructor; try discriminate.
  - vm_compute. reflexivity.
Qed.
