# table of claimed properties (executed by make_manifest.py)
claim("C01",
      "Theorems (Coq): emission of structured RTF items is brace-balanced and row-consistent for all items; "
      "the executable model of rtf_encode is tied to the code by strict token-level correspondence "
      "(lex(rtf_encode()) = model tokens) on generated documents of all three kinds, and the well-formedness "
      "predicate wf_rtf is evaluated on the implementation's real output.",
      "Trusted: Coq kernel, table translator, extraction (ExtrOcamlBasic), OCaml glue, Python harness; "
      "modelled not verified: pydantic/polars/CPython primitives, Pillow widths (oracle), binary64 noise at flagged ties.",
      "Rocq proof over a Gallina model + checked model/code correspondence (differential, extracted OCaml)",
      "DESIGN.md section 6 C01")
claim("C04",
      "Theorems (Coq, unbounded): the greedy assignment assign_pages (port of _assign_pages) satisfies the boolean "
      "check_assign for every metadata list, budget and new_page flag (break only if forced or overflowing; forced "
      "rows always break), pages are numbered in steps of 0/1 from 1, the accounting never overflows except on "
      "single-row pages, and appending rows leaves earlier pages unchanged. The same check_assign is evaluated on the "
      "page membership of tagged rows read back from rtf_encode(); the model's page list must equal the implementation's.",
      "Row heights are taken from the width oracle (Pillow, trusted); K2 (row metadata) is modelled and tied by "
      "correspondence, not proved; generators keep every cell inside a k-line band (ties flagged and excluded).",
      "Rocq proof (induction over the greedy loop) + checked model/code correspondence + exhaustive small core in thorough tier",
      "DESIGN.md section 6 C04, section 5 K1")
