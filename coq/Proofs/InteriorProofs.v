(* C07, last sentence: every data-cell edge that is not a page-boundary edge carries the user's border value of the
   cell's original row; process_page touches nothing else. *)
From Coq Require Import Ascii String.
From Coq Require Import List NArith ZArith QArith Bool Arith Lia.
From V Require Import Str Num Tok Items Doc Broadcast Encode Paginate Pipeline BroadcastProofs BorderProofs BindingProofs.
Import ListNotations.
Local Open Scope list_scope.
Local Open Scope nat_scope.

Lemma fill_row_wellshaped (v : mat str) h w r f : wellshaped v -> 0 < h -> 0 < w -> wellshaped (fill_row v h w r f).
Proof.
  intros Hv Hh Hw. unfold fill_row. generalize (seq 0 w). intro cs. revert v Hv.
  induction cs as [|c cs IH]; intros v Hv; cbn [fold_left]; [exact Hv|].
  apply IH. destruct Hv as (C & Hne & HC & Hrect).
  eapply dims_wellshaped; [eapply update_cell_dims; eassumption|exact Hh|exact Hw].
Qed.

(* re-basing a row-wise matrix to the rows of a page: row r of the page is original row start + r *)
Lemma rebase_iloc {A} (start h : nat) (v : mat A) C r c :
  v <> [] -> 0 < C -> rect v C -> r < h ->
  match rebase start h (Some v) with Some m => iloc m r c | None => None end = iloc v (start + r) c.
Proof.
  intros Hv HC Hr Hrh.
  destruct (le_lt_dec (length v) 1) as [Hs|Hl].
  - rewrite rebase_small by exact Hs.
    apply (iloc_row_eq v v C); try assumption.
    assert (L : length v = 1) by (destruct v; [congruence|cbn in *; lia]).
    rewrite L, !Nat.mod_1_r. reflexivity.
  - destruct (rebase start h (Some v)) as [m|] eqn:E.
    + assert (Lm : length m = h) by (eapply rebase_length; [|exact E]; lia).
      apply (iloc_row_eq m v C); try assumption.
      * destruct m; [cbn in Lm; lia|congruence].
      * eapply rebase_rect; eassumption.
      * rewrite Lm, Nat.mod_small by exact Hrh.
        pose proof (rebase_row start h v r ltac:(lia) Hrh) as R. rewrite E in R. exact R.
    + unfold rebase in E. destruct v as [|a [|b v']]; discriminate.
Qed.

Section Interior.
  Variables (s : secdoc) (pattrs : attrs) (p : pagectx) (w : nat).
  Local Notation pb := (process_page s pattrs p w).
  Local Notation h := (pc_len p).
  Local Notation a0 := (rebase_attrs (pc_slice_start p) (pc_len p) pattrs).

  (* every top edge below the page's first data row is left as it was *)
  Theorem interior_top r c :
    0 < r -> r < h -> c < w -> wellshaped (or_blank (a_bt a0) h w) ->
    match a_bt (pb_attrs pb) with Some m => iloc m r c | None => None end = iloc (or_blank (a_bt a0) h w) r c.
  Proof.
    intros Hr Hh Hc Hws. unfold process_page. destruct (pc_len p) as [|h'] eqn:Eh; [lia|].
    cbn [pb_attrs with_bb with_bt a_bt].
    assert (H1 : forall v g, wellshaped v -> iloc (fill_row v (S h') w 0 g) r c = iloc v r c).
    { intros v g Hv. rewrite fill_row_spec by (try exact Hv; lia).
      destruct (Nat.eqb r 0) eqn:E; [apply Nat.eqb_eq in E; lia|reflexivity]. }
    repeat match goal with
           | |- context [if ?b then fill_row ?v _ _ _ _ else _] => destruct b
           end;
    rewrite ?H1; try reflexivity; try exact Hws; try (apply fill_row_wellshaped; [exact Hws|lia|lia]).
  Qed.

  (* every bottom edge above the page's last data row is left as it was *)
  Theorem interior_bottom r c :
    r < h - 1 -> c < w -> wellshaped (or_blank (a_bb a0) h w) ->
    match a_bb (pb_attrs pb) with Some m => iloc m r c | None => None end = iloc (or_blank (a_bb a0) h w) r c.
  Proof.
    intros Hr Hc Hws. unfold process_page. destruct (pc_len p) as [|h'] eqn:Eh; [lia|].
    cbn [pb_attrs with_bb with_bt a_bb].
    assert (H1 : forall v g, wellshaped v -> iloc (fill_row v (S h') w (S h' - 1) g) r c = iloc v r c).
    { intros v g Hv. rewrite fill_row_spec by (try exact Hv; lia).
      destruct (Nat.eqb r (S h' - 1)) eqn:E; [apply Nat.eqb_eq in E; lia|reflexivity]. }
    match goal with |- context [match ?st with Some _ => _ | None => _ end] => destruct st end; [|reflexivity].
    match goal with |- context [if ?b then _ else fill_row _ _ _ _ _] => destruct b end; [reflexivity|].
    apply H1. exact Hws.
  Qed.

  (* left and right edges, border colours and widths: the page's re-based attributes, untouched *)
  Theorem sides_untouched :
    0 < h ->
    a_bl (pb_attrs pb) = a_bl a0 /\ a_br (pb_attrs pb) = a_br a0
    /\ a_bcl (pb_attrs pb) = a_bcl a0 /\ a_bcr (pb_attrs pb) = a_bcr a0
    /\ a_bct (pb_attrs pb) = a_bct a0 /\ a_bcb (pb_attrs pb) = a_bcb a0 /\ a_bw (pb_attrs pb) = a_bw a0.
  Proof.
    intro Hh. unfold process_page. destruct (pc_len p) as [|h'] eqn:Eh; [lia|].
    cbn [pb_attrs with_bb with_bt a_bl a_br a_bcl a_bcr a_bct a_bcb a_bw]. repeat split; reflexivity.
  Qed.

  (* in terms of the user's matrices (already cut to the w displayed columns): the interior top / bottom edge of page
     row r is the value at original row pc_slice_start + r *)
  Lemma or_blank_rebased (sel : attrs -> omat str) (v : mat str) r c :
    (forall k a, sel (rebase_attrs (S k) h a) = rebase (S k) h (sel a)) ->
    sel pattrs = Some v -> v <> [] -> 0 < w -> rect v w -> r < h ->
    wellshaped (or_blank (sel a0) h w)
    /\ iloc (or_blank (sel a0) h w) r c = iloc v (pc_slice_start p + r) c.
  Proof.
    intros Hsel Hv Hne Hw Hrect Hr.
    destruct (pc_slice_start p) as [|k] eqn:Es.
    - rewrite rebase_attrs_zero, Hv. destruct v as [|x v']; [congruence|]. cbn [or_blank Nat.add].
      split; [exists w; repeat split; assumption|reflexivity].
    - rewrite Hsel, Hv.
      pose proof (rebase_iloc (S k) h v w r c Hne Hw Hrect Hr) as R.
      destruct (rebase (S k) h (Some v)) as [m|] eqn:E.
      + assert (Hm : m <> []).
        { destruct (le_lt_dec (length v) 1) as [Hs|Hl].
          - rewrite rebase_small in E by exact Hs. inversion E; subst; exact Hne.
          - assert (Lm : length m = h) by (eapply rebase_length; [|exact E]; lia).
            intro; subst m. cbn in Lm. lia. }
        destruct m as [|x m']; [congruence|]. cbn [or_blank]. split; [|exact R].
        exists w. repeat split; [congruence|exact Hw|eapply rebase_rect; eassumption].
      + unfold rebase in E. destruct v as [|a [|b v']]; discriminate.
  Qed.

  Theorem interior_top_user v r c :
    a_bt pattrs = Some v -> v <> [] -> rect v w -> 0 < r -> r < h -> c < w ->
    match a_bt (pb_attrs pb) with Some m => iloc m r c | None => None end = iloc v (pc_slice_start p + r) c.
  Proof.
    intros Hv Hne Hrect Hr Hh Hc.
    destruct (or_blank_rebased a_bt v r c) as [Hws Hi]; try assumption; try lia.
    { intros k a. reflexivity. }
    rewrite interior_top by assumption. exact Hi.
  Qed.

  Theorem interior_bottom_user v r c :
    a_bb pattrs = Some v -> v <> [] -> rect v w -> r < h - 1 -> c < w ->
    match a_bb (pb_attrs pb) with Some m => iloc m r c | None => None end = iloc v (pc_slice_start p + r) c.
  Proof.
    intros Hv Hne Hrect Hr Hc.
    destruct (or_blank_rebased a_bb v r c) as [Hws Hi]; try assumption; try lia.
    { intros k a. reflexivity. }
    rewrite interior_bottom by assumption. exact Hi.
  Qed.
End Interior.
