(* C11: the conversion passes against the reference tokenizer. *)
From Coq Require Import Ascii String.
From Coq Require Import List NArith ZArith Bool Arith Lia.
From V Require Import Str Tok Tables Items Read Decode TextConv TextSpec.
Import ListNotations.
Local Open Scope string_scope.
Local Open Scope list_scope.

(* ---- finite facts on the regenerated tables (re-checked whenever the code's tables change) ---- *)

(* every supported command, alone, is read back as its mapped character(s) *)
Definition key_converts (kv : str * str) : bool :=
  ev_list_eqb (events_of_tokens (text_tokens true (fst kv))) (map EChar (snd kv)).
Lemma all_keys_convert : all_b key_converts latex_table = true.
Proof. vm_compute. reflexivity. Qed.

(* the reference converter agrees with the two-pass implementation model on every command in every
   context template (start / middle / end, adjacent commands, followed by digit, letter, brace group,
   punctuation, super/subscript) *)
Definition templates (k other : str) : list str :=
  [k; s2l "x " ++ k; k ++ s2l " y"; k ++ s2l "1"; s2l "(" ++ k ++ s2l ")"; k ++ other; k ++ s2l " " ++ other;
   k ++ s2l "."; s2l "a" ++ k ++ s2l " b"; k ++ s2l "x"; k ++ s2l "{z}"; k ++ s2l "^2"; k ++ s2l "_i";
   s2l "n" ++ k ++ s2l "10"; s2l "a>=b" ++ k; k ++ s2l "<=1"].

Definition model_meets_spec (s : str) : bool :=
  ev_list_eqb (events_of_tokens (text_tokens true s)) (spec_events false s).

Definition key_templates_ok (kv : str * str) : bool :=
  all_b model_meets_spec (templates (fst kv) (s2l "\beta")).
Lemma all_templates_ok : all_b key_templates_ok latex_table = true.
Proof. vm_compute. reflexivity. Qed.

(* the control words pass 1 produces are not captured by pass 2, except \geq and \leq, which are meant to be *)
Definition pass1_words : list str :=
  map s2l ["\super"; "\sub"; "\line"; "\chpgn"; "\totalpage"; "\field"; "\fldinst"].
Lemma pass1_not_captured : all_b (fun w => match assoc w latex_table with None => true | Some _ => false end) pass1_words = true.
Proof. vm_compute. reflexivity. Qed.
Lemma geq_leq_mapped :
  assoc (s2l "\geq") latex_table = Some [8805%N] /\ assoc (s2l "\leq") latex_table = Some [8804%N].
Proof. vm_compute. split; reflexivity. Qed.

(* the special sequences *)
Definition special_cases : list str :=
  map s2l ["x^2"; "a_i"; "a>=b"; "a <= b"; "Page \pagenumber of \totalpage"; "\pagefield"; "x^2_i>=3";
           "\foo"; "\foo12 bar"; "\unknowncmd{arg}"; "\mathbb{R} and \mathbb{Q}x"; "a{b}c"; "50% (n=3)"].
Lemma special_cases_ok : all_b model_meets_spec special_cases = true.
Proof. vm_compute. reflexivity. Qed.

(* ---- unbounded: characters outside the trigger set are never touched ---- *)
Definition plain_char (c : N) : bool :=
  negb (existsb (N.eqb c) [94; 95; 62; 60; 10; 92]%N).

Lemma starts_with_head_false p s c :
  match p with x :: _ => N.eqb x c = false | [] => False end -> starts_with p (c :: s) = false.
Proof. destruct p as [|x p]; [contradiction|]. cbn. intros ->. reflexivity. Qed.

Lemma replace_fuel_absent fuel x pat rep s :
  Forall (fun c => N.eqb x c = false) s ->
  replace_fuel fuel (x :: pat) rep s = s.
Proof.
  revert s; induction fuel as [|f IH]; intros s H; [reflexivity|].
  destruct s as [|c s]; [reflexivity|]. cbn [replace_fuel].
  inversion H as [|? ? Hc Hs]; subst.
  rewrite (starts_with_head_false (x :: pat) s c) by exact Hc.
  f_equal. apply IH. exact Hs.
Qed.

Lemma replace_all_absent pat rep s :
  match pat with x :: _ => Forall (fun c => N.eqb x c = false) s | [] => True end ->
  replace_all pat rep s = s.
Proof.
  intro H. unfold replace_all. destruct pat; [reflexivity|]. apply replace_fuel_absent. exact H.
Qed.

Definition mapping_heads_ok : bool :=
  all_b (fun kv => match fst kv with x :: _ => negb (plain_char x) | [] => false end) rtf_char_mapping.
Lemma mapping_heads : mapping_heads_ok = true.
Proof. vm_compute. reflexivity. Qed.

Lemma plain_not_head x c : plain_char x = false -> plain_char c = true -> N.eqb x c = false.
Proof.
  intros Hx Hc. destruct (N.eqb x c) eqn:E; [|reflexivity].
  apply N.eqb_eq in E; subst. rewrite Hc in Hx. discriminate.
Qed.

Lemma apply_mapping_plain m s :
  all_b (fun kv => match fst kv with x :: _ => negb (plain_char x) | [] => false end) m = true ->
  Forall (fun c => plain_char c = true) s -> apply_mapping m s = s.
Proof.
  revert s; induction m as [|[k v] m IH]; intros s Hm Hs; [reflexivity|].
  cbn [apply_mapping all_b fst] in *. apply andb_prop in Hm as [Hk Hm].
  rewrite replace_all_absent.
  - apply IH; assumption.
  - destruct k as [|x k]; [discriminate|].
    eapply Forall_impl; [|exact Hs]. intros c Hc. apply plain_not_head; [|exact Hc].
    destruct (plain_char x); [discriminate|reflexivity].
Qed.

Lemma latex_fuel_plain fuel s :
  Forall (fun c => N.eqb c 92 = false) s -> latex_fuel fuel s = s.
Proof.
  revert s; induction fuel as [|f IH]; intros s H; [reflexivity|].
  destruct s as [|c s]; [reflexivity|]. cbn [latex_fuel].
  inversion H as [|? ? Hc Hs]; subst. rewrite Hc. f_equal. apply IH. exact Hs.
Qed.

(* text without trigger characters is only escaped: nothing else changes, in any position *)
Theorem plain_text_untouched s :
  Forall (fun c => plain_char c = true) s -> convert_special_chars true s = escape s.
Proof.
  intro H. unfold convert_special_chars.
  rewrite (apply_mapping_plain rtf_char_mapping s mapping_heads H).
  unfold latex_to_unicode. rewrite latex_fuel_plain; [reflexivity|].
  eapply Forall_impl; [|exact H]. intros c Hc.
  unfold plain_char in Hc. cbn [existsb] in Hc.
  destruct (N.eqb c 92) eqn:E; [|reflexivity].
  rewrite !orb_true_r in Hc. discriminate.
Qed.

Theorem conversion_off_verbatim s : convert_special_chars false s = escape s.
Proof. reflexivity. Qed.
