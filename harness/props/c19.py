"""C19: invalid configuration is rejected up front with ValueError."""
import collections
import os
import random
from fractions import Fraction

import polars as pl
import rt
import rtflite as rtf
from rtflite.core.constants import RTFConstants
from rtflite.dictionary.color_table import color_table

from . import common

TRUSTED = ["Model/Validate.v: legal sets from the regenerated tables (border, format, justification, vertical-alignment codes, colour names, font numbers) and hand-modelled keyword sets; acceptance = every entry legal"]
ASSUMPTIONS = ["values are well-typed for the field (strings for names, numbers for numbers, integral numbers for integer fields); type coercion failures are pydantic's and not modelled"]

COLORS = [c[0] for c in color_table]

VALID = {
    "border": list(RTFConstants.BORDER_CODES.keys()),
    "color": COLORS[:40] + ["", "black"],
    "font": list(range(1, 11)),
    "format": ["", "b", "i", "bi", "u", "s", "^", "_", "bius", "ib"],
    "just": list(RTFConstants.TEXT_JUSTIFICATION_CODES.keys()),
    "rowjust": list(RTFConstants.ROW_JUSTIFICATION_CODES.keys()),
    "vert": list(RTFConstants.VERTICAL_ALIGNMENT_CODES.keys()),
    "orient": ["portrait", "landscape"],
    "place": ["first", "last", "all"],
    "positive": [1, 2, 0.5, 7.25, 15, 100],
    "positive_int": [1, 2, 3, 15, 40],
    "pageby_row": ["column", "first_row"],
    "fig_align": ["left", "center", "right"],
    "fig_pos": ["before", "after"],
}
INVALID = {
    "border": ["zzz", "Single", "dbl", "solid", " single", "none"],
    "color": ["notacolor", "Red", "bleu", "#ff0000", "grey101"],
    "font": [0, 11, -1, 100],
    "format": ["x", "bq", "B", "i u", "z"],
    "just": ["x", "left", "L", "cc", "m"],
    "rowjust": ["j", "d", "x", "left", "C"],
    "vert": ["middle", "Top", "centre", "x"],
    "orient": ["Portrait", "horizontal", "", "land"],
    "place": ["First", "each", "", "none", "every"],
    "positive": [0, -1, -0.5, -100],
    "positive_int": [0, -1, -7],
    "pageby_row": ["row", "Column", "", "first"],
    "fig_align": ["centre", "Left", "middle", ""],
    "fig_pos": ["above", "Before", "", "below"],
}
MODEL_KIND = {"positive_int": "positive"}

TEXT_FIELDS = [("text_font", "font"), ("text_format", "format"), ("text_font_size", "positive"), ("text_color", "color"),
               ("text_background_color", "color"), ("text_justification", "just")]
TABLE_FIELDS = TEXT_FIELDS + [(f"border_{s}", "border") for s in ("left", "right", "top", "bottom", "first", "last")] + \
    [(f"border_color_{s}", "color") for s in ("left", "right", "top", "bottom", "first", "last")] + \
    [("border_width", "positive_int"), ("cell_height", "positive"), ("cell_justification", "rowjust"),
     ("cell_vertical_justification", "vert"), ("cell_nrow", "positive_int"), ("col_rel_width", "positive")]
PAGE_FIELDS = [("orientation", "orient"), ("width", "positive"), ("height", "positive"), ("nrow", "positive_int"),
               ("col_width", "positive"), ("border_first", "border"), ("border_last", "border"),
               ("page_title", "place"), ("page_footnote", "place"), ("page_source", "place")]

COMPONENTS = {
    "RTFTitle": (rtf.RTFTitle, TEXT_FIELDS, {"text": "T"}),
    "RTFSubline": (rtf.RTFSubline, TEXT_FIELDS, {"text": "S"}),
    "RTFPageHeader": (rtf.RTFPageHeader, TEXT_FIELDS, {}),
    "RTFPageFooter": (rtf.RTFPageFooter, TEXT_FIELDS, {"text": "Q"}),
    "RTFBody": (rtf.RTFBody, TABLE_FIELDS + [("pageby_row", "pageby_row")], {}),
    "RTFColumnHeader": (rtf.RTFColumnHeader, TABLE_FIELDS, {"text": ["A", "B"]}),
    "RTFFootnote": (rtf.RTFFootnote, TABLE_FIELDS, {"text": "F"}),
    "RTFSource": (rtf.RTFSource, TABLE_FIELDS, {"text": "R"}),
    "RTFPage": (rtf.RTFPage, PAGE_FIELDS, {}),
}
SCALAR_ONLY = {"orientation", "width", "height", "nrow", "col_width", "border_first@RTFPage", "border_last@RTFPage",
               "page_title", "page_footnote", "page_source", "pageby_row"}


def shaped(r, field, comp, pick_valid, pick_invalid, make_invalid):
    """Returns (raw value, flat list of entries)."""
    scalar_only = field in SCALAR_ONLY or f"{field}@{comp}" in SCALAR_ONLY
    if scalar_only:
        v = pick_invalid() if make_invalid else pick_valid()
        return v, [v]
    if field == "col_rel_width":
        shape = r.choice(["scalar", "list"])
    elif comp in ("RTFTitle", "RTFSubline", "RTFPageHeader", "RTFPageFooter"):
        shape = r.choice(["scalar", "list", "list", "nested"])
    else:
        shape = r.choice(["scalar", "list", "nested", "nested"])
    if shape == "scalar":
        v = pick_invalid() if make_invalid else pick_valid()
        return v, [v]
    if shape == "list":
        n = r.randint(1, 5)
        flat = [pick_valid() for _ in range(n)]
        if make_invalid:
            flat[r.randrange(n)] = pick_invalid()
        return list(flat), flat
    nr, nc = r.randint(1, 4), r.randint(1, 4)
    m = [[pick_valid() for _ in range(nc)] for _ in range(nr)]
    if make_invalid:
        m[r.randrange(nr)][r.randrange(nc)] = pick_invalid()
    return m, [x for row in m for x in row]


def sx_raw(v):
    if isinstance(v, str):
        return "(0 " + rt.sx_str(v) + ")"
    return "(1 " + rt.sx_q(Fraction(v)) + ")"


def outcome(fn):
    try:
        fn()
        return "accepted"
    except Exception as e:  # noqa: BLE001
        return rt.exc_class(e)


def field_trials(r, n):
    trials = []
    names = list(COMPONENTS)
    for i in range(n):
        comp = r.choice(names)
        cls, fields, base = COMPONENTS[comp]
        field, kind = r.choice(fields)
        make_invalid = r.random() < 0.6
        raw, flat = shaped(r, field, comp, lambda: r.choice(VALID[kind]), lambda: r.choice(INVALID[kind]), make_invalid)
        kwargs = dict(base)
        kwargs[field] = raw
        trials.append({"name": f"f{i}", "component": comp, "field": field, "kind": MODEL_KIND.get(kind, kind),
                       "raw": raw, "flat": flat, "call": (lambda cls=cls, kwargs=kwargs: cls(**kwargs))})
    return trials


def structural_trials(r, n):
    """margin length, new_page without page_by, grouping columns, df/figure exclusivity, section list lengths, figures."""
    out = []
    df3 = pl.DataFrame({"a": ["x", "y"], "b": [1, 2], "c": ["u", "v"]})
    df4 = pl.DataFrame({"AGEGR1": ["x", "x"], "USUBJID": ["1", "1"], "AVAL": ["u", "u"]})
    png = os.path.join(rt.scratch_dir(), "c19.png")
    with open(png, "wb") as f:
        f.write(b"\x89PNG\r\n\x1a\n" + bytes(40))
    for i in range(n):
        k = r.choice(["margin", "new_page", "columns", "content", "sections", "fig_align", "fig_pos", "missing_file"])
        if k == "margin":
            m = [r.choice([0.5, 1.0, 1.25]) for _ in range(r.choice([0, 1, 5, 6, 6, 7, 12]))]
            out.append({"name": f"s{i}", "component": "RTFPage", "field": "margin", "kind": "margin", "raw": m, "flat": m,
                        "call": (lambda m=m: rtf.RTFPage(margin=m))})
        elif k == "new_page":
            pb, npg = r.random() < 0.5, r.random() < 0.5
            out.append({"name": f"s{i}", "component": "RTFBody", "field": "new_page", "kind": "new_page", "raw": [pb, npg],
                        "flat": [int(pb), int(npg)],
                        "call": (lambda pb=pb, npg=npg: rtf.RTFBody(page_by=["a"] if pb else None, new_page=npg))})
        elif k == "columns":
            which = r.choice(["page_by", "subline_by", "group_by"])
            if r.random() < 0.5:
                frame, col = df3, r.choice(["a", "b", "zz", "A", ""])
            else:
                # names that are parts of, or straddle, the real column names
                frame, col = df4, r.choice(["AGE", "SUBJID", "VAL", "AGEGR1", "USUBJID", "R1, US", ", ", "aval", "AGEGR1, USUBJID", " AVAL", "GR"])
            ok = col in frame.columns
            second = r.random() < 0.3      # the offending section is the second of two

            def call(which=which, col=col, frame=frame, second=second):
                if second:
                    return rtf.RTFDocument(df=[frame, frame], rtf_body=[rtf.RTFBody(), rtf.RTFBody(**{which: [col]})])
                return rtf.RTFDocument(df=frame, rtf_body=rtf.RTFBody(**{which: [col]}))
            out.append({"name": f"s{i}", "component": "RTFDocument", "field": which, "kind": "columns", "raw": [col, int(second)],
                        "flat": [int(ok)], "call": call})
        elif k == "content":
            has_df, has_fig = r.random() < 0.5, r.random() < 0.5

            def call(has_df=has_df, has_fig=has_fig):
                kw = {}
                if has_df:
                    kw["df"] = df3
                if has_fig:
                    kw["rtf_figure"] = rtf.RTFFigure(figures=[png])
                return rtf.RTFDocument(**kw)
            out.append({"name": f"s{i}", "component": "RTFDocument", "field": "df/rtf_figure", "kind": "content",
                        "raw": [has_df, has_fig], "flat": [int(has_df), int(has_fig)], "call": call})
        elif k == "sections":
            ndf, nb = r.randint(1, 4), r.randint(1, 4)
            nh = r.choice([-1, -1, 1, 2, 3, 4])

            def call(ndf=ndf, nb=nb, nh=nh):
                kw = {"df": [df3] * ndf, "rtf_body": [rtf.RTFBody() for _ in range(nb)]}
                if nh >= 0:
                    kw["rtf_column_header"] = [[rtf.RTFColumnHeader(text=["A", "B", "C"])] for _ in range(nh)]
                return rtf.RTFDocument(**kw)
            out.append({"name": f"s{i}", "component": "RTFDocument", "field": "sections", "kind": "sections",
                        "raw": [ndf, nb, nh], "flat": [ndf, nb, nh], "call": call})
        elif k in ("fig_align", "fig_pos"):
            bad = r.random() < 0.6
            v = r.choice(INVALID[k]) if bad else r.choice(VALID[k])
            out.append({"name": f"s{i}", "component": "RTFFigure", "field": k, "kind": k, "raw": v, "flat": [v],
                        "call": (lambda k=k, v=v: rtf.RTFFigure(figures=[png], **{k: v}))})
        else:
            out.append({"name": f"s{i}", "component": "RTFFigure", "field": "figures", "kind": "missing_file", "raw": "nope.png",
                        "flat": [], "expect": "FileNotFoundError",
                        "call": (lambda: rtf.RTFFigure(figures=[os.path.join(rt.scratch_dir(), "does_not_exist.png")]))})
    return out


def run(ctx):
    r = random.Random(ctx["seed"] * 13 + 19)
    n = 900 if ctx["tier"] == "quick" else 12000
    trials = field_trials(r, n) + structural_trials(r, n // 4)
    cases = []
    for t in trials:
        if t["kind"] == "missing_file":
            continue
        cases.append(rt.sx_list([rt.sx_str("c19"), rt.sx_str(t["name"]), rt.sx_str(t["kind"]),
                                 rt.sx_list(sx_raw(v) for v in t["flat"])]))
    results = rt.run_driver(cases, shards=4)
    by_name = {res["id"]: res for res in results}
    failures = []
    stats = collections.Counter()
    dist = collections.Counter()
    samples = []
    distinct = set()
    for t in trials:
        got = outcome(t["call"])
        dist[f"{t['component']}.{t['field']}"] += 1
        if t["kind"] == "missing_file":
            model_accept = False
            want_class = "FileNotFoundError"
        else:
            res = by_name[t["name"]]
            if "accept" not in res:
                stats["harness"] += 1
                failures.append({"kind": "harness", "name": "harness", "trial": {k: v for k, v in t.items() if k != "call"}, "result": res,
                                 "what": "the model driver could not evaluate the trial", "signature": None})
                continue
            model_accept = res["accept"] == "1"
            want_class = "ValueError"
        dist["model_accepts" if model_accept else "model_rejects"] += 1
        desc = {k: v for k, v in t.items() if k != "call"}
        distinct.add(repr((t["component"], t["field"], t["raw"])))
        if model_accept and got == "accepted":
            stats["ok_accept"] += 1
        elif (not model_accept) and got == want_class:
            stats["ok_reject"] += 1
            if len(samples) < 3:
                samples.append({"trial": desc, "implementation": got})
        elif not model_accept:
            # invalid input: accepted, or rejected with the wrong exception class -> the property fails
            stats["holds"] += 1
            if len([f for f in failures if f["kind"] == "holds"]) < 4:
                failures.append({"kind": "holds", "name": "invalid_" + t["field"], "trial": desc, "implementation": got,
                                 "what": f"invalid value for {t['component']}.{t['field']}: expected {want_class}, got {got}",
                                 "signature": None})
        else:
            # valid input rejected: model and implementation disagree on the legal set
            stats["corr"] += 1
            if len([f for f in failures if f["kind"] == "corr"]) < 3:
                failures.append({"kind": "corr", "name": "valid_rejected", "trial": desc, "implementation": got,
                                 "what": "a value the model deems legal was rejected: the legal sets differ", "signature": None})
    coverage = {
        "evaluations": len(trials), "distinct_nontrivial": len(distinct),
        "rule": "trial = (component, field, raw value in scalar / list / nested-list shape with an invalid entry at a random position in 60% of the trials); "
                "distinct = different (component, field, raw value)",
        "samples": samples, "outcomes": dict(stats), "input_distribution": dict(dist),
        "traces_validated_against_impl": stats["ok_accept"] + stats["ok_reject"],
    }
    return {"failures": failures, "coverage": coverage}
