(* C01 kernel: emission of structured items is brace-neutral and rows are cell-consistent. *)
From Coq Require Import Ascii String.
From Coq Require Import List NArith ZArith Bool Arith Lia.
From V Require Import Str Tok Items WellFormed.
Import ListNotations.
Local Open Scope list_scope.

(* depth after reading ts from depth d; None when a close brace has no partner *)
Fixpoint depth (d : nat) (ts : list tok) : option nat :=
  match ts with
  | [] => Some d
  | TOpen :: r => depth (S d) r
  | TClose :: r => match d with O => None | S d' => depth d' r end
  | _ :: r => depth d r
  end.

Lemma depth_app d a b :
  depth d (a ++ b) = match depth d a with Some d' => depth d' b | None => None end.
Proof.
  revert d; induction a as [|t a IH]; intros d; cbn [app depth]; [reflexivity|].
  destruct t; try apply IH. destruct d; [reflexivity|apply IH].
Qed.

Lemma depth_shift k d ts d' : depth d ts = Some d' -> depth (d + k) ts = Some (d' + k).
Proof.
  revert d d'; induction ts as [|t ts IH]; intros d d' H; cbn [depth] in *.
  - inversion H; reflexivity.
  - destruct t; try (apply IH; exact H).
    + apply (IH (S d)); exact H.
    + destruct d as [|d0]; [discriminate|]. cbn. apply IH; exact H.
Qed.

(* a token list that returns to its starting depth without ever going below it *)
Definition neutral (ts : list tok) : Prop := depth 0 ts = Some 0.

Lemma neutral_at d ts : neutral ts -> depth d ts = Some d.
Proof. intro H. apply (depth_shift d) in H. exact H. Qed.

Lemma neutral_nil : neutral []. Proof. reflexivity. Qed.

Lemma neutral_app a b : neutral a -> neutral b -> neutral (a ++ b).
Proof. unfold neutral; intros Ha Hb. rewrite depth_app, Ha. exact Hb. Qed.

Lemma neutral_group ts : neutral ts -> neutral (TOpen :: ts ++ [TClose]).
Proof.
  intro H. unfold neutral. cbn [depth]. rewrite depth_app, (neutral_at 1 ts H). reflexivity.
Qed.

Definition brace_free (ts : list tok) : Prop :=
  Forall (fun t => t <> TOpen /\ t <> TClose) ts.

Lemma brace_free_neutral ts : brace_free ts -> neutral ts.
Proof.
  unfold neutral. induction 1 as [|t ts [H1 H2] _ IH]; [reflexivity|].
  destruct t; cbn [depth]; try exact IH; congruence.
Qed.

Lemma neutral_cons_ctrl n p ts : neutral ts -> neutral (TCtrl n p :: ts).
Proof. intro H; exact H. Qed.
Lemma neutral_cons_text s ts : neutral ts -> neutral (TText s :: ts).
Proof. intro H; exact H. Qed.

Lemma neutral_concat (l : list (list tok)) : Forall neutral l -> neutral (concat l).
Proof. induction 1; cbn; [apply neutral_nil|apply neutral_app; assumption]. Qed.

Lemma neutral_flat_map {A} (f : A -> list tok) (l : list A) :
  Forall (fun x => neutral (f x)) l -> neutral (flat_map f l).
Proof. induction 1; cbn; [apply neutral_nil|apply neutral_app; assumption]. Qed.

(* well-formedness of items: auxiliary control-word lists carry no braces, text bodies are neutral *)
Definition run_ok (r : run) : Prop := neutral (rn_body r).
Definition bord_ok (o : option bord) : Prop :=
  match o with Some b => brace_free (bd_style b) | None => True end.
Definition cell_ok (c : cell) : Prop :=
  bord_ok (ce_bl c) /\ bord_ok (ce_bt c) /\ bord_ok (ce_br c) /\ bord_ok (ce_bb c)
  /\ brace_free (ce_vj c) /\ brace_free (ce_pf c) /\ run_ok (ce_run c).
Definition row_ok (r : row) : Prop := brace_free (rw_just r) /\ Forall cell_ok (rw_cells r).
Definition item_ok (i : item) : Prop :=
  match i with
  | IRow r => row_ok r
  | IPara pf rs => brace_free pf /\ Forall run_ok rs
  | IBreak _ => True
  | IPict p => brace_free (pc_align p) /\ brace_free (pc_blip p)
  | IPage => True
  end.

Lemma emit_optz_neutral n o : neutral (emit_optz n o).
Proof. destruct o; reflexivity. Qed.

Lemma emit_run_neutral r : run_ok r -> neutral (emit_run r).
Proof.
  intro H. unfold emit_run.
  change ([ctrlz "fs" (rn_fs r); TOpen; ctrlz "f" (rn_f r)] ++
          emit_optz "cf" (rn_cf r) ++ _ ++ rn_body r ++ [TClose])
    with (ctrlz "fs" (rn_fs r) :: TOpen ::
          (ctrlz "f" (rn_f r) :: emit_optz "cf" (rn_cf r) ++
           match rn_cb r with
           | Some z => [ctrlz "chshdng" 0; ctrlz "chcbpat" z; ctrlz "cb" z]
           | None => []
           end ++ rn_body r ++ [TClose])).
  apply neutral_cons_ctrl.
  replace (ctrlz "f" (rn_f r) :: emit_optz "cf" (rn_cf r) ++
           match rn_cb r with
           | Some z => [ctrlz "chshdng" 0; ctrlz "chcbpat" z; ctrlz "cb" z]
           | None => []
           end ++ rn_body r ++ [TClose])
    with ((ctrlz "f" (rn_f r) :: emit_optz "cf" (rn_cf r) ++
           match rn_cb r with
           | Some z => [ctrlz "chshdng" 0; ctrlz "chcbpat" z; ctrlz "cb" z]
           | None => []
           end ++ rn_body r) ++ [TClose])
    by (cbn [app]; rewrite <- !app_assoc; reflexivity).
  apply neutral_group. apply neutral_cons_ctrl.
  apply neutral_app; [apply emit_optz_neutral|].
  apply neutral_app; [destruct (rn_cb r); reflexivity|exact H].
Qed.

Lemma emit_bord_neutral s o : bord_ok o -> neutral (emit_bord s o).
Proof.
  destruct o as [b|]; cbn; intro H; [|reflexivity].
  apply neutral_cons_ctrl. apply neutral_app; [apply brace_free_neutral; exact H|].
  apply neutral_cons_ctrl. apply emit_optz_neutral.
Qed.

Lemma emit_cell_def_neutral c : cell_ok c -> neutral (emit_cell_def c).
Proof.
  intros (H1 & H2 & H3 & H4 & H5 & _). unfold emit_cell_def.
  repeat (apply neutral_app; [apply emit_bord_neutral; assumption|]).
  apply neutral_app; [apply brace_free_neutral; exact H5|reflexivity].
Qed.

Lemma emit_cell_content_neutral c : cell_ok c -> neutral (emit_cell_content c).
Proof.
  intros (_ & _ & _ & _ & _ & H6 & H7). unfold emit_cell_content.
  apply neutral_cons_ctrl. apply neutral_app; [apply brace_free_neutral; exact H6|].
  apply neutral_app; [apply emit_run_neutral; exact H7|reflexivity].
Qed.

Lemma emit_row_neutral r : row_ok r -> neutral (emit_row r).
Proof.
  intros [Hj Hc]. unfold emit_row.
  apply neutral_app; [reflexivity|].
  apply neutral_app; [apply brace_free_neutral; exact Hj|].
  apply neutral_app.
  { apply neutral_flat_map. eapply Forall_impl; [|exact Hc]. apply emit_cell_def_neutral. }
  apply neutral_app; [|reflexivity].
  apply neutral_flat_map. eapply Forall_impl; [|exact Hc]. apply emit_cell_content_neutral.
Qed.

Lemma emit_runs_neutral rs : Forall run_ok rs -> neutral (emit_runs rs).
Proof.
  induction 1 as [|r rs Hr Hrs IH]; [reflexivity|].
  cbn [emit_runs]. destruct rs as [|r' rs'].
  - apply emit_run_neutral; exact Hr.
  - apply neutral_app; [apply emit_run_neutral; exact Hr|]. apply neutral_cons_ctrl. exact IH.
Qed.

Lemma emit_para_neutral pf rs : brace_free pf -> Forall run_ok rs -> neutral (emit_para pf rs).
Proof.
  intros Hp Hr. unfold emit_para.
  change ([TOpen; ctrl "pard"] ++ pf ++ emit_runs rs ++ [ctrl "par"; TClose])
    with (TOpen :: (ctrl "pard" :: pf ++ emit_runs rs ++ [ctrl "par"; TClose])).
  replace (ctrl "pard" :: pf ++ emit_runs rs ++ [ctrl "par"; TClose])
    with ((ctrl "pard" :: pf ++ emit_runs rs ++ [ctrl "par"]) ++ [TClose])
    by (cbn [app]; rewrite <- !app_assoc; reflexivity).
  apply neutral_group. apply neutral_cons_ctrl.
  apply neutral_app; [apply brace_free_neutral; exact Hp|].
  apply neutral_app; [apply emit_runs_neutral; exact Hr|reflexivity].
Qed.

Lemma emit_margins_neutral ns ms : neutral (emit_margins ns ms).
Proof.
  revert ms; induction ns as [|n ns IH]; intros [|m ms]; cbn; try reflexivity. apply IH.
Qed.

Theorem emit_item_neutral i : item_ok i -> neutral (emit_item i).
Proof.
  destruct i as [r|pf rs|g|p|]; cbn [emit_item item_ok].
  - apply emit_row_neutral.
  - intros [H1 H2]; apply emit_para_neutral; assumption.
  - intros _. unfold emit_break. apply neutral_app; [reflexivity|].
    apply neutral_app; [reflexivity|]. apply neutral_app; [reflexivity|].
    unfold emit_geom. apply neutral_cons_ctrl, neutral_cons_ctrl, emit_margins_neutral.
  - intros [H1 H2]. unfold emit_pict.
    apply neutral_app; [apply brace_free_neutral; exact H1|].
    replace ([TOpen; ctrl "pict"] ++ pc_blip p ++
             [ctrlz "picw" (pc_w p); ctrlz "pich" (pc_h p); ctrlz "picwgoal" (pc_wgoal p);
              ctrlz "pichgoal" (pc_hgoal p); TText (pc_hex p); TClose; ctrl "par"])
      with ((TOpen :: (ctrl "pict" :: pc_blip p ++
             [ctrlz "picw" (pc_w p); ctrlz "pich" (pc_h p); ctrlz "picwgoal" (pc_wgoal p);
              ctrlz "pichgoal" (pc_hgoal p); TText (pc_hex p)]) ++ [TClose]) ++ [ctrl "par"])
      by (cbn [app]; rewrite <- !app_assoc; reflexivity).
    apply neutral_app; [|reflexivity].
    apply neutral_group. apply neutral_cons_ctrl.
    apply neutral_app; [apply brace_free_neutral; exact H2|reflexivity].
  - intros _; reflexivity.
Qed.

Theorem emit_items_neutral its : Forall item_ok its -> neutral (emit_items its).
Proof.
  intro H. unfold emit_items. apply neutral_flat_map.
  eapply Forall_impl; [|exact H]. apply emit_item_neutral.
Qed.

(* a neutral body wrapped in the document braces forms exactly one top-level group *)
Lemma ogf_open d l : one_group_from d (TOpen :: l) = one_group_from (S d) l.
Proof. reflexivity. Qed.
Lemma ogf_close d l : l <> [] -> one_group_from (S (S d)) (TClose :: l) = one_group_from (S d) l.
Proof. destruct l; [congruence|reflexivity]. Qed.
Lemma ogf_ctrl d n p l : one_group_from d (TCtrl n p :: l) = (0 <? d) && one_group_from d l.
Proof. reflexivity. Qed.
Lemma ogf_sym d c l : one_group_from d (TSym c :: l) = (0 <? d) && one_group_from d l.
Proof. reflexivity. Qed.
Lemma ogf_text d s l : one_group_from d (TText s :: l) = (0 <? d) && one_group_from d l.
Proof. reflexivity. Qed.

Lemma one_group_from_depth d tail ts k e :
  tail <> [] -> depth k ts = Some e ->
  one_group_from (S d + k) (ts ++ tail) = one_group_from (S d + e) tail.
Proof.
  intros Ht. revert k e. induction ts as [|t ts IH]; intros k e Hk.
  - cbn in Hk. inversion Hk; reflexivity.
  - assert (Hne : ts ++ tail <> []) by (destruct ts; cbn; [exact Ht|congruence]).
    cbn [depth] in Hk. rewrite <- app_comm_cons.
    destruct t.
    + rewrite ogf_open. replace (S (S d + k)) with (S d + S k) by lia. apply IH; exact Hk.
    + destruct k as [|k0]; [discriminate|].
      replace (S d + S k0) with (S (S (d + k0))) by lia.
      rewrite ogf_close by exact Hne. replace (S (d + k0)) with (S d + k0) by lia. apply IH; exact Hk.
    + rewrite ogf_ctrl. replace (0 <? S d + k) with true by (symmetry; apply Nat.ltb_lt; lia).
      cbn [andb]. apply IH; exact Hk.
    + rewrite ogf_sym. replace (0 <? S d + k) with true by (symmetry; apply Nat.ltb_lt; lia).
      cbn [andb]. apply IH; exact Hk.
    + rewrite ogf_text. replace (0 <? S d + k) with true by (symmetry; apply Nat.ltb_lt; lia).
      cbn [andb]. apply IH; exact Hk.
Qed.

Theorem one_group_wrap ts : neutral ts -> one_group (TOpen :: ts ++ [TClose]) = true.
Proof.
  intro H. unfold one_group. rewrite ogf_open.
  pose proof (one_group_from_depth 0 [TClose] ts 0 0 ltac:(congruence) H) as K.
  cbn [Nat.add] in K. rewrite K. reflexivity.
Qed.

(* ---- every emitted row declares exactly as many \cellx as it has \cell ---- *)
Definition count_ctrl (name : str) (ts : list tok) : nat := length (filter (is_ctrl name) ts).

Lemma count_app name a b : count_ctrl name (a ++ b) = count_ctrl name a + count_ctrl name b.
Proof. unfold count_ctrl. rewrite filter_app, app_length. reflexivity. Qed.

Lemma count_flat_map {A} name (f : A -> list tok) (l : list A) k :
  Forall (fun x => count_ctrl name (f x) = k) l -> count_ctrl name (flat_map f l) = length l * k.
Proof.
  induction 1 as [|x l Hx _ IH]; [reflexivity|]. cbn [flat_map length]. rewrite count_app, Hx, IH. lia.
Qed.

Definition cellx_n : str := s2l "cellx".
Definition cell_n : str := s2l "cell".

(* no row-structure control word hides in the free token lists of a cell *)
Definition free_of (name : str) (ts : list tok) : Prop := count_ctrl name ts = 0.

Definition bord_free name (o : option bord) : Prop :=
  match o with Some b => free_of name (bd_style b) | None => True end.

Definition cell_clean (c : cell) : Prop :=
  forall name, name = cellx_n \/ name = cell_n ->
    bord_free name (ce_bl c) /\ bord_free name (ce_bt c) /\ bord_free name (ce_br c) /\ bord_free name (ce_bb c)
    /\ free_of name (ce_vj c) /\ free_of name (ce_pf c) /\ free_of name (rn_body (ce_run c)).

Lemma count_emit_bord name s o :
  (name = cellx_n \/ name = cell_n) -> bord_free name o ->
  (s = "clbrdrl" \/ s = "clbrdrt" \/ s = "clbrdrr" \/ s = "clbrdrb")%string ->
  count_ctrl name (emit_bord s o) = 0.
Proof.
  intros Hn Hb Hs. destruct o as [b|]; [|reflexivity]. cbn [emit_bord].
  change (ctrl s :: bd_style b ++ [ctrlz "brdrw" (bd_w b)] ++ emit_optz "brdrcf" (bd_cf b))
    with ([ctrl s] ++ bd_style b ++ [ctrlz "brdrw" (bd_w b)] ++ emit_optz "brdrcf" (bd_cf b)).
  rewrite !count_app. cbn in Hb. rewrite Hb.
  destruct Hn as [-> | ->]; destruct Hs as [-> | [-> | [-> | ->]]]; destruct (bd_cf b); reflexivity.
Qed.

Lemma count_cellx_def c : cell_clean c -> count_ctrl cellx_n (emit_cell_def c) = 1.
Proof.
  intro H. destruct (H cellx_n (or_introl eq_refl)) as (H1 & H2 & H3 & H4 & H5 & _).
  unfold emit_cell_def. rewrite !count_app.
  rewrite !count_emit_bord by (auto; tauto). rewrite H5. reflexivity.
Qed.

Lemma count_cell_def c : cell_clean c -> count_ctrl cell_n (emit_cell_def c) = 0.
Proof.
  intro H. destruct (H cell_n (or_intror eq_refl)) as (H1 & H2 & H3 & H4 & H5 & _).
  unfold emit_cell_def. rewrite !count_app.
  rewrite !count_emit_bord by (auto; tauto). rewrite H5. reflexivity.
Qed.

Lemma count_emit_run name r :
  (name = cellx_n \/ name = cell_n) -> free_of name (rn_body r) -> count_ctrl name (emit_run r) = 0.
Proof.
  intros Hn Hb. unfold emit_run. rewrite !count_app, Hb.
  destruct Hn as [-> | ->]; destruct (rn_cf r), (rn_cb r); reflexivity.
Qed.

Lemma count_cellx_content c : cell_clean c -> count_ctrl cellx_n (emit_cell_content c) = 0.
Proof.
  intro H. destruct (H cellx_n (or_introl eq_refl)) as (_ & _ & _ & _ & _ & H6 & H7).
  unfold emit_cell_content.
  change (ctrl "pard" :: ce_pf c ++ emit_run (ce_run c) ++ [ctrl "cell"])
    with ([ctrl "pard"] ++ ce_pf c ++ emit_run (ce_run c) ++ [ctrl "cell"]).
  rewrite !count_app, H6, count_emit_run by (auto; tauto). reflexivity.
Qed.

Lemma count_cell_content c : cell_clean c -> count_ctrl cell_n (emit_cell_content c) = 1.
Proof.
  intro H. destruct (H cell_n (or_intror eq_refl)) as (_ & _ & _ & _ & _ & H6 & H7).
  unfold emit_cell_content.
  change (ctrl "pard" :: ce_pf c ++ emit_run (ce_run c) ++ [ctrl "cell"])
    with ([ctrl "pard"] ++ ce_pf c ++ emit_run (ce_run c) ++ [ctrl "cell"]).
  rewrite !count_app, H6, count_emit_run by (auto; tauto). reflexivity.
Qed.

Theorem emit_row_cell_counts r :
  Forall cell_clean (rw_cells r) ->
  free_of cellx_n (rw_just r) -> free_of cell_n (rw_just r) ->
  count_ctrl cellx_n (emit_row r) = length (rw_cells r)
  /\ count_ctrl cell_n (emit_row r) = length (rw_cells r).
Proof.
  intros Hc Hj1 Hj2. unfold emit_row. rewrite !count_app.
  rewrite (count_flat_map cellx_n emit_cell_def (rw_cells r) 1)
    by (eapply Forall_impl; [|exact Hc]; apply count_cellx_def).
  rewrite (count_flat_map cellx_n emit_cell_content (rw_cells r) 0)
    by (eapply Forall_impl; [|exact Hc]; apply count_cellx_content).
  rewrite (count_flat_map cell_n emit_cell_def (rw_cells r) 0)
    by (eapply Forall_impl; [|exact Hc]; apply count_cell_def).
  rewrite (count_flat_map cell_n emit_cell_content (rw_cells r) 1)
    by (eapply Forall_impl; [|exact Hc]; apply count_cell_content).
  rewrite Hj1, Hj2. cbn. lia.
Qed.
