"""C06: titles, headers, footnotes and sources appear on exactly the configured pages."""
import itertools
import random

import gen

from . import common

TRUSTED = ["role classifier `classify` (Model/Checks.v): roles from sentinel characters and column names only"]
ASSUMPTIONS = ["component texts follow the sentinel conventions of harness/gen.py"]

PLACES = ["first", "last", "all"]


def force(spec, r, pt=None, pf=None, ps=None, fn=None, src=None, title=True, subline=None):
    g = gen.DocGen(r.randrange(1 << 30))
    page = spec.setdefault("page", {})
    if pt:
        page["page_title"] = pt
    if pf:
        page["page_footnote"] = pf
    if ps:
        page["page_source"] = ps
    for name, mode, tag in (("footnote", fn, "F"), ("source", src, "R")):
        if mode == "absent":
            spec.pop(name, None)
        elif mode in ("table", "para"):
            c = g.table_text(tag)
            c["as_table"] = mode == "table"
            spec[name] = c
    if title:
        spec["title"] = g.text_component("T")
    if subline:
        spec["subline"] = g.text_component("S")
    return spec


_GRID = []


def generate(g, i):
    if i < len(_GRID):
        return _GRID[i]
    r = g.r
    if r.random() < 0.2:
        spec = g.figure()
        return spec
    strategy = r.choice(["plain", "page_by", "subline", "subline+page_by"])
    nrows = r.choice([1, 2, 4, 7, 12, 20])
    spec = g.single(strategy=strategy, nrows=nrows)
    spec["page"]["nrow"] = r.choice([3, 4, 6, 9, 40])
    force(spec, r, r.choice(PLACES), r.choice(PLACES), r.choice(PLACES),
          r.choice(["table", "para", "absent"]), r.choice(["table", "para", "absent"]),
          title=r.random() < 0.8, subline=r.random() < 0.4)
    return spec


def product_specs(seed):
    r = random.Random(seed)
    out = []
    for pt, pf, ps in itertools.product(PLACES, repeat=3):
        for fn, src in itertools.product(["table", "para", "absent"], repeat=2):
            for strategy in ("plain", "page_by", "subline"):
                for pbh in (True, False):
                    g = gen.DocGen(r.randrange(1 << 30))
                    nrows = r.choice([1, 3, 6, 14])
                    spec = g.single(strategy=strategy, nrows=nrows, header_mode=r.choice(["default", "explicit", "multi", "none"]))
                    spec["body"]["pageby_header"] = pbh
                    spec["page"]["nrow"] = r.choice([3, 5, 8, 40])
                    force(spec, r, pt, pf, ps, fn, src, title=True, subline=r.random() < 0.5)
                    out.append((f"prod_{pt}_{pf}_{ps}_{fn}_{src}_{strategy}_{int(pbh)}", spec))
    return out


def run(ctx):
    common.TIE_EXCUSES["value"] = True
    _GRID[:] = gen.DocGen(ctx["seed"] + 606).figure_grid(ctx["tier"] == "quick")
    res = common.run_docprop(ctx, "c06", generate, None, n_quick=170 + len(_GRID), n_thorough=1500 + len(_GRID))
    if ctx.get("replay") or ctx["tier"] != "thorough":
        return res
    ex = product_specs(ctx["seed"])
    stats = {}
    bad = 0
    for lo in range(0, len(ex), 250):
        for rec in common.evaluate("c06", ex[lo:lo + 250]):
            cls = common.classify(rec)
            stats[cls] = stats.get(cls, 0) + 1
            if cls in ("holds", "corr", "build", "harness") and bad < 3:
                bad += 1
                res["failures"].append(common.make_failure(ctx, "c06", rec, cls, None, None, 100))
    res["coverage"]["placement_product"] = {"cases": len(ex), "outcomes": stats, "exhaustive": True,
                                            "space": "page_title x page_footnote x page_source x footnote{table,para,absent} x source{...} x {plain,page_by,subline_by} x pageby_header"}
    res["coverage"]["evaluations"] += len(ex)
    return res
