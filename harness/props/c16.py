"""C16: figures are embedded byte-exactly, one per page, at the configured size."""
import rt

from . import common

TRUSTED = ["C16 predicate check_c16 (Model/Checks.v): payload decoded by Figure.unhex; pixel dimensions compared with the values the GENERATOR wrote into the image header (not with the model's parser)"]
ASSUMPTIONS = ["pixel dimensions are read from PNG / JPEG headers; EMF falls back to 96 dpi of the display size, as the mechanism anchor says"]


_GRID = []


def generate(g, i):
    if i < len(_GRID):
        spec = dict(_GRID[i])
        if i % 3 == 0:
            spec["_stale"] = True
        return spec
    spec = g.figure()
    if g.r.random() < 0.2:
        spec["_stale"] = True
    return spec


def impl_fn(spec, doc):
    """_stale: the image files held OTHER bytes of the same length (and the same modification time) during an earlier encode of
    the same document; the payload must be what the files hold NOW."""
    import os

    if spec.get("_stale"):
        figs = doc.rtf_figure.figures
        paths = [str(p) for p in (figs if isinstance(figs, (list, tuple)) else [figs])]
        saved = {}
        for p in dict.fromkeys(paths):
            real = open(p, "rb").read()
            st = os.stat(p)
            saved[p] = (real, st)
            other = real[:-6] + bytes(b ^ 0x5A for b in real[-6:])
            with open(p, "wb") as fh:
                fh.write(other)
            # a modification time of its own, which the real content gets as well when it is put back (as `cp -p` would do)
            os.utime(p, ns=(st.st_atime_ns, st.st_mtime_ns + 7_000_000_000))
        try:
            doc.rtf_encode()
        except Exception:  # noqa: BLE001
            pass
        for p, (real, st) in saved.items():
            with open(p, "wb") as fh:
                fh.write(real)
            os.utime(p, ns=(st.st_atime_ns, st.st_mtime_ns + 7_000_000_000))
    ok, out = rt.run_impl(doc)
    return ok, out, rt.sx_impl(ok, out)


_orig_build = rt.build


def _build(spec, *a, **kw):
    return _orig_build({k: v for k, v in spec.items() if not k.startswith("_")}, *a, **kw)


rt.build = _build


def extra_fn(spec, doc, ok, out):
    items = []
    for f in spec["figure"]["files"]:
        has = f["kind"] in ("png", "jpeg")
        items.append(rt.sx_list([rt.sx_bool(has), rt.sx_list([str(f["w"] if has else 0), str(f["h"] if has else 0)])]))
    return rt.sx_list(items)


def run(ctx):
    import gen

    _GRID[:] = gen.DocGen(ctx["seed"] + 1616).figure_grid(ctx["tier"] == "quick")
    return common.run_docprop(ctx, "c16", generate, None, extra_fn=extra_fn, impl_fn=impl_fn, n_quick=120 + len(_GRID), n_thorough=1500 + len(_GRID), shrink_steps=40)
