#!/bin/bash
# build the Coq development (model + extraction) and the OCaml driver
set -e
cd "$(dirname "$0")"
./mk.sh "$@"
cd ocaml
if [ ! -x driver ] || [ gen/model.ml -nt driver ] || [ driver.ml -nt driver ]; then
  ocamlfind ocamlopt -O3 -w -a -I gen gen/model.mli gen/model.ml driver.ml -o driver 2>&1 | tail -5
fi
