"""C01: every accepted document encodes to well-formed RTF."""
from . import common

TRUSTED = ["C01 predicate wf_rtf (Rtf/WellFormed.v) evaluated by the extracted driver on lex(rtf_encode())"]
ASSUMPTIONS = ["user text contains no raw RTF metacharacters except balanced, lexically valid fragments (as the quantifier says)"]


def generate(g, i):
    return g.any_doc()


def signature(spec, result):
    return None


def run(ctx):
    return common.run_docprop(ctx, "c01", generate, signature, n_quick=160, n_thorough=3000)
