"""C02: no data cell is lost, duplicated, reordered or altered."""
from . import common

TRUSTED = ["C02 predicate check_c02 (Model/Checks.v): tagged rows read back from rtf_encode() vs the frame's display texts"]
ASSUMPTIONS = ["text without conversion-triggering sequences when text_convert is on; printable ASCII without \\ { } when it is off; group_by absent"]

STRATS = ["plain", "plain", "page_by", "page_by", "subline", "subline+page_by"]


# column names a helper column of the implementation might also want to use
RESERVED = ["page", "index", "row_nr", "count", "literal", "len", "total_rows", "is_group_start", "column_0", "row_index",
            "group", "page_number", "data", "__index__", "by", "value"]


def reserved_docs():
    out = []
    for k in range(0, len(RESERVED), 4):
        names = RESERVED[k:k + 4]
        for strategy in ("plain", "page_by", "multi"):
            cols = ["id"] + names + (["g0"] if strategy == "page_by" else [])
            rows = [[f"#{i}# r"] + [f"v{j}w{i}" for j, n in enumerate(names)] + ([f"@A{i // 3}"] if strategy == "page_by" else []) for i in range(7)]
            df = {"cols": cols, "rows": rows}
            if strategy == "multi":
                out.append({"sections": [{"df": df, "body": {}}, {"df": df, "body": {}}], "page": {"nrow": 6}, "kind": "multi"})
            else:
                body = {"page_by": ["g0"]} if strategy == "page_by" else {}
                out.append({"df": df, "body": body, "page": {"nrow": 5}, "kind": "single", "strategy": strategy, "header_mode": "default"})
    return out


_RESERVED_DOCS = reserved_docs()


def generate(g, i):
    if i < len(_RESERVED_DOCS):
        return _RESERVED_DOCS[i]
    r = g.r
    g.text_mode = "ascii" if r.random() < 0.4 else "safe"
    if r.random() < 0.8:
        spec = g.single(strategy=r.choice(STRATS))
        if g.text_mode == "ascii":
            spec["body"]["text_convert"] = False
    else:
        spec = g.multi()
        if g.text_mode == "ascii":
            for s in spec["sections"]:
                s["body"]["text_convert"] = False
    g.text_mode = "safe"
    return spec


def run(ctx):
    return common.run_docprop(ctx, "c02", generate, None, n_quick=160 + len(_RESERVED_DOCS), n_thorough=3000 + len(_RESERVED_DOCS),
                              nontrivial=lambda rec: int((rec["result"] or {}).get("nrows", "0")) > 0)
