(* C08 — all rows of a table share one right edge and proportional columns.
   For ALL relative-width lists and table widths (exact rational arithmetic):
     C08_right_edge    the last boundary of Utils._col_widths is the table width, so every row rendered
                       from it (data rows, headers, table-rendered footnote/source) ends at twip col_width;
                       the spanning row uses col_width directly (spanning_row: ce_x = twip col_width);
     C08_proportional  a boundary is written as twip of its exact proportional position, and twip is
                       within half a twip of its argument — so column widths are proportional to
                       col_rel_width to within one twip;
     C08_rounding      twip depends only on the VALUE of the rational, so equal widths (an inherited
                       header and the body it labels) get equal \cellx.
     C08_rows_right_edge   every row table_encode renders from Utils._col_widths(rel, W) for rows with one value per
                       relative width (data rows, header rows, the one-cell footnote / source table) ends at twip W:
                       the statement about the RENDERED rows (ce_x of the last cell), not only about the width list;
     C08_spanning_right_edge   every group-heading row ends at twip col_width.
   C08_partial (not proved): that the header's inherited widths ARE the sliced body widths — this is
   constructor logic (RTFDocument.__init__, after the repair), checked on the implementation by
   check_c08 clause 3; binary64 noise at exact ties is outside the model (flagged per case). *)
From Coq Require Import List ZArith QArith Qabs Bool.
From V Require Import Str Num Items Doc Encode Pipeline WidthProofs RightEdgeProofs.
Import ListNotations.
Local Open Scope Q_scope.

Theorem C08_right_edge : forall rel W x,
  last_opt (col_widths rel W) = Some x -> ~ qsum rel == 0 -> twip x = twip W.
Proof. exact right_edge. Qed.
Print Assumptions C08_right_edge.

Theorem C08_proportional : forall q, Qabs ((round_half_even q # 1) - q) <= 1 # 2.
Proof. exact twip_within_half. Qed.
Print Assumptions C08_proportional.

Theorem C08_rounding : forall a b, a == b -> twip a = twip b.
Proof. exact twip_Qeq. Qed.

Theorem C08_count : forall rel W, length (col_widths rel W) = length rel.
Proof. exact col_widths_length. Qed.

Theorem C08_rows_right_edge : forall ctx a crw W rows off its,
  table_encode ctx a (col_widths crw W) rows off = Ok its ->
  ~ qsum crw == 0 -> Forall (fun vals => vals <> [] /\ length vals = length crw) rows ->
  Forall (fun i => match i with IRow r => row_end r = Some (twip W) | _ => True end) its.
Proof. exact table_rows_right_edge. Qed.
Print Assumptions C08_rows_right_edge.

Theorem C08_spanning_right_edge : forall ctx s text col its,
  spanning_row ctx s text col = Ok its ->
  Forall (fun i => match i with IRow r => row_end r = Some (twip (p_col_width (s_page s))) | _ => True end) its.
Proof. exact spanning_row_right_edge. Qed.

(* three equal columns over 6.25 in: 3000, 6000, 9000 twips *)
Example C08_example : map twip (col_widths [1#1; 1#1; 1#1] (625 # 100)) = [3000; 6000; 9000]%Z.
Proof. vm_compute. reflexivity. Qed.
