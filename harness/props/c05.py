"""C05: every data row sits under its own group heading on its own page."""
import gen

from . import common

TRUSTED = ["C05 predicate check_c05 (Model/Checks.v): sequence of full-width heading rows / subline paragraphs and tagged data rows per parsed page; clause 8 (a divider never costs a data row) uses the model's per-row line counts and available rows"]
ASSUMPTIONS = ["group keys sorted (hierarchically contiguous), level-specific labels (@A.. outer, @B.., @C..) so that a heading's level is recognisable"]


def _contiguous(seq):
    seen, prev = set(), object()
    for x in seq:
        if x != prev:
            if x in seen:
                return False
            seen.add(x)
            prev = x
    return True


def small_patterns():
    """All hierarchically contiguous key patterns of 3 rows over two page_by levels with values {1, 2, divider} per level,
    and of 4 rows over {1, divider}: the shapes in which a level is hidden by a divider and shown again."""
    import itertools

    out = []
    for n, alpha in ((3, ("1", "2", "-")), (4, ("1", "-"))):
        for pat in itertools.product(itertools.product(alpha, repeat=2), repeat=n):
            if _contiguous([t[0] for t in pat]) and _contiguous(list(pat)):
                out.append(pat)
    return out


_PATTERNS = small_patterns()


def three_level_patterns():
    """Three page_by levels over {1,2}: every 2-row pattern starting (1,1,1) and every contiguous 3-row one: the shapes in which
    an outer level changes in mid-page while the inner ones repeat."""
    import itertools

    out = []
    for n in (2, 3):
        for rest in itertools.product(itertools.product("12", repeat=3), repeat=n - 1):
            pat = [("1", "1", "1")] + list(rest)
            if all(_contiguous([t[:k] for t in pat]) for k in (1, 2, 3)):
                out.append(tuple(pat))
    return out


_PATTERNS3 = three_level_patterns()
_DIRECTED3 = [p for p in _PATTERNS3 if len(p) == 2]


def pattern_spec(pat, nrow, key="page_by"):
    lab = lambda lvl, v: "-----" if v == "-" else f"@{'ABC'[lvl]}{v}"
    L = len(pat[0])
    names = [f"g{l}" for l in range(L)]
    rows = [[f"#{i}#"] + [lab(l, t[l]) for l in range(L)] + ["x"] for i, t in enumerate(pat)]
    return {"df": {"cols": ["id"] + names + ["c0"], "rows": rows}, "body": {key: names}, "page": {"nrow": nrow},
            "kind": "single", "strategy": "page_by" if key == "page_by" else "subline", "header_mode": "default"}


# runs of divider rows long enough to fill pages: a divider must be budgeted like a plain row
_DIVIDER_RUNS = [
    pattern_spec((("-",),) * 7, 4), pattern_spec((("-", "-"),) * 7, 5), pattern_spec((("-",),) * 3 + (("1",),) * 4, 4),
    pattern_spec((("-", "-"),) * 4 + (("1", "-"),) * 4, 4), pattern_spec((("-",),) * 7, 4, "subline_by"),
    pattern_spec((("-",),) * 5 + (("1",),) * 3, 5, "subline_by"), pattern_spec((("-",),) * 11, 5),
]


def generate(g, i):
    if i < len(_DIVIDER_RUNS):
        return _DIVIDER_RUNS[i]
    i -= len(_DIVIDER_RUNS)
    r = g.r
    if i < len(_EXTRA3):
        return pattern_spec(_EXTRA3[i], 14)
    i -= len(_EXTRA3)
    if i < _N_PATTERNS[0]:
        return pattern_spec(_PATTERNS[_ORDER[i]], 12 if i % 3 else 4)
    strategy = r.choice(["page_by", "page_by", "page_by", "subline", "subline+page_by"])
    nrows = r.choice([1, 2, 3, 5, 8, 13, 21, 30])
    spec = g.single(strategy=strategy, nrows=nrows, header_mode=r.choice(["default", "explicit", "none", "no_colheader"]))
    spec["body"].pop("group_by", None)
    spec["page"]["nrow"] = r.randint(3, 12)
    return spec


_N_PATTERNS = [0]
_ORDER = []
_EXTRA3 = []


def run(ctx):
    import random

    order = list(range(len(_PATTERNS)))
    random.Random(ctx["seed"] + 55).shuffle(order)
    _ORDER[:] = order
    _N_PATTERNS[0] = len(_PATTERNS) if ctx["tier"] != "quick" else min(len(_PATTERNS), 90)
    common.TIE_EXCUSES["value"] = True      # clause 8 of check_c05 counts lines: excused on tie-flagged documents,
    common.TIE_EXCUSES["clauses"] = {"8"}   # the structural clauses 1-7 are not
    _EXTRA3[:] = _DIRECTED3 if ctx["tier"] == "quick" else _PATTERNS3
    return common.run_docprop(ctx, "c05", generate, None, n_quick=180 + 90 + len(_DIRECTED3) + len(_DIVIDER_RUNS),
                              n_thorough=3000 + len(_PATTERNS) + len(_PATTERNS3) + len(_DIVIDER_RUNS))
