(* C19: a value outside the legal set is rejected wherever it sits. *)
From Coq Require Import List NArith ZArith QArith Bool Lia Arith.
From V Require Import Str Num Tables Doc Validate.
Import ListNotations.
Local Open Scope nat_scope.

Lemma all_b_forall {A} (f : A -> bool) l : all_b f l = true <-> forall x, In x l -> f x = true.
Proof.
  induction l as [|y l IH]; cbn; split; intro H.
  - intros x [].
  - reflexivity.
  - apply andb_prop in H as [H1 H2]. intros x [->|Hx]; [exact H1|apply IH; assumption].
  - apply andb_true_intro. split; [apply H; left; reflexivity|apply IH; intros x Hx; apply H; right; exact Hx].
Qed.

(* one illegal entry anywhere in a scalar, vector or matrix value makes construction refuse it *)
Theorem rejects_anywhere k (flat : list rawv) v :
  In v flat -> legal k v = false -> accepts k flat = false.
Proof.
  intros Hin Hl. unfold accepts. destruct (all_b (legal k) flat) eqn:E; [|reflexivity].
  rewrite all_b_forall in E. rewrite (E v Hin) in Hl. discriminate.
Qed.

Theorem accepts_iff k flat : accepts k flat = true <-> forall v, In v flat -> legal k v = true.
Proof. apply all_b_forall. Qed.

(* position independence for matrices: flattening rows keeps every entry *)
Lemma in_matrix {A} (m : list (list A)) r c x :
  nth_error m r = Some c -> In x c -> In x (concat m).
Proof. intros Hr Hx. apply in_concat. exists c. split; [eapply nth_error_In; exact Hr|exact Hx]. Qed.

Theorem rejects_in_matrix k (m : list (list rawv)) r row c v :
  nth_error m r = Some row -> nth_error row c = Some v -> legal k v = false ->
  accepts k (concat m) = false.
Proof.
  intros Hr Hc Hl. apply (rejects_anywhere k (concat m) v); [|exact Hl].
  eapply in_matrix; [exact Hr|eapply nth_error_In; exact Hc].
Qed.

(* positivity: zero and negative numbers are never legal *)
Theorem nonpositive_illegal q : (q <= 0)%Q -> legal KPositive (RNum q) = false.
Proof.
  intro H. cbn. apply Z.ltb_ge. unfold Qle in H. cbn in H. lia.
Qed.

(* structural rules *)
Theorem margin_rule l : margin_ok l = true <-> length l = 6.
Proof. unfold margin_ok. apply Nat.eqb_eq. Qed.

Theorem new_page_rule : new_page_ok None true = false.
Proof. reflexivity. Qed.

Theorem content_rule a b : content_ok a b = true <-> a <> b.
Proof. destruct a, b; cbn; split; intro H; try reflexivity; try discriminate; congruence. Qed.

(* the legal sets of the regenerated tables (finite) *)
Lemma font_numbers_legal :
  all_b (fun n => legal KFont (RNum (n # 1))) [1; 2; 3; 4; 5; 6; 7; 8; 9; 10]%Z = true
  /\ legal KFont (RNum (0 # 1)) = false /\ legal KFont (RNum (11 # 1)) = false /\ legal KFont (RNum (3 # 2)) = false.
Proof. vm_compute. repeat split; reflexivity. Qed.
