(* Strings as lists of code points; Python-style helpers.  Executable definitions only. *)
From Coq Require Import Ascii String.
From Coq Require Import List NArith ZArith Bool.
Import ListNotations.
Local Open Scope N_scope.

Definition str := list N.

Fixpoint s2l (s : string) : str :=
  match s with
  | EmptyString => []
  | String a r => N_of_ascii a :: s2l r
  end.

Fixpoint str_eqb (a b : str) : bool :=
  match a, b with
  | [], [] => true
  | x :: a', y :: b' => N.eqb x y && str_eqb a' b'
  | _, _ => false
  end.

Definition rev' {A} (l : list A) : list A := rev_append l [].

(* tail-recursive map/append, safe for long strings after extraction *)
Definition app' {A} (a b : list A) : list A := rev_append (rev' a) b.

Fixpoint concat_str (l : list str) : str :=
  match l with
  | [] => []
  | x :: r => x ++ concat_str r
  end.

Fixpoint join (sep : str) (l : list str) : str :=
  match l with
  | [] => []
  | [x] => x
  | x :: r => x ++ sep ++ join sep r
  end.

Fixpoint starts_with (p s : str) : bool :=
  match p, s with
  | [], _ => true
  | x :: p', y :: s' => N.eqb x y && starts_with p' s'
  | _ :: _, [] => false
  end.

Fixpoint drop {A} (n : nat) (l : list A) : list A :=
  match n, l with
  | O, _ => l
  | S n', [] => []
  | S n', _ :: r => drop n' r
  end.

(* Python str.replace(pat, rep): leftmost non-overlapping; pat non-empty *)
Fixpoint replace_fuel (fuel : nat) (pat rep s : str) : str :=
  match fuel with
  | O => s
  | S f =>
    match s with
    | [] => []
    | c :: r =>
      if starts_with pat s then rep ++ replace_fuel f pat rep (drop (length pat) s)
      else c :: replace_fuel f pat rep r
    end
  end.
Definition replace_all (pat rep s : str) : str :=
  match pat with
  | [] => s
  | _ => replace_fuel (S (length s)) pat rep s
  end.

(* decimal printing *)
Fixpoint dec_fuel (fuel : nat) (n : N) (acc : str) : str :=
  match fuel with
  | O => acc
  | S f =>
    let d := N.modulo n 10 in
    let q := N.div n 10 in
    let acc' := (48 + d) :: acc in
    if N.eqb q 0 then acc' else dec_fuel f q acc'
  end.
Definition dec_of_N (n : N) : str := dec_fuel (S (N.to_nat (N.log2 n))) n [].
Definition dec_of_Z (z : Z) : str :=
  match z with
  | Z0 => [48]
  | Zpos p => dec_of_N (Npos p)
  | Zneg p => 45 :: dec_of_N (Npos p)
  end.

Definition is_digit (c : N) : bool := (48 <=? c) && (c <=? 57).
Definition is_alpha (c : N) : bool := ((65 <=? c) && (c <=? 90)) || ((97 <=? c) && (c <=? 122)).
Definition is_lower (c : N) : bool := (97 <=? c) && (c <=? 122).

Fixpoint mem_str (x : str) (l : list str) : bool :=
  match l with
  | [] => false
  | y :: r => str_eqb x y || mem_str x r
  end.

Fixpoint index_of (x : str) (l : list str) : option nat :=
  match l with
  | [] => None
  | y :: r => if str_eqb x y then Some O else option_map S (index_of x r)
  end.

Fixpoint assoc {B} (k : str) (l : list (str * B)) : option B :=
  match l with
  | [] => None
  | (k', v) :: r => if str_eqb k k' then Some v else assoc k r
  end.

Fixpoint sumN (l : list N) : N := match l with [] => 0 | x :: r => x + sumN r end.

Fixpoint last_opt {A} (l : list A) : option A :=
  match l with [] => None | [x] => Some x | _ :: r => last_opt r end.

Fixpoint all_b {A} (f : A -> bool) (l : list A) : bool :=
  match l with [] => true | x :: r => f x && all_b f r end.
Fixpoint any_b {A} (f : A -> bool) (l : list A) : bool :=
  match l with [] => false | x :: r => f x || any_b f r end.

Fixpoint list_eqb {A} (eqb : A -> A -> bool) (a b : list A) : bool :=
  match a, b with
  | [], [] => true
  | x :: a', y :: b' => eqb x y && list_eqb eqb a' b'
  | _, _ => false
  end.

Definition opt_eqb {A} (eqb : A -> A -> bool) (a b : option A) : bool :=
  match a, b with
  | None, None => true
  | Some x, Some y => eqb x y
  | _, _ => false
  end.
