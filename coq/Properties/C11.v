(* C11 — text conversion translates exactly the documented tokens and nothing else.
   Model: TextConv.v (pass 1 = the ordered str.replace calls of the regenerated RTF_CHAR_MAPPING,
   pass 2 = the command scanner with lookup of the whole match in the regenerated table, pass 3 =
   escaping).  Reference: TextSpec.spec_events, ONE left-to-right tokenizer of the input text.
     C11_table        every one of the regenerated table's commands, alone, reads back as its mapped
                      character(s)                                        (finite: the whole table);
     C11_templates    model = reference on every command x 16 context templates (start/middle/end,
                      adjacent commands, followed by digit/letter/brace group/punctuation/^/_/>=/<=)
                                                                          (finite: table x templates);
     C11_no_capture   the control words pass 1 emits are not table keys, except \geq / \leq which map
                      to the comparison signs                            (finite);
     C11_specials     the special sequences and unknown / braced commands  (finite list);
     C11_plain        text without trigger characters is only escaped — every other character stays
                      unchanged and in order                              (UNBOUNDED, by induction);
     C11_off          with conversion off the text is only escaped        (definitional);
     C11_scan_command / C11_scan_braced / C11_scan_other   (Proofs/ScanProofs.v, UNBOUNDED over command names, brace
                      groups and continuations) one step of the pass-2 scanner: a command not followed by a letter
                      or '{' is looked up as a whole; a command with its brace group is looked up TOGETHER with the
                      group; a miss leaves the whole match verbatim (latex_lookup is the identity on a miss); any
                      character that is not a backslash is copied.
   The reference used in the finite lemmas is spec_events false, i.e. WITH the documented deviation:
   ">=", "<=" and "\pagefield" leave a space behind (spec_events true is the property as stated; the
   difference is the known finding C11-sign-space / C11-pagefield-space, witnessed below).
   C11_partial: model = reference for ALL texts is not proved (two replace passes vs one tokenizer). *)
From Coq Require Import Ascii String.
From Coq Require Import List NArith ZArith Bool Arith.
From V Require Import Str Tok Tables Decode TextConv TextSpec TextConvProofs ScanProofs.
Import ListNotations.
Local Open Scope string_scope.
Local Open Scope list_scope.

Theorem C11_table : all_b key_converts latex_table = true.
Proof. exact all_keys_convert. Qed.
Print Assumptions C11_table.

Theorem C11_templates : all_b key_templates_ok latex_table = true.
Proof. exact all_templates_ok. Qed.

Theorem C11_no_capture :
  all_b (fun w => match assoc w latex_table with None => true | Some _ => false end) pass1_words = true
  /\ assoc (s2l "\geq") latex_table = Some [8805%N] /\ assoc (s2l "\leq") latex_table = Some [8804%N].
Proof. exact (conj pass1_not_captured geq_leq_mapped). Qed.

Theorem C11_specials : all_b model_meets_spec special_cases = true.
Proof. exact special_cases_ok. Qed.

Theorem C11_scan_command : forall f name x tl,
  name <> [] -> all_b is_alpha name = true -> is_alpha x = false -> x <> 123%N ->
  longest_key special_keys (92%N :: name ++ x :: tl) None = None ->
  latex_fuel (S f) (92%N :: name ++ x :: tl) = latex_lookup (92%N :: name) ++ latex_fuel f (x :: tl).
Proof. exact scan_plain_command. Qed.
Print Assumptions C11_scan_command.

Theorem C11_scan_braced : forall f name inner tl,
  name <> [] -> all_b is_alpha name = true -> all_b (fun c => negb (N.eqb c 125)) inner = true ->
  longest_key special_keys (92%N :: name ++ 123%N :: inner ++ 125%N :: tl) None = None ->
  latex_fuel (S f) (92%N :: name ++ 123%N :: inner ++ 125%N :: tl)
  = latex_lookup (92%N :: name ++ 123%N :: inner ++ [125%N]) ++ latex_fuel f tl.
Proof. exact scan_braced_command. Qed.

Theorem C11_scan_other : forall f c tl, c <> 92%N -> latex_fuel (S f) (c :: tl) = c :: latex_fuel f tl.
Proof. exact scan_other. Qed.

Theorem C11_plain : forall s,
  Forall (fun c => plain_char c = true) s -> convert_special_chars true s = escape s.
Proof. exact plain_text_untouched. Qed.
Print Assumptions C11_plain.

Theorem C11_off : forall s, convert_special_chars false s = escape s.
Proof. exact conversion_off_verbatim. Qed.

(* the property as stated is refuted on the faithful model by the known finding: an inserted space *)
Theorem C11_refuted_sign_space :
  exists s, ev_list_eqb (events_of_tokens (text_tokens true s)) (spec_events true s) = false.
Proof. exists (s2l "a>=b"). vm_compute. reflexivity. Qed.
