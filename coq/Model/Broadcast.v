(* BroadcastValue: iloc / to_list / update_cell / update_row, and column deletion. *)
From Coq Require Import List NArith ZArith Bool Arith.
From V Require Import Str Doc.
Import ListNotations.

Definition iloc {A} (v : mat A) (r c : nat) : option A :=
  match v with
  | [] => None
  | row0 :: _ =>
    let R := length v in
    let C := length row0 in
    match C with
    | O => None
    | _ =>
      match nth_error v (Nat.modulo r R) with
      | Some row => nth_error row (Nat.modulo c C)
      | None => None
      end
    end
  end.

(* attribute lookup: None attribute -> Ok None; index failure -> ValueError (as BroadcastValue.iloc raises) *)
Definition get {A} (o : omat A) (r c : nat) : res (option A) :=
  match o with
  | None => Ok None
  | Some v => match iloc v r c with Some x => Ok (Some x) | None => Err ValueErr end
  end.

(* required attribute: None makes the pydantic model construction at encode time fail (ValidationError) *)
Definition getreq {A} (o : omat A) (r c : nat) : res A :=
  do x <- get o r c;
  match x with Some a => Ok a | None => Err ValueErr end.

Fixpoint repeat_app {A} (l : list A) (k : nat) : list A :=
  match k with O => [] | S k' => l ++ repeat_app l k' end.

Definition ceil_div (a b : nat) : nat := Nat.div (a + b - 1) b.

Definition to_list {A} (v : mat A) (rows cols : nat) : mat A :=
  let R := length v in
  let C := length (hd [] v) in
  let rr := Nat.max 1 (ceil_div rows R) in
  let cr := Nat.max 1 (ceil_div cols C) in
  map (firstn cols) (firstn rows (repeat_app (map (fun row => repeat_app row cr) v) rr)).

Fixpoint set_nth {A} (l : list A) (n : nat) (x : A) : list A :=
  match l, n with
  | [], _ => []
  | _ :: r, O => x :: r
  | y :: r, S n' => y :: set_nth r n' x
  end.

Definition update_row {A} (v : mat A) (rows cols : nat) (r : nat) (row : list A) : mat A :=
  set_nth (to_list v rows cols) r row.

Definition update_cell {A} (v : mat A) (rows cols : nat) (r c : nat) (x : A) : mat A :=
  let m := to_list v rows cols in
  match nth_error m r with
  | Some row => set_nth m r (set_nth row c x)
  | None => m
  end.

(* keep the elements whose index is not in `removed` *)
Fixpoint drop_idx_from {A} (i : nat) (removed : list nat) (l : list A) : list A :=
  match l with
  | [] => []
  | x :: r =>
    if existsb (Nat.eqb i) removed then drop_idx_from (S i) removed r
    else x :: drop_idx_from (S i) removed r
  end.
Definition drop_idx {A} (removed : list nat) (l : list A) : list A := drop_idx_from 0 removed l.

(* prepare_dataframe_for_body_encoding: expand to the full grid, then delete the removed columns *)
Definition slice_cols {A} (rows cols : nat) (removed : list nat) (o : omat A) : omat A :=
  match o with
  | None => None
  | Some v => Some (map (drop_idx removed) (to_list v rows cols))
  end.
