(* calculate_row_metadata, _assign_pages, the strategies' page materialisation,
   _get_group_headers and _detect_group_boundaries. *)
From Coq Require Import Ascii String.
From Coq Require Import List NArith ZArith QArith Bool Arith.
From V Require Import Str Num Doc Broadcast.
Local Open Scope list_scope.
Import ListNotations.
Local Open Scope string_scope.
Local Open Scope list_scope.

Definition col_index (name : str) (cols : list str) : option nat := index_of name cols.

Definition cell_at (row : list val) (i : nat) : val := nth i row VNull.

Definition col_val (cols : list str) (row : list val) (name : str) : val :=
  match col_index name cols with Some i => cell_at row i | None => VNull end.

(* change flags: row 0 -> true; row i -> some key column differs (compared as str()) *)
Definition differs_str (cols : list str) (keys : list str) (prev cur : list val) : bool :=
  any_b (fun k => negb (str_eqb (py_str (col_val cols prev k)) (py_str (col_val cols cur k)))) keys.

Fixpoint changes_from (cols keys : list str) (prev : list val) (rows : list (list val)) : list bool :=
  match rows with
  | [] => []
  | r :: rest => differs_str cols keys prev r :: changes_from cols keys r rest
  end.
Definition changes (cols keys : list str) (rows : list (list val)) : list bool :=
  match rows with
  | [] => []
  | r :: rest => true :: changes_from cols keys r rest
  end.

Definition divider : str := s2l "-----".

(* "col: val | col: val" with '-----' values left out *)
Definition heading_text (cols keys : list str) (row : list val) : str :=
  join (s2l " | ")
       (flat_map (fun k => let v := col_val cols row k in
                           if str_eqb (py_str v) divider then []
                           else [k ++ s2l ": " ++ py_str v]) keys).

Record rowmeta := {
  rm_data : Z; rm_pb : Z; rm_sl : Z; rm_total : Z; rm_gs : bool; rm_ss : bool
}.

Definition lines_needed (tw cw : Q) : Z := Z.max 1 (qtrunc (tw / cw) + 1).

(* key of the width oracle: text NUL font NUL num/den of the size *)
Definition wkey (s : str) (font : Z) (size : Q) : str :=
  let q := Qred size in
  s ++ [0%N] ++ dec_of_Z font ++ [0%N] ++ dec_of_Z (Qnum q) ++ [47%N] ++ dec_of_Z (Zpos (Qden q)).

Definition width_at (widths : list (str * Q)) (s : str) (font : Z) (size : Q) : res Q :=
  match s with
  | [] => Ok (0 # 1)
  | _ => of_opt (assoc (wkey s font size) widths) OtherErr   (* oracle miss: a harness error, never a Python error *)
  end.

Definition width_of (widths : list (str * Q)) (s : str) : res Q := width_at widths s 1 (9 # 1).

(* per-row line estimate over the displayed columns *)
(* font and size of the cell being measured: looked up in the column-reduced table attributes *)
Definition cell_font (fonts : omat Z) (r c : nat) : res Z :=
  match fonts with
  | Some ((_ :: _) as v) => of_opt (iloc v r c) ValueErr
  | _ => Ok 1%Z
  end.
Definition cell_size (sizes : omat Q) (r c : nat) : res Q :=
  match sizes with
  | Some ((_ :: _) as v) => of_opt (iloc v r c) ValueErr
  | _ => Ok (9 # 1)
  end.

Fixpoint data_lines (widths : list (str * Q)) (fonts : omat Z) (sizes : omat Q) (row_idx : nat)
         (removed : list nat) (cw : list Q)
         (row : list val) (col_idx : nat) (width_idx : nat) (acc : Z) : res Z :=
  match row with
  | [] => Ok acc
  | v :: rest =>
    if existsb (Nat.eqb col_idx) removed
    then data_lines widths fonts sizes row_idx removed cw rest (S col_idx) width_idx acc
    else
      match nth_error cw width_idx with
      | None => Ok acc                       (* width_idx >= len(col_widths): break *)
      | Some cur =>
        let prev := match width_idx with O => 0 # 1 | S k => nth k cw (0 # 1) end in
        do font <- cell_font fonts row_idx width_idx;
        do size <- cell_size sizes row_idx width_idx;
        do tw <- width_at widths (display v) font size;     (* a null is measured as the empty cell it renders as *)
        data_lines widths fonts sizes row_idx removed cw rest (S col_idx) (S width_idx)
                   (Z.max acc (lines_needed tw (cur - prev)))
      end
  end.

Definition header_rows (widths : list (str * Q)) (text : str) (total_width : Q) : res Z :=
  do tw <- width_of widths text;
  Ok (Z.max 1 (qtrunc (tw / total_width) + 1)).

Fixpoint metas (widths : list (str * Q)) (fonts : omat Z) (sizes : omat Q) (row_idx : nat)
         (cols : list str) (removed : list nat) (cw : list Q)
         (page_by subline_by : option (list str))
         (rows : list (list val)) (pbc slc : list bool) : res (list rowmeta) :=
  match rows with
  | [] => Ok []
  | row :: rest =>
    let pb_change := hd true pbc in
    let sl_change := hd true slc in
    let total_width := qsum cw in
    do dl <- data_lines widths fonts sizes row_idx removed cw row 0 0 1;
    do pbr <- match page_by with
              | Some keys =>
                if pb_change && negb (match keys with [] => true | _ => false end) then
                  let ht := heading_text cols keys row in
                  match ht with [] => Ok 0%Z | _ => header_rows widths ht total_width end
                else Ok 0%Z
              | None => Ok 0%Z
              end;
    do slr <- match subline_by with
              | Some keys =>
                if sl_change && negb (match keys with [] => true | _ => false end) then
                  let ht := heading_text cols keys row in
                  match ht with [] => Ok 0%Z | _ => header_rows widths ht total_width end
                else Ok 0%Z
              | None => Ok 0%Z
              end;
    do ms <- metas widths fonts sizes (S row_idx) cols removed cw page_by subline_by rest (tl pbc) (tl slc);
    let nonempty o := match o with Some (_ :: _) => true | _ => false end in
    Ok ({| rm_data := dl; rm_pb := pbr; rm_sl := slr; rm_total := (dl + pbr + slr)%Z;
           rm_gs := if nonempty page_by then pb_change else false;
           rm_ss := if nonempty subline_by then sl_change else false |} :: ms)
  end.

Definition row_metadata (widths : list (str * Q)) (fonts : omat Z) (sizes : omat Q)
           (f : frame) (removed : list nat) (cw : list Q)
           (page_by subline_by : option (list str)) : res (list rowmeta) :=
  let pbc := match page_by with
             | Some ((_ :: _) as k) => changes (f_cols f) k (f_rows f)
             | _ => map (fun _ => true) (f_rows f) end in
  let slc := match subline_by with
             | Some ((_ :: _) as k) => changes (f_cols f) k (f_rows f)
             | _ => map (fun _ => true) (f_rows f) end in
  metas widths fonts sizes 0 (f_cols f) removed cw page_by subline_by (f_rows f) pbc slc.

(* _assign_pages: greedy; state = (first row?, current page, rows on it) *)
Fixpoint assign_loop (avail : Z) (new_page : bool) (ms : list rowmeta) (first : bool) (page cur : Z)
  : list Z :=
  match ms with
  | [] => []
  | m :: rest =>
    let force := (rm_ss m && negb first) || (new_page && rm_gs m && negb first) in
    let brk := (force || (avail <? cur + rm_total m)%Z) && (0 <? cur)%Z in
    let page' := if brk then (page + 1)%Z else page in
    let cur' := if brk then 0%Z else cur in
    page' :: assign_loop avail new_page rest false page' (cur' + rm_total m)%Z
  end.

Definition assign_pages (nrow additional : Z) (new_page : bool) (ms : list rowmeta) : list Z :=
  assign_loop (Z.max 1 (nrow - additional)) new_page ms true 1 0.

(* unique sorted page numbers *)
Fixpoint insert_z (z : Z) (l : list Z) : list Z :=
  match l with
  | [] => [z]
  | x :: r => if Z.eqb z x then l else if Z.ltb z x then z :: l else x :: insert_z z r
  end.
Definition unique_sorted (l : list Z) : list Z := fold_right insert_z [] l.

(* indices carrying page number p: (min, max) *)
Fixpoint range_of (p : Z) (pages : list Z) (i : nat) (acc : option (nat * nat)) : option (nat * nat) :=
  match pages with
  | [] => acc
  | q :: r =>
    let acc' := if Z.eqb p q then
                  match acc with None => Some (i, i) | Some (lo, hi) => Some (Nat.min lo i, Nat.max hi i) end
                else acc in
    range_of p r (S i) acc'
  end.

Record pagectx := {
  pc_num : Z; pc_total : Z;
  pc_start : nat;                 (* first row (original frame) *)
  pc_len : nat;
  pc_first : bool; pc_last : bool; pc_needs_header : bool;
  pc_subline : option (list (str * val));
  pc_pbinfo : option (list (str * val));
  pc_bounds : list (nat * list (str * val));
  (* filled by post-processing *)
  pc_slice_start : nat
}.

(* _get_group_headers: values of the page's first row, '-----' filtered *)
Definition group_values (cols keys : list str) (row : list val) : list (str * val) :=
  flat_map (fun k => let v := col_val cols row k in
                     if str_eqb (py_str v) divider then [] else [(k, v)]) keys.

Definition group_headers (f : frame) (keys : list str) (start : nat) : option (list (str * val)) :=
  match keys with
  | [] => None
  | _ => match nth_error (f_rows f) start with
         | Some row => Some (group_values (f_cols f) keys row)
         | None => None
         end
  end.

Definition raw_differs (cols keys : list str) (a b : list val) : bool :=
  any_b (fun k => negb (val_eqb (col_val cols a k) (col_val cols b k))) keys.

(* _detect_group_boundaries over rows start..end (inclusive) *)
Fixpoint boundaries_from (cols keys : list str) (prev : list val) (rows : list (list val)) (rel : nat)
  : list (nat * list (str * val)) :=
  match rows with
  | [] => []
  | r :: rest =>
    (if raw_differs cols keys prev r then [(rel, group_values cols keys r)] else [])
    ++ boundaries_from cols keys r rest (S rel)
  end.
Definition boundaries (f : frame) (keys : list str) (start len : nat) : list (nat * list (str * val)) :=
  match firstn len (skipn start (f_rows f)) with
  | [] => []
  | r :: rest => boundaries_from (f_cols f) keys r rest 1
  end.

Inductive strategy := SDefault | SPageBy | SSubline.

Definition build_pages (f : frame) (b : body) (st : strategy) (pages : list Z) : list pagectx :=
  let uniq := unique_sorted pages in
  let total := Z.of_nat (length uniq) in
  let pb := match b_page_by b with Some k => k | None => [] end in
  let sl := match b_subline_by b with Some k => k | None => [] end in
  flat_map (fun p =>
    match range_of p pages 0 None with
    | None => []
    | Some (lo, hi) =>
      let first := Z.eqb p 1 in
      [{| pc_num := p; pc_total := total; pc_start := lo; pc_len := hi - lo + 1;
          pc_first := first; pc_last := Z.eqb p total;
          pc_needs_header := b_pageby_header b || first;
          pc_subline := match st with SSubline => group_headers f sl lo | _ => None end;
          pc_pbinfo := match st with SDefault => None | _ => group_headers f pb lo end;
          pc_bounds := match st, pb with
                       | SDefault, _ => []
                       | _, [] => []
                       | _, _ => boundaries f pb lo (hi - lo + 1)
                       end;
          pc_slice_start := 0 |}]
    end) uniq.

(* ---- C04 predicate on a page assignment (evaluated on the implementation's output) ----
   pages: page number of every row, in row order.  A break may fall before row i only if a grouping
   rule forces it or the row no longer fits; a break that is forced or needed (the page already holds
   something and the row no longer fits) must fall. *)
Fixpoint check_assign_from (avail : Z) (new_page : bool) (ms : list rowmeta) (pages : list Z)
         (prev cur : Z) : bool :=
  match ms, pages with
  | [], [] => true
  | m :: ms', p :: ps =>
    let force := rm_ss m || (new_page && rm_gs m) in
    let over := (avail <? cur + rm_total m)%Z in
    if Z.eqb p prev
    then negb ((force || over) && (0 <? cur)%Z) && check_assign_from avail new_page ms' ps p (cur + rm_total m)%Z
    else Z.eqb p (prev + 1) && (force || over) && check_assign_from avail new_page ms' ps p (rm_total m)
  | _, _ => false
  end.

Definition check_assign (avail : Z) (new_page : bool) (ms : list rowmeta) (pages : list Z) : bool :=
  match ms, pages with
  | [], [] => true
  | m :: ms', p :: ps => Z.eqb p 1 && check_assign_from avail new_page ms' ps 1 (rm_total m)
  | _, _ => false
  end.

(* the implementation's own accounting: every page within the available rows, or a single row *)
Fixpoint page_sums (ms : list rowmeta) (pages : list Z) (cur_page : Z) (sum : Z) (count : nat)
  : list (Z * nat) :=
  match ms, pages with
  | m :: ms', p :: ps =>
    if Z.eqb p cur_page then page_sums ms' ps cur_page (sum + rm_total m)%Z (S count)
    else (sum, count) :: page_sums ms' ps p (rm_total m) 1
  | _, _ => [(sum, count)]
  end.
Definition check_fill (avail : Z) (ms : list rowmeta) (pages : list Z) : bool :=
  match ms, pages with
  | m :: ms', p :: ps =>
    all_b (fun sc => (fst sc <=? avail)%Z || Nat.eqb (snd sc) 1) (page_sums ms' ps p (rm_total m) 1)
  | _, _ => true
  end.
