#!/bin/bash
# try_seed.sh <seed-id> <property> <worktree>   -- confirm a seeded change and run the property's check on it
set -u
ID=$1; PROP=$2; WT=$3
cd "$WT" || exit 2
echo "== tests with the change"
T=$(PYTHONPATH=$WT/src /venv/bin/python -m pytest -q -p no:cacheprovider --timeout=900 2>&1 | tail -1); echo "$T"
echo "== demo on original"; (cd _seed && PYTHONPATH=/repo/src /venv/bin/python demo.py >/dev/null 2>&1); D0=$?; echo "exit $D0"
echo "== demo on changed";  (cd _seed && PYTHONPATH=$WT/src /venv/bin/python demo.py >/dev/null 2>&1); D1=$?; echo "exit $D1"
mkdir -p /verif/seeded/$ID
git -C "$WT" diff -- src > /verif/seeded/$ID/patch.diff
cp _seed/demo.py /verif/seeded/$ID/demo.py
cp _seed/meta.json /verif/seeded/$ID/agent_meta.json 2>/dev/null
cd /verif
git -C /repo apply /verif/seeded/$ID/patch.diff || { echo "patch does not apply to /repo"; exit 3; }
echo "== ./check $PROP quick on the changed tree"
OUT=$(./check $PROP quick 2>&1); RC=$?
echo "$OUT" | grep -E "^VIOLATION|^KNOWN" | head -5; echo "check exit $RC"
git -C /repo checkout -- .
/venv/bin/python - "$ID" "$PROP" "$T" "$D0" "$D1" "$RC" <<'PY'
import json, sys, os
sid, prop, tests, d0, d1, rc = sys.argv[1:7]
p = f"/verif/seeded/{sid}/agent_meta.json"
agent = json.load(open(p)) if os.path.exists(p) else {}
meta = {"seed": sid, "property": prop, "what_it_breaks": agent.get("what_it_breaks"), "needs_to_manifest": agent.get("needs_to_manifest"),
        "files_changed": agent.get("files_changed"),
        "confirmed": {"tests_with_change": tests, "demo_exit_original": int(d0), "demo_exit_changed": int(d1)},
        "what_i_ran": f"pytest in a scratch worktree with the change; demo.py against /repo/src and against the worktree; git -C /repo apply patch.diff; ./check {prop} quick; git -C /repo checkout -- .",
        "check_result": {"exit": int(rc), "detected": int(rc) == 1}}
json.dump(meta, open(f"/verif/seeded/{sid}/meta.json", "w"), indent=1)
if os.path.exists(p): os.remove(p)
print("detected" if int(rc) == 1 else "MISSED")
PY
