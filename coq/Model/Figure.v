(* RTFFigureService: hex payload, PNG / JPEG dimension parsing, positional sizes. *)
From Coq Require Import Ascii String.
From Coq Require Import List NArith ZArith QArith Bool Arith.
From V Require Import Str Num Tok Tables Items Doc.
Import ListNotations.
Local Open Scope string_scope.
Local Open Scope list_scope.

Definition hex_digit (n : N) : N := (if n <? 10 then 48 + n else 87 + n)%N.

Fixpoint hex_of_bytes (bs : list N) : str :=
  match bs with
  | [] => []
  | b :: r => hex_digit (N.div b 16) :: hex_digit (N.modulo b 16) :: hex_of_bytes r
  end.

Definition unhex_digit (c : N) : option N :=
  (if (48 <=? c) && (c <=? 57) then Some (c - 48)
   else if (97 <=? c) && (c <=? 102) then Some (c - 87)
   else if (65 <=? c) && (c <=? 70) then Some (c - 55)
   else None)%N.

Fixpoint unhex (s : str) : option (list N) :=
  match s with
  | [] => Some []
  | a :: b :: r =>
    match unhex_digit a, unhex_digit b, unhex r with
    | Some x, Some y, Some rest => Some ((x * 16 + y)%N :: rest)
    | _, _, _ => None
    end
  | _ => None
  end.

Definition be16 (a b : N) : Z := Z.of_N (a * 256 + b).
Definition be32 (a b c d : N) : Z := Z.of_N (((a * 256 + b) * 256 + c) * 256 + d).

Definition png_sig : list N := [137; 80; 78; 71; 13; 10; 26; 10]%N.

Definition png_dims (data : list N) : option (Z * Z) :=
  if Nat.ltb 24 (length data) && list_eqb N.eqb (firstn 8 data) png_sig then
    match skipn 16 data with
    | a :: b :: c :: d :: e :: f :: g :: h :: _ => Some (be32 a b c d, be32 e f g h)
    | _ => None
    end
  else None.

Definition is_sof (m : N) : bool :=
  existsb (N.eqb m) [192; 193; 194; 195; 197; 198; 199; 201; 202; 203; 205; 206; 207]%N.

(* s = data[i:], rem = len(data) - i; loop while i < len - 9, i.e. 9 < rem *)
Fixpoint jpeg_scan (fuel : nat) (s : list N) (rem : nat) : option (Z * Z) :=
  match fuel with
  | O => None
  | S f =>
    if Nat.ltb 9 rem then
      match s with
      | 255%N :: m :: l1 :: l2 :: _ :: h1 :: h2 :: w1 :: w2 :: _ =>
        if is_sof m then Some (be16 w1 w2, be16 h1 h2)
        else
          let step := (2 + Z.to_nat (be16 l1 l2))%nat in
          jpeg_scan f (skipn step s) (rem - step)
      | _ :: r => jpeg_scan f r (rem - 1)
      | [] => None
      end
    else None
  end.

Definition jpeg_dims (data : list N) : option (Z * Z) :=
  match data with
  | 255%N :: 216%N :: rest =>
    if Nat.ltb (length data) 10 then None
    else jpeg_scan (length data) rest (length data - 2)
  | _ => None
  end.

Definition image_dims (fmt : str) (data : list N) : option (Z * Z) :=
  if str_eqb fmt (s2l "png") then png_dims data
  else if str_eqb fmt (s2l "jpeg") then jpeg_dims data
  else None.

(* _get_dimension: positional, last value reused *)
Definition dimension (l : list Q) (i : nat) : res Q :=
  match nth_error l i with
  | Some x => Ok x
  | None => of_opt (last_opt l) IndexErr
  end.

Definition align_tokens (a : str) : list tok :=
  if str_eqb a (s2l "center") then [ctrl "qc"]
  else if str_eqb a (s2l "right") then [ctrl "qr"]
  else [ctrl "ql"].

Definition blip_tokens (fmt : str) : list tok :=
  if str_eqb fmt (s2l "jpeg") then [ctrl "jpegblip"]
  else if str_eqb fmt (s2l "emf") then [ctrl "emfblip"]
  else [ctrl "pngblip"].

Definition encode_single_figure (fmt : str) (data : list N) (w h : Q) (align : str) : pict :=
  let '(pw, ph) := match image_dims fmt data with
                   | Some d => d
                   | None => (qtrunc (w * (96 # 1)), qtrunc (h * (96 # 1)))
                   end in
  {| pc_align := align_tokens align; pc_blip := blip_tokens fmt;
     pc_w := pw; pc_h := ph;
     pc_wgoal := qtrunc (w * (1440 # 1)); pc_hgoal := qtrunc (h * (1440 # 1));
     pc_hex := hex_of_bytes data |}.
