(* C11: one step of the command scanner (pass 2), for ALL command names, brace groups and continuations:
   the WHOLE match - command, or command with its brace group - is looked up, and a miss leaves it verbatim. *)
From Coq Require Import Ascii String.
From Coq Require Import List NArith ZArith Bool Arith Lia.
From V Require Import Str Tok Tables TextConv LexProofs.
Import ListNotations.
Local Open Scope list_scope.
Local Open Scope N_scope.

Lemma span_all p l acc : all_b p l = true -> span p l acc = (rev' (rev_append l acc), []).
Proof.
  revert acc; induction l as [|c l IH]; intros acc H; cbn [span all_b rev_append] in *; [reflexivity|].
  apply andb_prop in H as [H1 H2]. rewrite H1. apply IH. exact H2.
Qed.

(* \name followed by something that is neither a letter nor an opening brace *)
Theorem scan_plain_command f name x tl :
  name <> [] -> all_b is_alpha name = true -> is_alpha x = false -> x <> 123 ->
  longest_key special_keys (92 :: name ++ x :: tl) None = None ->
  latex_fuel (S f) (92 :: name ++ x :: tl) = latex_lookup (92 :: name) ++ latex_fuel f (x :: tl).
Proof.
  intros Hne Ha Hx Hb Hk. cbn [latex_fuel]. change (N.eqb 92 92) with true. cbn iota. rewrite Hk.
  rewrite (span_app is_alpha name x tl [] Ha Hx). rewrite rev'_rev_append.
  destruct name as [|n0 name']; [congruence|].
  destruct x as [|p]; [reflexivity|].
  destruct (N.eqb (N.pos p) 123) eqn:E; [apply N.eqb_eq in E; congruence|].
  destruct p as [p|p|]; try reflexivity; repeat (destruct p as [p|p|]; try reflexivity); apply N.eqb_neq in E; congruence.
Qed.

(* \name{inner}: looked up together with its brace group *)
Theorem scan_braced_command f name inner tl :
  name <> [] -> all_b is_alpha name = true -> all_b (fun c => negb (N.eqb c 125)) inner = true ->
  longest_key special_keys (92 :: name ++ 123 :: inner ++ 125 :: tl) None = None ->
  latex_fuel (S f) (92 :: name ++ 123 :: inner ++ 125 :: tl)
  = latex_lookup (92 :: name ++ 123 :: inner ++ [125]) ++ latex_fuel f tl.
Proof.
  intros Hne Ha Hi Hk. cbn [latex_fuel]. change (N.eqb 92 92) with true. cbn iota. rewrite Hk.
  rewrite (span_app is_alpha name 123 (inner ++ 125 :: tl) [] Ha eq_refl). rewrite rev'_rev_append.
  destruct name as [|n0 name']; [congruence|].
  rewrite (span_app (fun c => negb (N.eqb c 125)) inner 125 tl [] Hi eq_refl). rewrite rev'_rev_append. reflexivity.
Qed.

(* a character that is not a backslash is copied *)
Theorem scan_other f c tl : c <> 92 -> latex_fuel (S f) (c :: tl) = c :: latex_fuel f tl.
Proof. intro H. cbn [latex_fuel]. replace (N.eqb c 92) with false by (symmetry; apply N.eqb_neq; exact H). reflexivity. Qed.

(* a miss is the identity on the match *)
Lemma lookup_miss cmd : assoc cmd latex_table = None -> latex_lookup cmd = cmd.
Proof. unfold latex_lookup. intros ->. reflexivity. Qed.
