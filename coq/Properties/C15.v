(* C15: concurrent encodes do not interfere — the colour context is per thread (Model/Ctx.v: tctx). *)
From Coq Require Import Ascii String.
From Coq Require Import List NArith ZArith Bool Arith.
Local Open Scope string_scope.
Local Open Scope list_scope.
From V Require Import Str Doc Ctx CtxProofs.
Import ListNotations.

(* for EVERY interleaving (schedule) of context events of any number of threads, what thread t's colour look-ups
   observe equals what they observe when t's events run alone *)
Theorem C15_isolated :
  forall (D : Type) (pal : D -> list str) t (sched : list (ev D)) s s',
    tget t s = tget t s' ->
    thread_obs t (observe D pal s sched) = thread_obs t (observe D pal s' (filter (of_thread D t) sched)).
Proof. exact isolated. Qed.
Print Assumptions C15_isolated.

(* in particular every look-up made during an encode of d sees d's own palette, whatever the other threads do *)
Theorem C15_own_palette :
  forall (D : Type) (pal : D -> list str) t d n (sched : list (ev D)) s,
    filter (of_thread D t) sched = one_encode D t d n ->
    thread_obs t (observe D pal s sched) = repeat (Some (pal d)) n.
Proof. exact interleaved_lookups. Qed.
Print Assumptions C15_own_palette.

(* with one context shared by all threads (the code before the repair) the statement is false *)
Theorem C15_shared_refuted :
  thread_obs 0 (observe_shared nat demo_pal None [ESet 0 0; ESet 1 1; EGet 0; EClear 1; EClear 0])
  <> [Some (demo_pal 0)].
Proof. exact shared_context_interferes. Qed.
Print Assumptions C15_shared_refuted.

Example C15_nonvacuous :
  thread_obs 0 (observe nat demo_pal [] [ESet 0 0; ESet 1 1; EGet 0; EGet 1; EClear 1; EGet 0; EClear 0])
  = [Some (demo_pal 0); Some (demo_pal 0)].
Proof. vm_compute. reflexivity. Qed.

(* any number of threads, each running any number of encodes one after another (thread t: the jobs (d, n) = document and
   number of look-ups): in EVERY interleaving each look-up of t sees the palette of t's encode in progress *)
Theorem C15_many_encodes :
  forall (D : Type) (pal : D -> list str) t (jobs : list (D * nat)) (sched : list (ev D)) s,
    filter (of_thread D t) sched = many_encodes D t jobs ->
    thread_obs t (observe D pal s sched) = flat_map (fun j => repeat (Some (pal (fst j))) (snd j)) jobs.
Proof. exact interleaved_many. Qed.
Print Assumptions C15_many_encodes.

Example C15_many_nonvacuous :
  filter (of_thread nat 0) [ESet 0 0; ESet 1 1; EGet 0; EClear 0; EGet 1; ESet 0 1; EGet 0; EClear 1; EClear 0]
  = many_encodes nat 0 [(0, 1); (1, 1)]%nat.
Proof. vm_compute. reflexivity. Qed.
