(* C20: consistency relations of the width model, from finite facts on the dumped font metrics. *)
From Coq Require Import Ascii String.
From Coq Require Import List NArith ZArith QArith Bool Arith Lia.
Local Open Scope string_scope.
Local Open Scope list_scope.
From V Require Import Str Num Tables Advances Doc StrWidth.
Import ListNotations.
Local Open Scope Z_scope.

(* ---- generic: non-negative advances and non-negative steps ---- *)
Section Generic.
  Variables (adv : list (N * Z)) (kern : list ((N * N) * Z)).
  Hypothesis H1 : forall c, 0 <= advance adv c.
  Hypothesis H2 : forall a b, 0 <= advance adv b + lookupNN a b kern.

  Lemma width64_from_nonneg prev s : 0 <= width64_from adv kern prev s.
  Proof.
    revert prev; induction s as [|c s IH]; intros prev; cbn [width64_from]; [lia|].
    specialize (IH c). specialize (H2 prev c). lia.
  Qed.

  Theorem width64_nonneg s : 0 <= width64 adv kern s.
  Proof.
    destruct s as [|c s]; cbn [width64]; [lia|].
    pose proof (width64_from_nonneg c s). specialize (H1 c). lia.
  Qed.

  (* the character before position |s| when s follows prev *)
  Definition lastc (s : str) (prev : N) : N := fold_left (fun _ c => c) s prev.

  Lemma width64_from_snoc prev s c :
    width64_from adv kern prev (s ++ [c])
    = width64_from adv kern prev s + advance adv c + lookupNN (lastc s prev) c kern.
  Proof.
    revert prev; induction s as [|x s IH]; intros prev; cbn [app width64_from lastc fold_left]; [lia|].
    rewrite IH. unfold lastc. lia.
  Qed.

  (* appending a character never decreases the width *)
  Theorem width64_append_mono s c : width64 adv kern s <= width64 adv kern (s ++ [c]).
  Proof.
    destruct s as [|x s]; cbn [app width64].
    - cbn [width64_from]. specialize (H1 c). lia.
    - rewrite width64_from_snoc. specialize (H2 (lastc s x) c). lia.
  Qed.
End Generic.

Theorem width64_empty adv kern : width64 adv kern [] = 0.
Proof. reflexivity. Qed.

(* ---- the finite facts, re-checked whenever the font files change ---- *)
Definition adv_ok (adv : list (N * Z)) : bool := forallb (fun e => 0 <=? snd e) adv.
Definition kern_ok (adv : list (N * Z)) (kern : list ((N * N) * Z)) : bool :=
  forallb (fun e => 0 <=? advance adv (snd (fst e)) + snd e) kern.
Definition metrics_ok : bool := forallb (fun m => adv_ok (fst m) && kern_ok (fst m) (snd m)) metrics.

Lemma metrics_ok_true : metrics_ok = true.
Proof. vm_compute. reflexivity. Qed.

Lemma advance_nonneg adv c : adv_ok adv = true -> 0 <= advance adv c.
Proof.
  intro H. unfold advance. induction adv as [|[k v] adv IH]; cbn [lookupN]; [lia|].
  cbn [adv_ok forallb snd] in H. apply andb_prop in H as [Hv H].
  destruct (N.eqb k c); [apply Z.leb_le in Hv; exact Hv|apply IH; exact H].
Qed.

Lemma step_nonneg adv kern a b :
  adv_ok adv = true -> kern_ok adv kern = true -> 0 <= advance adv b + lookupNN a b kern.
Proof.
  intros Ha Hk. induction kern as [|[[x y] v] kern IH]; cbn [lookupNN].
  - pose proof (advance_nonneg adv b Ha). lia.
  - cbn [kern_ok forallb fst snd] in Hk. apply andb_prop in Hk as [Hv Hk].
    destruct (N.eqb x a && N.eqb y b) eqn:E; [|apply IH; exact Hk].
    apply andb_prop in E as [_ E]. apply N.eqb_eq in E. subst y. apply Z.leb_le in Hv. exact Hv.
Qed.

(* for every bundled font: width >= 0 and appending never decreases it *)
Theorem font_width_nonneg font adv kern s :
  font_metrics font = Some (adv, kern) -> 0 <= width64 adv kern s.
Proof.
  intro Hf. unfold font_metrics in Hf.
  destruct (find _ font_file_index) as [[n i]|]; [|discriminate].
  apply nth_error_In in Hf.
  pose proof metrics_ok_true as M. unfold metrics_ok in M. rewrite forallb_forall in M.
  specialize (M _ Hf). cbn [fst snd] in M. apply andb_prop in M as [Ma Mk].
  apply width64_nonneg; [intro c; apply advance_nonneg; exact Ma|intros a b; apply step_nonneg; assumption].
Qed.

Theorem font_width_append_mono font adv kern s c :
  font_metrics font = Some (adv, kern) -> width64 adv kern s <= width64 adv kern (s ++ [c]).
Proof.
  intro Hf. unfold font_metrics in Hf.
  destruct (find _ font_file_index) as [[n i]|]; [|discriminate].
  apply nth_error_In in Hf.
  pose proof metrics_ok_true as M. unfold metrics_ok in M. rewrite forallb_forall in M.
  specialize (M _ Hf). cbn [fst snd] in M. apply andb_prop in M as [Ma Mk].
  apply width64_append_mono; [intro x; apply advance_nonneg; exact Ma|intros a b; apply step_nonneg; assumption].
Qed.

(* ---- monospaced font (number 9): one advance for every glyph, no kerning ---- *)
Definition mono_ok : bool :=
  match font_metrics 9 with
  | Some (adv, kern) =>
    match adv with
    | (_, a0) :: _ => forallb (fun e => Z.eqb (snd e) a0) adv && match kern with [] => true | _ => false end
    | [] => false
    end
  | None => false
  end.
Lemma mono_ok_true : mono_ok = true.
Proof. vm_compute. reflexivity. Qed.

Lemma width_uniform adv a0 s :
  (forall c, In c s -> advance adv c = a0) ->
  width64 adv [] s = Z.of_nat (length s) * a0.
Proof.
  intro H. destruct s as [|c s]; cbn [width64 length]; [lia|].
  assert (G : forall prev t, (forall x, In x t -> advance adv x = a0) ->
              width64_from adv [] prev t = Z.of_nat (length t) * a0).
  { intros prev t; revert prev; induction t as [|x t IH]; intros prev Ht; cbn [width64_from length lookupNN]; [lia|].
    rewrite (Ht x (or_introl eq_refl)), IH by (intros y Hy; apply Ht; right; exact Hy). lia. }
  rewrite (H c (or_introl eq_refl)), G by (intros y Hy; apply H; right; exact Hy). lia.
Qed.

(* ---- unit conversions are exact ---- *)
Theorem units_exact dpi px : ~ dpi == 0 ->
  (convert UIn dpi px * dpi == convert UPx dpi px)%Q /\ (convert UMm dpi px == convert UIn dpi px * (254 # 10))%Q.
Proof. intro H. unfold convert. split; [field; exact H|reflexivity]. Qed.

(* ---- fonts: number and name agree; anything else is refused ---- *)
Lemma name_number_agree :
  forallb (fun kv => match resolve_font (FName (fst kv)), resolve_font (FNum (snd kv)) with
                     | Ok a, Ok b => Z.eqb a b | _, _ => false end) font_name_to_number = true.
Proof. vm_compute. reflexivity. Qed.

Lemma unsupported_refused :
  resolve_font (FNum 0) = Err ValueErr /\ resolve_font (FNum 11) = Err ValueErr
  /\ resolve_font (FName (s2l "Comic Sans")) = Err ValueErr /\ unit_of (s2l "cm") = Err ValueErr.
Proof. vm_compute. repeat split; reflexivity. Qed.

(* ---- the API-level function: non-negative, zero on the empty string, monotone, linear in the size ---- *)
Local Open Scope Q_scope.

Lemma width_px_value font adv kern size s :
  font_metrics font = Some (adv, kern) ->
  exists q, width_px font size s = Ok q /\ q == (width64 adv kern s # 64) * size / (ref_size # 1).
Proof.
  intro H. unfold width_px. rewrite H. eexists; split; [reflexivity|apply Qred_correct].
Qed.

Lemma q64_nonneg z : (0 <= z)%Z -> 0 <= z # 64.
Proof. intro H. unfold Qle; cbn. lia. Qed.

Lemma q64_le a b : (a <= b)%Z -> a # 64 <= b # 64.
Proof. intro H. unfold Qle; cbn. lia. Qed.

Lemma ref_pos : 0 < ref_size # 1.
Proof. reflexivity. Qed.

Theorem width_px_nonneg font size s q :
  0 <= size -> width_px font size s = Ok q -> 0 <= q.
Proof.
  intros Hs Hq. destruct (font_metrics font) as [[adv kern]|] eqn:Hm.
  - destruct (width_px_value font adv kern size s Hm) as [q' [E1 E2]].
    rewrite E1 in Hq. injection Hq as <-. rewrite E2.
    apply Qle_shift_div_l; [exact ref_pos|]. rewrite Qmult_0_l.
    apply Qmult_le_0_compat; [|exact Hs]. apply q64_nonneg. exact (font_width_nonneg font adv kern s Hm).
  - unfold width_px in Hq. rewrite Hm in Hq. discriminate.
Qed.

Theorem width_px_empty font size q : width_px font size [] = Ok q -> q == 0.
Proof.
  intro Hq. destruct (font_metrics font) as [[adv kern]|] eqn:Hm.
  - destruct (width_px_value font adv kern size [] Hm) as [q' [E1 E2]].
    rewrite E1 in Hq. injection Hq as <-. rewrite E2. cbn [width64]. unfold Qdiv. ring_simplify. reflexivity.
  - unfold width_px in Hq. rewrite Hm in Hq. discriminate.
Qed.

Theorem width_px_append_mono font size s c q1 q2 :
  0 <= size -> width_px font size s = Ok q1 -> width_px font size (s ++ [c])%list = Ok q2 -> q1 <= q2.
Proof.
  intros Hs H1 H2. destruct (font_metrics font) as [[adv kern]|] eqn:Hm.
  - destruct (width_px_value font adv kern size s Hm) as [a [A1 A2]].
    destruct (width_px_value font adv kern size (s ++ [c])%list Hm) as [b [B1 B2]].
    rewrite A1 in H1. injection H1 as <-. rewrite B1 in H2. injection H2 as <-.
    rewrite A2, B2. unfold Qdiv. apply Qmult_le_compat_r.
    + apply Qmult_le_compat_r; [|exact Hs]. apply q64_le. exact (font_width_append_mono font adv kern s c Hm).
    + apply Qlt_le_weak, Qinv_lt_0_compat, ref_pos.
  - unfold width_px in H1. rewrite Hm in H1. discriminate.
Qed.

(* the model is exactly linear in the font size: k times the size gives k times the width *)
Theorem width_px_linear font size k s q1 q2 :
  width_px font size s = Ok q1 -> width_px font (k * size) s = Ok q2 -> q2 == k * q1.
Proof.
  intros H1 H2. destruct (font_metrics font) as [[adv kern]|] eqn:Hm.
  - destruct (width_px_value font adv kern size s Hm) as [a [A1 A2]].
    destruct (width_px_value font adv kern (k * size) s Hm) as [b [B1 B2]].
    rewrite A1 in H1. injection H1 as <-. rewrite B1 in H2. injection H2 as <-.
    rewrite A2, B2. unfold Qdiv. ring.
  - unfold width_px in H1. rewrite Hm in H1. discriminate.
Qed.

(* conversions keep order and sign for a positive dpi *)
Lemma convert_mono u dpi a b : 0 < dpi -> a <= b -> convert u dpi a <= convert u dpi b.
Proof.
  intros Hd Hab. assert (Hi : 0 <= / dpi) by (apply Qlt_le_weak, Qinv_lt_0_compat, Hd).
  destruct u; unfold convert, Qdiv.
  - apply Qmult_le_compat_r; assumption.
  - apply Qmult_le_compat_r; [apply Qmult_le_compat_r; assumption|discriminate].
  - exact Hab.
Qed.

Lemma convert_zero u dpi : convert u dpi 0 == 0.
Proof. destruct u; unfold convert, Qdiv; ring. Qed.

Lemma convert_proper u dpi a b : a == b -> convert u dpi a == convert u dpi b.
Proof. intro H. destruct u; unfold convert; rewrite H; reflexivity. Qed.

Lemma gsw_inv s f size unit dpi w :
  get_string_width s f size unit dpi = Ok w ->
  exists n px u, resolve_font f = Ok n /\ width_px n size s = Ok px /\ unit_of unit = Ok u /\ w = convert u dpi px.
Proof.
  unfold get_string_width, bind. intro H.
  destruct (resolve_font f) as [n|] eqn:E1; [|discriminate].
  destruct (width_px n size s) as [px|] eqn:E2; [|discriminate].
  destruct (unit_of unit) as [u|] eqn:E3; [|discriminate].
  injection H as <-. exists n, px, u. repeat split; first [assumption|reflexivity].
Qed.

Theorem get_string_width_nonneg s f size unit dpi w :
  0 <= size -> 0 < dpi -> get_string_width s f size unit dpi = Ok w -> 0 <= w.
Proof.
  intros Hs Hd H. destruct (gsw_inv _ _ _ _ _ _ H) as [n [px [u [E1 [E2 [E3 ->]]]]]].
  rewrite <- (convert_zero u dpi). apply convert_mono; [exact Hd|]. exact (width_px_nonneg n size s px Hs E2).
Qed.

Theorem get_string_width_empty f size unit dpi w :
  get_string_width [] f size unit dpi = Ok w -> w == 0.
Proof.
  intro H. destruct (gsw_inv _ _ _ _ _ _ H) as [n [px [u [E1 [E2 [E3 ->]]]]]].
  rewrite (convert_proper u dpi px 0 (width_px_empty n size px E2)). apply convert_zero.
Qed.

Theorem get_string_width_append_mono s c f size unit dpi w1 w2 :
  0 <= size -> 0 < dpi ->
  get_string_width s f size unit dpi = Ok w1 -> get_string_width (s ++ [c])%list f size unit dpi = Ok w2 -> w1 <= w2.
Proof.
  intros Hs Hd H1 H2.
  destruct (gsw_inv _ _ _ _ _ _ H1) as [n [px [u [E1 [E2 [E3 ->]]]]]].
  destruct (gsw_inv _ _ _ _ _ _ H2) as [n' [px' [u' [F1 [F2 [F3 ->]]]]]].
  rewrite E1 in F1. injection F1 as <-. rewrite E3 in F3. injection F3 as <-.
  apply convert_mono; [exact Hd|]. exact (width_px_append_mono n size s c px px' Hs E2 F2).
Qed.
